# Per-property configuration of ./check (units = test binaries to build and run).
# pkg is relative to /repo; "inst" lists sources that get scheduling points.

Q = "quick"
T = "thorough"

CHECKS = {}
NOT_APPLICABLE = {}
ENGINES = [
    {"name": "check", "path": "/verif/check", "serves_properties": [], "kind_free_text": "python driver: overlay/modfile generation, build, sharding, evidence, known findings"},
    {"name": "vacct", "path": "/verif/harness/vacct", "serves_properties": [], "kind_free_text": "case accounting shared by all harness tests"},
]

CHECKS["C15"] = {
    "level": "exploration",
    "level_text": ("generated operation sequences against reference models (sequential half) and generated/enumerated "
                   "schedules over the real queue code (concurrent half); a search, not a proof"),
    "level_note": "trusts container/list, container/heap, sync; concurrency explored only at injected scheduling points",
    "technique": "property-based testing (rapid state machine vs reference model) + generated-schedule exploration",
    "rule": ("sequential: rapid state-machine sequences of Add/Pop/WaitForItem (non-blocking uses only) on the real "
             "SimpleQueue vs a slice model and Add/Next/NextAll/Size on the real PriorityQueue vs a multiset model; "
             "non-trivial = sequence with >=3 items, a pop after an add and a wait on a non-empty queue (simple) / "
             ">=3 items with a counter tie (priority); distinct = distinct operation sequence. "
             "concurrent: schedules (choice vectors) over every lock/unlock/channel point of instrumented copies of "
             "simple.go; non-trivial = schedule in which an Add completes between the consumer's unlock and its select; "
             "distinct = distinct (scenario, trace)."),
    "assumptions": ["container/list, container/heap and sync are trusted",
                    "concurrent half explores interleavings at the injected points only (DESIGN.md 4.4)"],
    "units": [
        {"pkg": ".", "run": "^TestVerif_C15_", Q: {"timeout": 600}, T: {"timeout": 3000, "shards": 4}},
        {"pkg": "internal/queue", "run": "^TestVerif_C15_Seq", Q: {"timeout": 300}, T: {"timeout": 1500, "shards": 8}},
        {"pkg": "internal/queue", "run": "^TestVerif_C15_Conc", "inst": ["internal/queue/simple.go", "internal/queue/priority.go"],
         Q: {"timeout": 300}, T: {"timeout": 3000, "shards": 11}},
    ],
    "mandatory_labels": {"all": ["seq-simple/wait-nonempty", "seq-priority/ties", "seq-priority/nextall", "seq-priority/burst-of-parked-items", "message-items/counter-zero",
                                 "conc/schedules", "conc/add-between-unlock-and-select", "conc/with-cancel", "prio-conc/add-during-flush", "prio-conc/dfs-schedules"]},
}

CHECKS["C16"] = {
    "level": "exploration",
    "level_text": ("generated and bounded-exhaustive (preemption-bounded DFS) schedules over instrumented copies of the real "
                   "tracker / notify / lifecycle / peer-cache sources, terminal-state oracle (deadlock, sleeping waiter with a stale view, "
                   "exactness of returned peers); a search over the injected scheduling points, not a proof"),
    "level_note": "trusts sync, context, testing/synctest; interleavings only at lock/unlock/channel points of the listed files; lock-order part is dynamic (lock pairs seen in explored schedules), not a static analysis",
    "technique": "generated-schedule exploration (controlled scheduler, DFS + rapid choice vectors) with terminal-state invariants",
    "rule": ("scenario = waiters x updater operation sequence (+ optional cancellation); case = one schedule (choice vector) executed on the real code; "
             "non-trivial = schedule in which an updater step falls between a waiter's check (lock acquisition) and its sleep (select); "
             "distinct = distinct (scenario, trace)"),
    "assumptions": ["notify is used as its callers use it: state written and Broadcast called while holding L",
                    "fake clock of synctest; peer-cache updates use distinct peers or advance the clock"],
    "units": [
        {"pkg": "internal/notify", "run": "^TestVerif_C16_", "inst": ["internal/notify/notify.go"], Q: {"timeout": 300}, T: {"timeout": 3000, "shards": 4}},
        {"pkg": ".", "run": "^TestVerif_C16_", "inst": ["internal/notify/notify.go", "connectedness_manager.go"], Q: {"timeout": 300}, T: {"timeout": 3000, "shards": 4}},
        {"pkg": "pkg/tinder", "run": "^TestVerif_C16_", "inst": ["internal/notify/notify.go", "pkg/tinder/peer_cache.go"], Q: {"timeout": 300}, T: {"timeout": 3000, "shards": 4}},
        {"pkg": "pkg/lifecycle", "run": "^TestVerif_C16_", "inst": ["internal/notify/notify.go", "pkg/lifecycle/manager.go"], Q: {"timeout": 300}, T: {"timeout": 3000, "shards": 4}},
    ],
    "mandatory_labels": {"all": ["notify/dfs-schedules", "notify/update-between-check-and-sleep", "notify/with-cancel",
                                 "lifecycle/dfs-schedules", "lifecycle/update-between-check-and-sleep", "lifecycle/with-cancel",
                                 "tracker/dfs-schedules", "tracker/update-between-check-and-sleep", "tracker/with-cancel",
                                 "peercache/dfs-schedules", "peercache/update-between-check-and-sleep", "peercache/with-cancel"]},
}

CHECKS["C18"] = {
    "level": "exploration",
    "level_text": ("generated message sequences x writer variants x generated/exhaustive read chunkings with a round-trip oracle, plus generated hostile "
                   "streams (over-limit, truncated, malformed lengths, arbitrary bytes) with error / no-panic / bounded-allocation / no-aliasing oracles"),
    "level_note": "trusts google.golang.org/protobuf (Marshal/Unmarshal/Equal) and bufio; the allocation bound is measured with runtime.MemStats around the failing call plus the reader's retained buffer capacity",
    "technique": "property-based testing (rapid): round-trip + negative-input oracles, exhaustive chunking enumeration for small streams",
    "rule": ("case = (writer variant, limit, message sequence, read chunking) or (valid prefix + one bad frame) or arbitrary bytes; non-trivial = "
             ">=2 frames read through a chunking reader that splits frames, an over-limit frame that is not the first, a bad frame after >=1 good frame, "
             "a chunking with >1 chunk, arbitrary input >4 bytes; distinct = distinct (variant, limit, frame sizes, reader, bad prefix)"),
    "assumptions": ["protobuf encoding is deterministic enough for proto.Equal round-trips (Equal compares decoded values)"],
    "units": [
        {"pkg": "pkg/protoio", "run": "^TestVerif_C18_", Q: {"timeout": 300}, T: {"timeout": 3000, "shards": 8}, "mem_gb": 6},
        # coverage-guided campaign (native go fuzzing), thorough tier only: same differential oracle as TestVerif_C18_Differential
        {"pkg": "pkg/protoio", "run": "^$", "fuzz": "FuzzVerif_C18", T: {"fuzztime": 240, "workers": 8}, "mem_gb": 24},
    ],
    "crash_patterns": [
        {"re": r"fatal error: (runtime: )?(out of memory|cannot allocate memory)|runtime: out of memory|panic: runtime error: makeslice: len out of range",
         "also": [r"protoio\.\(\*(varintReader|uint32Reader)\)\.ReadMsg"], "identity": "process-crash/alloc-beyond-limit"},
    ],
    "mandatory_labels": {"all": ["roundtrip/over-limit-frame-not-first", "roundtrip/multi-frame-chunked", "roundtrip/marshalTo-path", "roundtrip/destination-reused-for-a-shorter-frame", "roundtrip/failed-write-between-frames", "full/message-of-exactly-the-limit", "hostile/bad-frame-not-first",
                                 "hostile/hostile-length", "hostile/truncated", "hostile/overlong-varint", "chunking/exhaustive", "arbitrary"]},
}

CHECKS["C17"] = {
    "level": "exploration",
    "level_text": ("generated topics/seeds/instants/intervals against an independently written keyed-digest and period reference, and generated "
                   "two-peer register/advance/resolve/accept histories executed under testing/synctest's fake clock with a per-step oracle"),
    "level_note": "trusts crypto/hmac, crypto/sha256, time and testing/synctest's fake clock; real-time sleeps are replaced by the fake clock",
    "technique": "property-based testing (rapid): reference-model comparison for pure functions, model-based histories under a fake clock",
    "rule": ("pure: case = (interval, instant, topic, seed); non-trivial = instant on or 1ns next to a period boundary. history: case = operation "
             "sequence over two peers; non-trivial = a resolve observes its topic across a deadline (rotation). distinct = distinct inputs / op trace"),
    "assumptions": ["instants are at or after the Unix epoch, intervals are whole seconds >= 1 s",
                    "point inequality is asserted only where the keyed input (topic|seed) differs as a byte string"],
    "crash_patterns": [
        {"re": r"^fatal error: concurrent map (writes|read and map write|iteration and map write)", "also": [r"rendezvous\.\(\*RotationInterval\)"], "identity": "process-crash/concurrent-map-access"},
    ],
    "units": [
        {"pkg": "pkg/rendezvous", "run": "^TestVerif_C17_", Q: {"timeout": 300}, T: {"timeout": 3000, "shards": 8}},
        {"pkg": ".", "run": "^TestVerif_C17_", Q: {"timeout": 600}, T: {"timeout": 3000, "shards": 8}},
    ],
    "mandatory_labels": {"all": ["open-group", "pure/period-boundary", "pure/key-longer-than-block", "hist/observed-across-deadline", "hist/registered-in-earlier-period", "hist/cross-accept",
                                 "hist/own-previous-in-grace", "hist/foreign", "static", "marshaler/across-deadline", "marshaler/exchange", "marshaler/own-previous-in-grace", "concurrent-resolvers"]},
}

_SS = "pkg/secretstore"

CHECKS["C01"] = {
    "level": "exploration",
    "level_text": ("generated group sessions (3 group types, payload 0..64 KiB) with an enumerated mutation catalogue per envelope (bit flips, field "
                   "substitutions, re-sealed headers, other group, insider forgeries with the right message key); oracle: honest opens are exact, "
                   "every mutant is rejected on every presentation, genuine messages still open afterwards"),
    "level_note": "trusts NaCl secretbox/box, Ed25519 and HKDF; forgeries are built with an independent re-implementation of the envelope framing",
    "technique": "property-based testing (rapid) with mutation catalogue: round-trip + 'forgery => rejected' + differential framing oracle",
    "rule": ("case = one group session (kind, window, 1-5 messages) with all its mutants; non-trivial = >=1 honest open of a non-empty payload and >=1 "
             "mutant that decrypts and is stopped only by the signature/attribution check; distinct = (kind, window, payload bucket, mutant classes, n, flips)"),
    "assumptions": ["the CID passed with an envelope is the content hash of that envelope (as MessageStore guarantees)"],
    "units": [
        {"pkg": _SS, "run": "^TestVerif_C01_", Q: {"timeout": 600}, T: {"timeout": 3400, "shards": 12}},
        {"pkg": ".", "run": "^TestVerif_C01_", "shrinktime": "10s", Q: {"timeout": 900}, T: {"timeout": 3400, "shards": 8}},
    ],
    "mandatory_labels": {"all": ["kind/account", "kind/contact", "kind/multimember", "payload>=4KiB", "payload-empty", "mutants-decrypting-to-signature-check", "concurrent-seal/overlapping", "write-fault/fired", "read-fault/fired", "stores"]},
}

CHECKS["C02"] = {
    "level": "exploration",
    "level_text": ("exhaustive enumeration of all attempt/registration sequences with repetitions for small windows (tree with datastore snapshots) "
                   "plus rapid-generated long histories for the default window and several senders, each step compared with a reference ratchet model"),
    "level_note": "trusts the in-memory datastore; the exhaustive tier is complete only for the stated alphabet/depth bounds",
    "technique": "model-based property testing (reference ratchet model) with bounded-exhaustive history enumeration + rapid histories",
    "rule": ("exhaustive: case = one leaf history over the alphabet {register announcement@c, older/same announcement, attempt m1..mn}; random: case = one "
             "generated history; non-trivial = history with an out-of-order success, an attempt exactly at the window edge (k = bound or bound+1) and a duplicate; "
             "distinct = (window, history)"),
    "assumptions": ["the CID of an envelope identifies it (content hash)", "newer announcements of an already registered device are outside the statement and not generated"],
    "units": [
        {"pkg": _SS, "run": "^TestVerif_C02_", Q: {"timeout": 600}, T: {"timeout": 3400, "shards": 16}},
        {"pkg": _SS, "run": "^TestVerifCtl_C02_", "inst": ["pkg/secretstore/secret_store_messages.go"], Q: {"timeout": 600}, T: {"timeout": 3400, "shards": 8}},
        {"pkg": ".", "run": "^TestVerif_C02_", "inst": ["store_message.go", "internal/queue/simple.go", "internal/queue/priority.go"], Q: {"timeout": 900}, T: {"timeout": 3400, "shards": 8}},
    ],
    "mandatory_labels": {"all": ["write-fault/requeued-behind-the-next-message", "tree/edge-attempt", "tree/duplicate", "tree/out-of-order-success", "random/edge-attempt", "random/duplicate",
                                 "random/out-of-order-success", "random/re-registration", "random/two-senders", "random/push-before-store", "random/same-sender-device-on-two-groups", "concurrent/dfs-schedules", "concurrent/contended-lock", "pipeline/arrival-beyond-key-window", "pipeline/undecryptable-below-decryptable"]},
}

CHECKS["C09"] = {
    "level": "exploration",
    "level_text": ("real parallelism (16 cores) with seeded delays injected into every datastore access of the sender's secret store, plus controlled "
                   "schedules (DFS + rapid choice vectors) over an instrumented copy of secret_store_messages.go with a scheduling point at every datastore "
                   "access; oracle on the returned envelopes: distinct gap-free counters, all open at a receiver, stored counter monotone"),
    "level_note": "the parallel tier is not reproducible (its replay file is the printed scenario); the controlled tier is a pure function of the choice vector",
    "technique": "generated-schedule exploration + randomized concurrency stress with a returned-value oracle",
    "rule": ("parallel: case = (group kinds, N senders, M messages, delay seed); non-trivial = >=2 SealEnvelope calls in flight at once (measured). controlled: "
             "case = schedule; non-trivial = some task had to wait for the message mutex. distinct = distinct scenario+seed / (scenario, trace)"),
    "assumptions": ["datastore operations are individually atomic"],
    "units": [
        {"pkg": _SS, "run": "^TestVerif_C09_(Parallel|TransientReadFailure|DevicesDoNotShareKeyStreams)", Q: {"timeout": 600}, T: {"timeout": 3400, "shards": 4}},
        {"pkg": _SS, "run": "^TestVerif_C09_Controlled", "inst": ["pkg/secretstore/secret_store_messages.go"], Q: {"timeout": 600}, T: {"timeout": 3400, "shards": 8}},
    ],
    "mandatory_labels": {"all": ["parallel/overlapping-sends", "parallel/several-groups", "controlled/dfs-schedules", "controlled/contended-lock", "parallel/read-back", "controlled/read-back", "controlled/first-use", "read-fault/fired-while-sharing-the-key", "read-fault/caller-gave-up-during-a-send", "two-devices-same-counters"]},
}

CHECKS["C10"] = {
    "level": "fault_enumeration",
    "level_text": ("scripted and rapid-generated send/receive/register/push workloads executed once on a journaling datastore; every journal index "
                   "(every put, delete, atomic batch commit, incl. key generation) is taken as a crash point, the store is restarted on the state at that "
                   "point and post-restart invariants are checked against the pre-crash record; exhaustive per workload"),
    "level_note": "single datastore writes are atomic, batches are atomic as on badger (a non-batching datastore is run as a second configuration); torn writes are not modelled",
    "technique": "fault injection by exhaustive crash-point enumeration over generated workloads, invariant oracle after restart",
    "rule": ("case = (workload, crash index); non-trivial = crash point strictly inside a multi-write API call; distinct = (group kind, window, batching, workload, index)"),
    "assumptions": ["the peer store is never crashed", "a message opened before the crash must re-open; an interrupted call may or may not have taken effect"],
    "units": [
        {"pkg": _SS, "run": "^TestVerif_C10_", Q: {"timeout": 600}, T: {"timeout": 3400, "shards": 16}},
    ],
    "mandatory_labels": {"all": ["crash-inside/open", "crash-inside/register", "crash-inside/seal", "crash-inside/init", "crash-inside/push", "non-batching-datastore"]},
}

CHECKS["C11"] = {
    "level": "exploration",
    "level_text": ("generated accounts, groups and orders of first use across two stores per account (derive before/after import, cached vs recomputed) with "
                   "cross-store equality / inequality oracles, plus a generated matrix (prior use of the destination store x key blob kind) for the import guards"),
    "level_note": "trusts Ed25519/X25519 and the keystore-on-datastore; compares stores with each other, never a store with itself only",
    "technique": "property-based testing (rapid): differential between independent stores, guard matrix",
    "rule": ("derivations: case = (2-4 accounts, order of first uses); every case compares two stores per account (non-trivial by construction). "
             "import: case = (prior use, blob kind). distinct = distinct (accounts, uses) / (pre, blob)"),
    "assumptions": ["swapped (account<->proof) blobs are two distinct Ed25519 keys and are accepted as another account; the statement lists only already-has-account, non-Ed25519 and equal keys as refusals"],
    "units": [
        {"pkg": _SS, "run": "^TestVerif_C11_", Q: {"timeout": 600}, T: {"timeout": 3400, "shards": 12}},
        {"pkg": _SS, "run": "^TestVerifCtl_C11_", "inst": ["pkg/secretstore/device_keystore_wrapper.go"], Q: {"timeout": 600}, T: {"timeout": 3400, "shards": 8}},
    ],
    "mandatory_labels": {"all": ["derive/first-use-before-import", "derive/stray-public-keys", "import/refused", "import/accepted", "import/pre=proof-key", "import/pre=member-device", "import/blob=equal", "import/blob=rsa-account", "concurrent/dfs-schedules", "read-fault/fired"]},
}

CHECKS["C14"] = {
    "level": "exploration",
    "level_text": ("rapid-generated sessions mixing log opens and push opens of the same messages in every order (1-2 groups, 1-2 senders, small and default "
                   "windows, counters at and beyond both window edges) against the reference ratchet model extended with the reference window, plus an "
                   "exhaustive single-bit-flip sweep of a push payload"),
    "level_note": "nothing is asserted exactly on the reference-window edge counters L+-R; above the registered counter only the sufficient condition of C02 is used for the log path",
    "technique": "model-based property testing (rapid) with a round-trip/negative oracle",
    "rule": ("case = one session history; non-trivial = some message opened through both paths in both orders (log then push, push then log) and an attempt within one "
             "counter of a reference-window edge; distinct = (windows, history)"),
    "assumptions": ["push payloads carry the message CID, as OutOfStoreSeal produces them", "the reference table is advanced after every log open as the message store does"],
    "units": [
        {"pkg": _SS, "run": "^TestVerif_C14_", Q: {"timeout": 600}, T: {"timeout": 3400, "shards": 12}},
        {"pkg": ".", "run": "^TestVerif_C14_", Q: {"timeout": 900}, T: {"timeout": 3400, "shards": 8}},
        {"pkg": _SS, "run": "^TestVerifCtl_C14_", "inst": ["pkg/secretstore/secret_store_messages.go"], Q: {"timeout": 600}, T: {"timeout": 3400, "shards": 8}},
        {"pkg": "pkg/outofstoremessage", "run": "^TestVerif_C14_", Q: {"timeout": 900}, T: {"timeout": 3400, "shards": 8}},
    ],
    "mandatory_labels": {"all": ["log-then-push", "push-then-log", "push-twice", "near-reference-edge", "tampered", "two-senders", "two-groups", "default-windows", "bitflip-sweep", "insider-forged-push", "stores/push-before-log", "stores/push-after-log", "concurrent/dfs-schedules", "concurrent/interleaved-log-and-push", "same-sender-device-on-several-groups", "service", "service/push-far-from-the-one-the-service-saw-last"]},
}

CHECKS["C05"] = {
    "level": "exploration",
    "level_text": ("crypto half: rapid-generated (sender device, recipient member, group type, announcement counter incl. varint boundaries) triples with a full negative "
                   "catalogue (other member, other group with identical keys, other claimed sender, every single-bit flip, truncation/extension) and exactness/effect "
                   "oracles. distribution half: generated activation orders and delivery plans between real replicas, completeness oracle at quiescence"),
    "level_note": "trusts NaCl box and the Ed25519->X25519 conversion; 'members are active' is modelled as 'group context activated and not closed'",
    "technique": "property-based testing (rapid): round-trip + negative catalogue + by-effect oracle; generated delivery plans for the distribution half",
    "rule": ("crypto: case = one triple with all its negatives; every case compares recipient vs non-recipients (non-trivial by construction); distinct = (kind, window, counter, j, n). "
             "distribution: case = one group (2-3 members x 1-2 devices, or contact / account group) with a generated activation order and sync plan; non-trivial = some device activates "
             "before it has seen any other member, or a second device of a member joins after secrets to that member were sent; distinct = (kind, plan)"),
    "assumptions": ["the sender's stored counter may be any value below 2^41 (set directly to reach varint boundaries cheaply)"],
    "units": [
        {"pkg": _SS, "run": "^TestVerif_C05_", Q: {"timeout": 600}, T: {"timeout": 3400, "shards": 12}},
        {"pkg": _SS, "run": "^TestVerifCtl_C05_", "inst": ["pkg/secretstore/secret_store_messages.go"], Q: {"timeout": 600}, T: {"timeout": 3400, "shards": 8}},
        {"pkg": ".", "run": "^TestVerif_C05_", "shrinktime": "10s", Q: {"timeout": 900}, T: {"timeout": 3400, "shards": 12}},
    ],
    "mandatory_labels": {"all": ["crypto/kind=account", "crypto/kind=contact", "crypto/kind=multimember", "crypto/counter>=128", "crypto/messages-before-announcement",
                                 "distribution/multimember", "distribution/activated-before-seeing-anyone", "distribution/second-device-after-secrets",
                                 "concurrent/dfs-schedules", "concurrent/first-use-of-the-chain-key", "distribution/entries-received-before-activation", "write-fault/fired", "read-fault/fired", "distribution/reactivation"]},
}

CHECKS["C04"] = {
    "level": "exploration",
    "level_text": ("rapid-generated histories of account-group metadata operations by one or two devices on real OrbitDB stores, delivered to a read-only replica "
                   "under every split into batches (short histories) or generated plans, with reopen at generated points and repeated re-indexing; oracles: "
                   "replica-vs-writer differential per prefix, restart stability, idempotent re-index, and a reference fold in log order for single-writer histories"),
    "level_note": "replicas share one mock IPFS node and entries move only through the harness (Sync of a chosen head); concurrent histories are checked for convergence only",
    "technique": "model-based / differential property testing (rapid) over generated operation histories and delivery plans",
    "rule": ("case = (operation history, delivery plan); non-trivial = the plan contains a batch of >=2 entries or the history has two writers; "
             "distinct = (history, plan)"),
    "assumptions": ["the state dump covers members, devices, admins, contacts (state, seed, metadata), by-status partition, contact-request switch and seed, joined groups, alias keys, credentials"],
    "units": [
        {"pkg": ".", "run": "^TestVerif_C04_", Q: {"timeout": 900}, T: {"timeout": 3400, "shards": 16}},
        {"pkg": ".", "run": "^TestVerifCtl_C04_", "inst": ["store_metadata_index.go"], Q: {"timeout": 600}, T: {"timeout": 3000, "shards": 4}},
    ],
    "mandatory_labels": {"all": ["batch>=2", "reopen-at-end", "one-batch-replica", "two-writers", "consecutive-same-subject",
                                 "multimember-group", "contact-group", "g/several-writers", "g/batch-vs-single", "g/reindex", "g/created-by-writer-0", "subject-chains",
                                 "index/overlapping-passes-over-a-changing-log"]},
}

CHECKS["C07"] = {
    "level": "exploration",
    "level_text": ("every sequence of the seven contact operations up to a bounded length on one contact (and interleaved on two) plus rapid-generated long sequences "
                   "with malformed inputs, executed on a real account metadata store and compared after every operation with a reference lifecycle (DESIGN.md appendix A); "
                   "the same comparison on the reopened store and on replicas fed in one batch / entry by entry"),
    "level_note": "cells of the table that no document fixes (marked with a dagger in appendix A) are asserted as the guards express them",
    "technique": "model-based property testing: bounded-exhaustive operation sequences + rapid state machine against a reference transition table",
    "rule": ("case = one operation sequence; non-trivial = sequence with >=1 refusal and an implicit path (enqueue on received/removed/discarded, incoming on to-request) "
             "or a seed/metadata backfill; distinct = distinct sequence"),
    "assumptions": ["contact state is independent per contact, so exhaustive sequences share a store with fresh contact keys"],
    "units": [
        {"pkg": ".", "run": "^TestVerif_C07_", Q: {"timeout": 900}, T: {"timeout": 3400, "shards": 16}},
    ],
    "mandatory_labels": {"all": ["seq/refusal", "seq/implicit-path", "seq/backfill", "seq/malformed-input", "seq/reopen-mid-sequence", "service", "service/re-enqueue-while-to-request"]},
}

CHECKS["C13"] = {
    "level": "exploration",
    "level_text": ("rapid-generated logs of 0..12 metadata and message entries written locally and replicated in one batch / entry by entry / mixed, then the complete "
                   "(since, until, reverse) cube over the entries plus unknown identifiers, against the write order recorded by the harness; two-writer logs are checked "
                   "with a validity predicate (linear extension of the causal order) and a replica differential"),
    "level_note": "the parameter cube is enumerated exhaustively per log; the RPC layer adds only parameter-consistency checks on top of the store listing and is exercised in C19",
    "technique": "property-based testing (rapid) with exhaustive parameter enumeration per generated log; reference = harness-recorded write order",
    "rule": ("case = one listing query on one log; non-trivial = both bounds set on a log of >=3 entries; distinct = (log size, delivery mode, store, query)"),
    "assumptions": ["message listings are compared on devices that hold the sender's chain key"],
    "units": [
        {"pkg": ".", "run": "^TestVerif_C13_", Q: {"timeout": 900}, T: {"timeout": 3400, "shards": 16}},
    ],
    "mandatory_labels": {"all": ["listing/both-bounds-n>=3", "logs/replica-batch>=2", "two-writers/concurrent-pair", "rpc-listing/both-bounds-n>=3"]},
}

CHECKS["C03"] = {
    "level": "exploration",
    "level_text": ("the complete (event type x forgery) matrix enumerated for generated key sets and payloads against openGroupEnvelope, with forgeries presented before and after "
                   "the genuine event was seen, plus forged entries appended to a real metadata store followed by an honest sentinel (no delivery to subscribers, state unchanged)"),
    "level_note": "envelopes are built by an independent re-implementation of the framing; cryptographic strength of Ed25519/secretbox is trusted",
    "technique": "property-based testing (rapid) over an enumerated mutation catalogue: 'forgery => rejected' and 'honest => accepted and decoded equal'",
    "rule": ("case = one (event type, forgery) pair for one key set, or one forged log entry; non-trivial = the forgery decrypts and parses, so only the signature check can stop it; "
             "distinct = (type, forgery label)"),
    "assumptions": ["every event type of the protocol enum has a decoder (checked)"],
    "units": [
        {"pkg": ".", "run": "^TestVerif_C03_", Q: {"timeout": 900}, T: {"timeout": 3400, "shards": 12}},
    ],
    "mandatory_labels": {"all": ["forgery/stopped-by-signature-check-only", "forgery/replayed-signature", "store/account", "store/multimember", "store/forgery-appended", "store/forgery-concurrent-branch", "store/forgery-covered-by-a-genuine-entry", "unknown-type-sweep",
                                 "types/EventTypeGroupMemberDeviceAdded", "types/EventTypeMultiMemberGroupInitialMemberAnnounced", "types/EventTypeAccountVerifiedCredentialRegistered"]},
}

CHECKS["C12"] = {
    "level": "exploration",
    "level_text": ("generated invitations with the full mutation catalogue (every single-bit flip of identifier, secret and signature, field removal/truncation/extension/substitution, "
                   "group-type substitution, other group kinds) against the account store's join, the keys a joined group is entered with, and replication descriptors of "
                   "generated groups of all types tried against every metadata event type and message envelopes plus address/link-key equality"),
    "level_note": "trusts Ed25519 and secretbox; the descriptor 'cannot read' half tries envelopes produced by the harness' own sealing code and by the real secret store",
    "technique": "property-based testing (rapid) with an enumerated mutation catalogue and differential (descriptor vs full group) oracles",
    "rule": ("case = one invitation mutant / one joined group / one descriptor; non-trivial = mutant that still has a 32-byte key and a 64-byte signature (only the signature or type check rejects it), "
             "every identity and descriptor case; distinct = (mutation label, key) / group key"),
    "assumptions": ["bit flips of the serialized invitation that leave identifier, secret, signature and type untouched are not alterations in the sense of the statement"],
    "units": [
        {"pkg": ".", "run": "^TestVerif_C12_", Q: {"timeout": 900}, T: {"timeout": 3400, "shards": 12}},
    ],
    "mandatory_labels": {"all": ["mutant/rejected-by-signature-or-type-only", "honest-join", "identity", "descriptor/GroupTypeAccount", "descriptor/GroupTypeContact", "descriptor/GroupTypeMultiMember", "descriptor/joined-without-link-key-sig", "service-join", "join-leave-altered-rejoin"]},
}

CHECKS["C06"] = {
    "level": "exploration",
    "level_text": ("generated account keys x an attack catalogue enumerated completely per key set (impersonation with honest and degenerate ephemeral keys, cross-session replay of material "
                   "harvested as a legitimate party, reflection, re-ordering, foreign key types) plus generated tampering (bit flip, truncation, drop, duplication) of every frame of an "
                   "honest session; honest parties run the real handshake code over in-memory pipes with the manager's framing; oracle: who holds which private key in this session"),
    "level_note": "the adversary seat is scripted with primitives written from the protocol description (nacl box, sha256), never with the code under test; cryptographic strength is trusted",
    "technique": "property-based testing / attack-catalogue enumeration with a possession oracle",
    "rule": ("case = one session (honest, attack, or tampered); non-trivial = attack in which the adversary gets past the box-opening step of the honest party, so that only the proof of possession "
             "stands between it and success, or a tampered frame; distinct = attack label / (frame, mode, position)"),
    "assumptions": ["pipe deadlines (10 s) only end sessions whose peer script stopped; a deadline is an error return, i.e. a rejection, never a violation",
                    "foreign key types with a valid proof are recorded, not asserted (the statement only forbids reporting unproven keys)"],
    "units": [
        {"pkg": "internal/handshake", "run": "^TestVerif_C06_", Q: {"timeout": 900}, T: {"timeout": 3400, "shards": 12}},
        {"pkg": ".", "run": "^TestVerif_C06_", Q: {"timeout": 900}, T: {"timeout": 3400, "shards": 8}},
    ],
    "mandatory_labels": {"all": ["honest", "wrong-target", "attack/only-proof-stands", "tamper/bit-flip", "tamper/truncate", "foreign-key", "manager/honest", "manager/claims-victim-in-contact", "honest/overlapping-sessions"]},
}

CHECKS["C19"] = {
    "level": "exploration",
    "level_text": ("rapid-generated call sequences against an in-memory service: every method of the protocol service interface (taken by reflection) with requests built through "
                   "protoreflect from value pools (nil/empty/short/oversized/random bytes, real keys, identifiers and groups of the session, mutated groups, out-of-range enums), "
                   "interleaved with group creation/join/activation/deactivation incl. the account group; every call under recover, process death = violation; plus generated "
                   "bytes into the exported decode helpers"),
    "level_note": "methods that need an external network service are called only with inputs their own validation rejects; hangs are recorded, not judged; data races are out of scope",
    "technique": "property-based testing / API fuzzing (rapid state machine with reflection-built requests), oracle: no panic, service stays live",
    "rule": ("case = one call sequence (10-40 calls) or one helper input; non-trivial = sequence with >=3 calls that pass validation and >=1 call issued while the account group is deactivated, "
             "or a non-empty helper input; distinct = distinct sequence / input"),
    "assumptions": ["requests are never nil pointers (gRPC always delivers a message); sub-messages may be nil"],
    "units": [
        {"pkg": ".", "run": "^TestVerif_C19_", Q: {"timeout": 900}, T: {"timeout": 3400, "shards": 12}},
        {"pkg": "pkg/cryptoutil", "run": "^TestVerif_C19_", Q: {"timeout": 600}, T: {"timeout": 3400, "shards": 4}},
    ],
    "crash_patterns": [
        {"re": r"^(panic: .*|fatal error: .*)$", "also": [r"berty\.tech/weshnet/v2"], "identity": "process-crash",
         "site_re": r"^(berty\.tech/weshnet/v2[^\s(]*)\("},
    ],
    "mandatory_labels": {"all": ["sequences/call-after-account-group-deactivation", "calls/succeeded", "helpers", "decoders",
                                 "method/ContactBlock", "method/DecodeContact", "method/GroupMetadataList", "method/ServiceExportData", "listing-rpc/both-bounds-real", "argumentless-sequences", "repeated-calls"]},
}

CHECKS["C20"] = {
    "level": "exploration",
    "level_text": ("rapid-generated account histories (contacts, 0-2 multi-member groups, metadata and messages in several groups) exported through the streaming RPC, the archive checked "
                   "against the exporting node's logs (keys, every entry byte-for-byte under its content identifier, heads), restored into a fresh in-memory node without network and "
                   "compared (identity, entry sets, raw bytes, heads, derived state); plus generated archive mutations with a rejection / safe-disjunction oracle"),
    "level_note": "a restore that waits for a block nobody can provide runs under a deadline and counts as a rejection; restored groups are opened without activation so that the new device writes nothing before the comparison",
    "technique": "property-based testing (rapid): round-trip oracle over generated histories, mutation catalogue for archives",
    "rule": ("case = one export/restore round trip or one mutated archive; non-trivial = export with >=2 groups and a log of >=3 entries / mutant that keeps the tar well-formed; "
             "distinct = (history) / (mutant kind, history)"),
    "assumptions": ["the exporting node's background writers have quiesced (log lengths stable) before the export is taken"],
    "units": [
        {"pkg": ".", "run": "^TestVerif_C20_", "shrinktime": "5s", Q: {"timeout": 1200}, T: {"timeout": 3400, "shards": 12}},
    ],
    "crash_patterns": [
        {"re": r"^(panic: .*|fatal error: .*)$", "also": [r"berty\.tech/weshnet/v2\.\(\*WeshOrbitDB\)|berty\.tech/weshnet/v2\.RestoreAccountExport|berty\.tech/weshnet/v2\.restore"], "identity": "restore-crashes-the-process",
         "site_re": r"^berty\.tech/weshnet/v2\.(?:\(\*WeshOrbitDB\)\.)?([A-Za-z]+)"},
    ],
    "mandatory_labels": {"all": ["round-trip", "round-trip/several-groups", "round-trip/contact-group", "transport/split-reads", "mutant/rejected", "mutant/entry-byte-flip", "mutant/key-duplicated", "mutant/existing-account"]},
}

CHECKS["C08"] = {
    "level": "exploration",
    "level_text": ("the real message pipeline (queues, device caches, process loop, secret store, event bus) under harness-owned schedules: preemption-bounded DFS on small scenarios and "
                   "rapid-generated scenarios/choice vectors (1-2 senders, entries in any order and in batches, duplicates, registration before/between/after arrivals, cancellation); "
                   "terminal-state oracle: every decryptable message delivered between once and once per arrival with original payload and sender, nothing decryptable parked"),
    "level_note": "scheduling points in store_message.go, internal/queue/simple.go, internal/queue/priority.go (incl. between the cache lookup and the park); the OrbitDB fan-out loop is replaced by the harness; event-bus internals are not interleaved",
    "technique": "generated-schedule exploration (controlled scheduler over instrumented copies of the real sources), terminal-state invariants",
    "rule": ("case = one schedule of one scenario; non-trivial = a registration's queue processing ran between the consumer's cache lookup and its park, or the scenario parks an undecryptable "
             "message below decryptable ones; distinct = (scenario, trace)"),
    "assumptions": ["quiescence = the consumer is durably blocked in WaitForItem with an empty queue and all drivers finished (decided by the scheduler, not by time)"],
    "units": [
        {"pkg": ".", "run": "^TestVerif_C08_", "inst": ["store_message.go", "internal/queue/simple.go", "internal/queue/priority.go"], Q: {"timeout": 900}, T: {"timeout": 3400, "shards": 12}},
    ],
    "mandatory_labels": {"all": ["pipeline/dfs-schedules", "pipeline/registration-between-lookup-and-park", "pipeline/undecryptable-below-decryptable", "pipeline/with-cancel", "pipeline/arrival-beyond-key-window", "group-context"],
                         "thorough": ["pipeline/dfs-schedules", "pipeline/registration-between-lookup-and-park", "pipeline/undecryptable-below-decryptable", "pipeline/with-cancel", "pipeline/arrival-beyond-key-window", "group-context",
                                      "group-context/receiver-is-a-sibling-device", "group-context/announcement-during-activation"]},
}

# ---- layers and dimensions added after the first version (see DESIGN.md section 9 and appendix C.3)
_ADDED = {
    "C01": "Every payload handed out (store path and push path) must still be the original at the end of the session; a second unit seals from several goroutines of one device at once (real parallelism, seeded delays) and requires every envelope to open to its payload.",
    "C02": "The random histories also deliver messages push-first.",
    "C03": "The forged entry must also be absent from the history replay (ListEvents, both directions).",
    "C04": "Half of the multi-member sessions start the way group creation does (announce the device, claim the group).",
    "C05": "Concurrent half: controlled schedules (DFS + rapid) of overlapping first announcements on an instrumented secret store, by-effect oracle.",
    "C06": "Added attacks: live relay of a request addressed to the adversary, replay of recorded interrupted sessions. Second layer: the contact request manager's stream handler on a real account store (only the proven key is ever recorded, a refusal leaves no entry).",
    "C08": "The receiver's key window is a scenario parameter (1-3 or default); 'decryptable' is the least fixed point of the C02 rule over the arrived entries.",
    "C09": "Optionally the sender reads back its own envelopes, and the datastore refuses chain-key writes now and then (a send reporting the error produced no envelope).",
    "C10": "After restart the in-order completion updates the push reference window after each open; the push payloads inside the final window must open.",
    "C11": "Blob kinds include the alternative Ed25519 serialisation; controlled schedules of overlapping first uses on an instrumented keystore wrapper (answers handed out = answers kept, contact and restored device agree).",
    "C12": "Descriptors also of groups held as joined from an accepted invitation variant; service layer: refused alterations followed by the genuine join, activation and inspection (GroupInfo, the group's own log).",
    "C13": "The same cube through the GroupMetadataList / GroupMessageList RPCs of a real service (collecting server stream).",
    "C14": "Store layer: push payloads made by the writer's message store and opened by a member receiving the same entries through its real message store; controlled schedules of a push open racing a log delivery of the same sender; cleartexts handed out are compared again at the end.",
    "C15": "Bounded-exhaustive add orders for the priority queue; controlled schedules with producers adding during a NextAll flush.",
    "C17": "Also: the head-exchange marshaler between two instances, and the rotations registered by WeshOrbitDB.OpenGroup (current point and the three following ones) against an independent keyed digest.",
    "C18": "A differential oracle against a reference frame parser runs under rapid in both tiers and as the body of a native go fuzzing campaign in the thorough tier.",
    "C20": "Histories include accepted contacts with opened contact groups, possibly blocked / unblocked; the protocol service is started on the restored node and must activate and report every exported group.",
}
for _k, _v in _ADDED.items():
    CHECKS[_k]["level_text"] += ". " + _v
_ADDED4 = {"C08": "Group-context layer: two real replicas; the sender's announcement and messages reach the member before / after its activation in generated orders (live handler and catch-up over the log); every message must be delivered on the event bus and nothing stays parked once the state is stable."}
CHECKS["C08"]["level_text"] += ". " + _ADDED4["C08"]
_ADDED3 = {"C07": "Service layer: generated sequences in which enqueue / discard / accept / block / unblock go through the protocol service's RPCs, compared with the same reference lifecycle."}
CHECKS["C07"]["level_text"] += ". " + _ADDED3["C07"]
_ADDED2 = {"C02": "Concurrent half: controlled schedules (DFS + rapid) of overlapping opens (with duplicates) and registration / re-delivery on an instrumented secret store; afterwards everything sealed after the registered counter opens in order."}
CHECKS["C02"]["level_text"] += ". " + _ADDED2["C02"]
CHECKS["C02"]["level_text"] += " Pipeline layer: the message store (which does the retrying) with receiver windows 1-3, entries beyond the window / sealed before the registered counter / duplicated arriving in generated orders, least-fixed-point oracle of the window rule."
CHECKS["C02"]["technique"] += "; generated-schedule exploration for overlapping arrivals"
CHECKS["C05"]["technique"] += "; generated-schedule exploration for overlapping announcements"
CHECKS["C11"]["technique"] += "; generated-schedule exploration for overlapping first uses"
CHECKS["C14"]["technique"] += "; generated-schedule exploration for push/log races"
CHECKS["C18"]["technique"] = ("property-based testing (rapid): round-trip + negative-input + differential (reference frame parser) oracles, exhaustive chunking "
                              "enumeration; coverage-guided native go fuzzing of the differential oracle in the thorough tier")

_ADDED5 = {
    "C01": "Further mutant classes: (e) a genuine message relayed as a push under the content identifier of a forged entry, then the forged entry through the store; (f) forgeries attributed to the opening device itself at its next counters.",
    "C02": "The random histories also use ONE sender device known on the account group and a one-to-one group (receiver = sibling device).",
    "C03": "Forgeries in which the signer / member field occurs twice in the encoding; state compared while the forged entry is the newest entry of the log.",
    "C04": "Bounded-exhaustive tier over every sequence of the operations about one subject (join/leave, enable/disable/reset, contact operations in the thorough tier).",
    "C05": "Half of the activations are followed at once by a sync to another, possibly inactive, replica (entries received before joining).",
    "C06": "Also: Ed25519 account keys of small order on either side, hostile length prefixes in place of every frame (a panic of an honest party is a violation), honest session over a segmenting transport.",
    "C07": "",
    "C09": "Controlled first-use scenario (one task records the group, shares the key and sends while others announce it for the first time); own messages relayed back outside the store.",
    "C11": "Injected single read failures of keystore entries (identity unchanged afterwards); a group whose identifier is a contact's account key derived on a device that knows the contact and on a fresh one.",
    "C12": "The invitation test continues after the genuine join: leave, altered invitations again, genuine re-join; identity test with an invitation named after a known contact.",
    "C14": "A quarter of the sessions use ONE sender device known on 2-3 groups (account group and one-to-one groups, receiver = sibling device).",
    "C17": "The same rotation instance is asked again for the same topic and period with another seed.",
    "C19": "Exhaustive short sequences of the argument-less requests on fresh services; every method called three times in a row with the same request.",
    "C20": "Histories with a log that has two heads at export time; mutant with a duplicated heads file; after a rejected archive the untouched export must still restore into the same node; a death of the process during a restore is a violation (crash pattern).",
}
for _k, _v in _ADDED5.items():
    if _v:
        CHECKS[_k]["level_text"] += " " + _v
_ADDED6 = {
    "C01": "Single transient datastore write or read failures during opens (an honest message refused for good because of one is a violation). Message-store layer: a device sends a run of messages through its own message store (reading each back before the next), a member with a key window of 2-5 receives them in order and must be handed all of them with the sender's counters. Mutant class (g): a push forged by a fellow member that cites the content identifier of an entry already received through the store.",
    "C02": "Every third message of a sender has no content at all. `TestVerif_C02_TransientWriteFailure`: one failing write while a message is opened; the next message is opened first, then the failed one again (it is still inside the window).",
    "C03": "Forged entries also arrive by replication from a branch concurrent with the victim's history (a replica that merged nothing, Lamport time 1), alone or covered by a genuine entry of the forger in the same batch. `TestVerif_C03_UnknownTypeNumbers`: every undefined event type number from -8 to 2200 (and some large ones) under a payload and signature genuine for each defined type.",
    "C04": "Controlled schedules (DFS + rapid) of overlapping index passes of the writer's task and the replication task over a log that grows meanwhile (instrumented index; the final state must be the state of the entries held). Scripted two-writer histories (two devices writing different values about one subject, one going on without having seen the other) run before the generated ones.",
    "C05": "Single transient datastore write or read failures while an announcement is registered, also a re-delivered one (an announced key must be usable). Distribution half: one device may deactivate the group after its activation and activate it again at the end (others join meanwhile). `TestVerif_C05_OutageAtFirstAnnouncement`: a device cannot read its chain-key record while a member's first device is announced; after the recovery the member's second device is announced and both must end up with the key.",
    "C06": "Recorded responder frames replayed to a requester that asks for the same account again. Signatures ground against small-order keys. Two or three honest sessions between three accounts alive at once in one process, their frames delivered one at a time in generated interleavings (crossing requests included): all must complete.",
    "C07": "Contacts whose key is not a point of the curve.",
    "C08": "Group-context layer with an undecodable entry inside a delivered batch; the receiving device may be a second device of the sender's own account (multi-member group or account group); in a quarter of the cases the sender's announcement arrives while the receiver's activation is held in its catch-up.",
    "C09": "A further receiving device with a key window of 3 reads the envelopes in the order they were handed out (retrying after every success): every one of them must open in the end. `TestVerif_C09_TransientReadFailure`: between two bursts of sends a call touching the own chain-key record (share the key, record the group, send) meets failing reads, or the caller of one send gives up (context cancelled) while the send is under way. `TestVerif_C09_DevicesDoNotShareKeyStreams`: two devices of a group seal the same payloads under the same counters; the sealed bytes must differ.",
    "C10": "After restart the subject store must also open its own envelopes handed out before the stop (read-back path).",
    "C11": "Derivations are also asked for public keys nobody can hold (byte strings that are not curve points, points of small order): refused, or unrelated across accounts and keys.",
    "C12": "Descriptors are derived from every accepted way of holding a multi-member group in each case, including invitations that spell out the optional sign_pub / link_key fields.",
    "C13": "The whole (since, until, reverse) cube also over merged logs of two writers with concurrent entries, on two replicas. RPC layer: in three quarters of the cases another member's concurrent branch reaches the node first, so that both logs have two heads while they are listed.",
    "C14": "Service layer: the stand-alone push service created on the account's root datastore (its default secret store next to the application's), pushes of one sender opened through the service, through the application's store or arriving through the log with generated distances between counters (reply fields and AlreadyReceived flag checked).",
    "C15": "Priority counters over the whole uint64 range (the counter comes from the sender's header); bursts of 20-300 parked items followed by partial drains in both sequential machines; the metrics callback of the simple queue is a schedule point in the controlled schedules. `TestVerif_C15_MessageItems` (root package): the message store's own per-device queue over its item type, counters 0 .. 2^64-1.",
    "C16": "The controlled scheduler models sync.RWMutex writer preference (readers arriving after a waiting writer wait behind it); the peer cache scenarios add readers (GetPeersForTopics / GetPeers) next to updater and waiters. Tracker scenarios with two waiters of one group: the list handed to a waiter must read the same after other tasks ran; two updaters changing two peers that share two groups.",
    "C17": "Marshaler histories also present a peer with a heads message it marshalled itself in the period before its last rotation (accepted during the grace period). `TestVerif_C17_ConcurrentResolvers`: 4-16 tasks resolve 100-600 topics of one rotation instance right after a period boundary (a fatal data race on its maps is a crash pattern).",
    "C18": "Round trips also read every frame of a type into the same destination object (the usual receive loop), with frames of length zero after longer ones. `TestVerif_C18_FullPair`: the full writer / reader pair over a packet transport, messages up to exactly the limit. Round trips interleave writes of messages that cannot be encoded (they fail and must leave nothing on the stream).",
    "C19": "Odd groups (validly signed invitations with secrets of unusual length) joined and then used by the other requests.",
    "C20": "An older backup refused into an existing account followed by the current export. The genuine archive reaches the restore through readers that split it arbitrarily (half reads, 4096-byte pieces, single bytes). Three quarters of the histories hold one message that makes a log entry of 300 KiB or of more than 1 MiB. Mutant without both key files.",
}
for _k, _v in _ADDED6.items():
    CHECKS[_k]["level_text"] += " " + _v
CHECKS["C04"]["technique"] = "model-based / differential property testing (rapid) over generated operation histories and delivery plans; controlled-schedule exploration (preemption-bounded DFS + rapid) of overlapping index passes"
