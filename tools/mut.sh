#!/bin/bash
# usage: tools/mut.sh <ID> <file-relative-to-repo> <python-replace-old> <python-replace-new>
# applies a textual mutation to /repo, runs the quick check, restores the file.
ID=$1; F=$2; OLD=$3; NEW=$4
cd /repo || exit 3
cp "$F" /tmp/.mut_backup_$$ || exit 3
python3 - "$F" "$OLD" "$NEW" <<'PY' || { echo "MUTATION DID NOT APPLY"; exit 3; }
import sys
f,old,new=sys.argv[1:4]
s=open(f).read()
if old not in s: sys.exit(1)
open(f,'w').write(s.replace(old,new,1))
PY
cd /verif && VERIF_SCRATCH=/tmp/wt/mut-scratch ./check $ID quick 2>&1 | grep -E "VIOLATION|KNOWN|OK |INCONCLUSIVE|identity" | head -8; echo "rc=${PIPESTATUS[0]}"
cp /tmp/.mut_backup_$$ "/repo/$F"; rm -f /tmp/.mut_backup_$$
rm -rf /tmp/wt/mut-scratch/replays /tmp/wt/mut-scratch/evidence
