#!/usr/bin/env python3
"""Writes /verif/MANIFEST.json from checks_conf.py (single source of truth)."""
import json, os, sys
V = os.path.dirname(os.path.dirname(os.path.abspath(__file__)))
sys.path.insert(0, V)
from checks_conf import CHECKS, NOT_APPLICABLE, ENGINES
props = [json.loads(l)["id"] for l in open(os.path.join(V, "properties.jsonl"))]
checks = []
for pid in props:
    if pid not in CHECKS:
        continue
    c = CHECKS[pid]
    checks.append({
        "property_id": pid,
        "quick_cmd": "./check %s quick" % pid,
        "thorough_cmd": "./check %s thorough" % pid,
        "evidence_file": "/verif/evidence/%s.json" % pid,
        "replay_cmd_template": "./check %s --replay {path}" % pid,
        "engine": c.get("engine", "rapid+harness"),
        "level_claimed": {"category": c["level"], "text": c["level_text"], "design_ref": "DESIGN.md section 5, " + pid},
        "level_note": c["level_note"],
        "technique": c["technique"],
    })
na = [{"property_id": p, "reason": NOT_APPLICABLE.get(p, "no check built yet in this session (work in progress)")} for p in props if p not in CHECKS]
m = {
    "version": 1,
    "setup_cmd": "./check setup",
    "hooks": {
        "guard": "verif",
        "enable": "go test -tags verif -overlay /verif/build/<ID>/u<k>/overlay.json -modfile /verif/build/<ID>/mod/go.mod (harness files and scheduling-point copies enter through the build overlay; nothing is committed in /repo)",
        "baseline_off_cmd": "cd /repo && go test -json -vet=off -count=1 -timeout 25m ./...",
        "source_commits": [],
        "add_only": True,
    },
    "engines": ENGINES,
    "checks": checks,
    "not_applicable": na,
    "notes": "All checks are property-based tests / generated-schedule searches compiled into the packages of /repo's current working tree through a go build overlay; see DESIGN.md.",
}
json.dump(m, open(os.path.join(V, "MANIFEST.json"), "w"), indent=1)
print("wrote MANIFEST.json: %d checks, %d not_applicable" % (len(checks), len(na)))
