#!/bin/bash
# usage: tools/seedimport.sh <ID> <suffix> <pkgdir-of-demo>   (imports /tmp/wt/<ID><suffix>/_seeded into seeded/<ID>-<suffix>, verifies, removes the agent's worktree)
ID=$1; SUF=$2; PKG=$3
SRC=/tmp/wt/$ID$SUF/_seeded
DST=/verif/seeded/$ID-$SUF
[ -f $SRC/patch.diff ] || { echo "no patch in $SRC"; exit 3; }
mkdir -p $DST && cp $SRC/patch.diff $SRC/meta.json $SRC/zz_demo*_test.go $DST/ 2>/dev/null
/verif/tools/seedverify.sh $ID-$SUF $ID $PKG
git -C /repo worktree remove --force /tmp/wt/$ID$SUF 2>/dev/null
