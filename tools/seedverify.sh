#!/bin/bash
# usage: tools/seedverify.sh <seed-name> <ID> <pkgdir-of-demo> [demo-file]
# Confirms a seeded change independently in a scratch worktree (never in /repo): the demo passes without the
# patch and fails with it, the build and the existing tests of the touched packages pass with it; then runs
# /verif's quick check against the patched worktree (VERIF_REPO/VERIF_SCRATCH). Writes seeded/<name>/verified.json
set -u
NAME=$1; ID=$2; PKG=$3; DEMO=${4:-}
SD=/verif/seeded/$NAME
WT=/tmp/wt/verify-$NAME
SC=/tmp/wt/scratch-$NAME
. /verif/env.sh
export GOSUMDB=off
git -C /repo worktree add -q --detach $WT HEAD || exit 3
[ -z "$DEMO" ] && DEMO=$(ls $SD | grep -E '^zz_demo.*_test.go$' | head -1)
cp $SD/$DEMO $WT/$PKG/$DEMO
cd $WT
RUNPAT=$(grep -ohE 'func (Test[A-Za-z0-9_]*)' $PKG/$DEMO | awk '{print $2}' | paste -sd'|')
go test -vet=off -count=1 -timeout 20m -run "^($RUNPAT)\$" ./$PKG > /tmp/sv_$NAME.without.log 2>&1; W0=$?
git apply $SD/patch.diff || echo "patch does not apply"
go build ./... > /tmp/sv_$NAME.build.log 2>&1; B=$?
go test -vet=off -count=1 -timeout 20m -run "^($RUNPAT)\$" ./$PKG > /tmp/sv_$NAME.with.log 2>&1; W1=$?
mv $PKG/$DEMO /tmp/sv_$NAME.demo.go
TOUCHED=$(grep -E '^\+\+\+ b/' $SD/patch.diff | sed 's#^+++ b/##' | xargs -n1 dirname | sort -u | sed 's#^#./#')
go test -vet=off -count=1 -timeout 25m $TOUCHED > /tmp/sv_$NAME.existing.log 2>&1; E=$?
git checkout -q go.mod go.sum 2>/dev/null
cd /
OUT=$(VERIF_REPO=$WT VERIF_SCRATCH=$SC /verif/check $ID quick 2>&1); C=$?
IDENT=$(echo "$OUT" | grep -E "violation identity" | sed 's/^ *violation identity: //' | paste -sd';')
git -C /repo worktree remove --force $WT
rm -rf $SC
python3 - "$NAME" "$ID" "$W0" "$W1" "$B" "$E" "$C" "$IDENT" "$TOUCHED" <<'PY'
import json,sys
name,pid,w0,w1,b,e,c,ident,touched=sys.argv[1:10]
d={"seed":name,"property":pid,"demo_without_patch_exit":int(w0),"demo_with_patch_exit":int(w1),"build_with_patch_exit":int(b),
   "existing_tests_of_touched_packages_with_patch_exit":int(e),"touched_packages":touched.split(),
   "check_quick_exit_with_patch":int(c),"check_violation_identities":ident.split(';') if ident else [],
   "confirmed": int(w0)==0 and int(w1)!=0 and int(b)==0 and int(e)==0, "detected_by_quick_check": int(c)==1}
json.dump(d,open(f"/verif/seeded/{name}/verified.json","w"),indent=1)
print(json.dumps(d))
PY
