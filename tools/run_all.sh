#!/bin/bash
# usage: tools/run_all.sh [quick|thorough] [ids...]   runs the checks of THIS copy of /verif on /repo as it is, validates every evidence file
TIER=${1:-quick}; shift
HERE=$(cd "$(dirname "$0")/.." && pwd)
cd "$HERE"
IDS=${@:-$(./check list)}
for id in $IDS; do
  s=$(date +%s)
  out=$(./check $id $TIER 2>&1); rc=$?
  echo "$id rc=$rc $(( $(date +%s) - s ))s $(echo "$out" | grep -E '^OK|VIOLATION|KNOWN-FINDING|INCONCLUSIVE' | head -3 | tr '\n' ' ')"
done
HERE="$HERE" python3-vt - <<'PY'
import json,jsonschema,glob,os
here=os.environ["HERE"]
sch=json.load(open('/root/.vp/EVIDENCE.schema.json'))
for f in sorted(glob.glob(here+'/evidence/*.json')):
    try:
        jsonschema.validate(json.load(open(f)), sch)
    except Exception as e:
        print("INVALID", f, str(e)[:200])
print("evidence validated")
jsonschema.validate(json.load(open(here+'/MANIFEST.json')), json.load(open('/root/.vp/MANIFEST.schema.json')))
print("manifest valid")
PY
