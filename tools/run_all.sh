#!/bin/bash
# usage: tools/run_all.sh [quick|thorough] [ids...]   runs the checks on /repo as it is, validates every evidence file
TIER=${1:-quick}; shift
IDS=${@:-$(cd /verif && ./check list)}
cd /verif
for id in $IDS; do
  s=$(date +%s)
  out=$(./check $id $TIER 2>&1); rc=$?
  echo "$id rc=$rc $(( $(date +%s) - s ))s $(echo "$out" | grep -E '^OK|VIOLATION|KNOWN-FINDING|INCONCLUSIVE' | head -3 | tr '\n' ' ')"
done
python3-vt - <<'PY'
import json,jsonschema,glob
sch=json.load(open('/root/.vp/EVIDENCE.schema.json'))
for f in sorted(glob.glob('/verif/evidence/*.json')):
    try:
        jsonschema.validate(json.load(open(f)), sch)
    except Exception as e:
        print("INVALID", f, str(e)[:200])
print("evidence validated")
jsonschema.validate(json.load(open('/verif/MANIFEST.json')), json.load(open('/root/.vp/MANIFEST.schema.json')))
print("manifest valid")
PY
