module schedinject

go 1.23
