// schedinject rewrites one Go source file so that every lock, unlock, channel
// operation, select and go statement passes through internal/vsched (DESIGN.md
// section 4.1). The rewrite is syntactic: no statement is removed or reordered.
//
//	schedinject -in /repo/internal/queue/simple.go -out build/inst/simple.go [-spec spec.json]
//
// spec (optional): {"lockers": ["n.L", "sg.notify.L"], "after_call": ["getOrCreateDeviceCache"], "before_call": ["queue.Add"]}
// Selector expressions ending in ".L" are treated as sync.Locker values by default.
package main

import (
	"bytes"
	"encoding/json"
	"flag"
	"fmt"
	"go/ast"
	"go/format"
	"go/parser"
	"go/printer"
	"go/token"
	"os"
	"path/filepath"
	"strconv"
	"strings"
)

type Spec struct {
	Lockers    []string `json:"lockers"`
	AfterCall  []string `json:"after_call"`
	BeforeCall []string `json:"before_call"`
	ImportPath string   `json:"vsched_import"`
}

var (
	fset  = token.NewFileSet()
	spec  Spec
	base  string
	count = map[string]int{}
)

func exprString(e ast.Expr) string {
	var b bytes.Buffer
	_ = printer.Fprint(&b, fset, e)
	return b.String()
}

func label(pos token.Pos, kind string) *ast.BasicLit {
	p := fset.Position(pos)
	count[kind]++
	return &ast.BasicLit{Kind: token.STRING, Value: strconv.Quote(fmt.Sprintf("%s:%d:%s", base, p.Line, kind))}
}

func vcall(fn string, args ...ast.Expr) *ast.CallExpr {
	return &ast.CallExpr{Fun: &ast.SelectorExpr{X: ast.NewIdent("vsched"), Sel: ast.NewIdent(fn)}, Args: args}
}

func yieldStmt(pos token.Pos, kind string) ast.Stmt {
	return &ast.ExprStmt{X: vcall("Yield", label(pos, kind))}
}

func isLocker(x ast.Expr) bool {
	s := exprString(x)
	for _, l := range spec.Lockers {
		if l == s {
			return true
		}
	}
	if se, ok := x.(*ast.SelectorExpr); ok && se.Sel.Name == "L" {
		return true
	}
	return false
}

func addr(x ast.Expr) ast.Expr { return &ast.UnaryExpr{Op: token.AND, X: x} }

func sel(x ast.Expr, name string) ast.Expr {
	return &ast.SelectorExpr{X: x, Sel: ast.NewIdent(name)}
}

// rewriteLockCall rewrites X.Lock()/Unlock()/RLock()/RUnlock() calls.
func rewriteLockCall(c *ast.CallExpr) *ast.CallExpr {
	se, ok := c.Fun.(*ast.SelectorExpr)
	if !ok || len(c.Args) != 0 {
		return nil
	}
	x := se.X
	switch se.Sel.Name {
	case "Lock":
		if isLocker(x) {
			return vcall("LockLocker", addr(x), x, label(c.Pos(), "lock"))
		}
		return vcall("Lock", addr(x), sel(x, "Lock"), sel(x, "TryLock"), label(c.Pos(), "lock"))
	case "RLock":
		return vcall("RLock", addr(x), sel(x, "RLock"), sel(x, "TryRLock"), label(c.Pos(), "rlock"))
	case "Unlock":
		if isLocker(x) {
			return vcall("UnlockLocker", addr(x), x, label(c.Pos(), "unlock"))
		}
		return vcall("Unlock", addr(x), sel(x, "Unlock"), label(c.Pos(), "unlock"))
	case "RUnlock":
		return vcall("RUnlock", addr(x), sel(x, "RUnlock"), label(c.Pos(), "runlock"))
	}
	return nil
}

// shallow inspection: does the statement itself (not nested blocks / func
// literals) contain a channel receive, or calls named in the spec?
type found struct {
	recv, closeCall  bool
	after, before    bool
}

func inspectShallow(n ast.Node, f *found) {
	ast.Inspect(n, func(m ast.Node) bool {
		switch v := m.(type) {
		case *ast.FuncLit, *ast.BlockStmt:
			return false
		case *ast.UnaryExpr:
			if v.Op == token.ARROW {
				f.recv = true
			}
		case *ast.CallExpr:
			name := exprString(v.Fun)
			if id, ok := v.Fun.(*ast.Ident); ok && id.Name == "close" && len(v.Args) == 1 {
				f.closeCall = true
			}
			for _, a := range spec.AfterCall {
				if name == a || strings.HasSuffix(name, "."+a) {
					f.after = true
				}
			}
			for _, a := range spec.BeforeCall {
				if name == a || strings.HasSuffix(name, "."+a) {
					f.before = true
				}
			}
		}
		return true
	})
}

func processList(list []ast.Stmt) []ast.Stmt {
	var out []ast.Stmt
	for _, st := range list {
		pre, post := processStmt(st)
		out = append(out, pre...)
		out = append(out, st)
		out = append(out, post...)
	}
	return out
}

func processBlock(b *ast.BlockStmt) {
	if b != nil {
		b.List = processList(b.List)
	}
}

// rewrite func literals and lock calls nested in expressions of a statement
func rewriteExprs(n ast.Node) {
	ast.Inspect(n, func(m ast.Node) bool {
		switch v := m.(type) {
		case *ast.FuncLit:
			processBlock(v.Body)
			return false
		case *ast.BlockStmt:
			return false
		}
		return true
	})
}

func processStmt(st ast.Stmt) (pre, post []ast.Stmt) {
	switch v := st.(type) {
	case *ast.ExprStmt:
		if c, ok := v.X.(*ast.CallExpr); ok {
			if nc := rewriteLockCall(c); nc != nil {
				v.X = nc
				return
			}
		}
	case *ast.DeferStmt:
		if nc := rewriteLockCall(v.Call); nc != nil {
			v.Call = nc
			return
		}
		rewriteExprs(v.Call)
		return
	case *ast.GoStmt:
		call := v.Call
		rewriteExprs(call)
		var fn ast.Expr
		if fl, ok := call.Fun.(*ast.FuncLit); ok && len(call.Args) == 0 {
			fn = fl
		} else {
			fn = &ast.FuncLit{Type: &ast.FuncType{Params: &ast.FieldList{}}, Body: &ast.BlockStmt{List: []ast.Stmt{&ast.ExprStmt{X: call}}}}
		}
		// replace the go statement by an expression statement: done by the caller through *st mutation
		// (ast.GoStmt cannot become ExprStmt in place, so wrap: go vsched.GoWrap(...) is not equivalent) -
		// we keep a GoStmt-free form by returning a replacement via the marker below.
		replacement[st] = &ast.ExprStmt{X: vcall("Go", fn, label(v.Pos(), "go"))}
		return
	case *ast.SendStmt:
		pre = append(pre, yieldStmt(v.Pos(), "send"))
		rewriteExprs(v)
		return
	case *ast.SelectStmt:
		hasDefault := false
		for _, cc := range v.Body.List {
			c := cc.(*ast.CommClause)
			if c.Comm == nil {
				hasDefault = true
			}
		}
		kind := "select"
		if hasDefault {
			kind = "select-nb"
		}
		pre = append(pre, yieldStmt(v.Pos(), kind))
		for _, cc := range v.Body.List {
			c := cc.(*ast.CommClause)
			c.Body = processList(c.Body)
			if c.Comm != nil && !hasDefault {
				c.Body = append([]ast.Stmt{yieldStmt(c.Pos(), "woken")}, c.Body...)
			}
		}
		return
	case *ast.BlockStmt:
		processBlock(v)
		return
	case *ast.IfStmt:
		var f found
		if v.Init != nil {
			inspectShallow(v.Init, &f)
			rewriteExprs(v.Init)
		}
		inspectShallow(v.Cond, &f)
		rewriteExprs(v.Cond)
		if f.recv {
			pre = append(pre, yieldStmt(v.Pos(), "recv"))
			v.Body.List = append([]ast.Stmt{yieldStmt(v.Pos(), "woken")}, v.Body.List...)
		}
		if f.before {
			pre = append(pre, yieldStmt(v.Pos(), "before-call"))
		}
		processBlock(v.Body)
		if v.Else != nil {
			switch e := v.Else.(type) {
			case *ast.BlockStmt:
				processBlock(e)
			case *ast.IfStmt:
				p2, _ := processStmt(e)
				_ = p2
			}
		}
		if f.after {
			v.Body.List = append([]ast.Stmt{yieldStmt(v.Pos(), "after-call")}, v.Body.List...)
			post = append(post, yieldStmt(v.End(), "after-call"))
		}
		return
	case *ast.ForStmt:
		processBlock(v.Body)
		return
	case *ast.RangeStmt:
		rewriteExprs(v.X)
		processBlock(v.Body)
		return
	case *ast.SwitchStmt:
		for _, cc := range v.Body.List {
			c := cc.(*ast.CaseClause)
			c.Body = processList(c.Body)
		}
		return
	case *ast.TypeSwitchStmt:
		for _, cc := range v.Body.List {
			c := cc.(*ast.CaseClause)
			c.Body = processList(c.Body)
		}
		return
	case *ast.LabeledStmt:
		p, q := processStmt(v.Stmt)
		if r, ok := replacement[v.Stmt]; ok {
			v.Stmt = r
			delete(replacement, v.Stmt)
		}
		return p, q
	}
	// generic statement (assign, expr, return, decl...)
	var f found
	inspectShallow(st, &f)
	rewriteExprs(st)
	if f.recv {
		pre = append(pre, yieldStmt(st.Pos(), "recv"))
		post = append(post, yieldStmt(st.End(), "woken"))
	}
	if f.closeCall {
		pre = append(pre, yieldStmt(st.Pos(), "close"))
	}
	if f.before {
		pre = append(pre, yieldStmt(st.Pos(), "before-call"))
	}
	if f.after {
		if _, isRet := st.(*ast.ReturnStmt); !isRet {
			post = append(post, yieldStmt(st.End(), "after-call"))
		}
	}
	return
}

var replacement = map[ast.Stmt]ast.Stmt{}

func applyReplacements(n ast.Node) {
	ast.Inspect(n, func(m ast.Node) bool {
		fix := func(list []ast.Stmt) {
			for i, s := range list {
				if r, ok := replacement[s]; ok {
					list[i] = r
				}
			}
		}
		switch v := m.(type) {
		case *ast.BlockStmt:
			fix(v.List)
		case *ast.CaseClause:
			fix(v.Body)
		case *ast.CommClause:
			fix(v.Body)
		}
		return true
	})
}

func main() {
	in := flag.String("in", "", "input file")
	out := flag.String("out", "", "output file")
	sp := flag.String("spec", "", "spec json")
	flag.Parse()
	if *in == "" || *out == "" {
		fmt.Fprintln(os.Stderr, "usage: schedinject -in file.go -out file.go [-spec spec.json]")
		os.Exit(2)
	}
	spec.ImportPath = "berty.tech/weshnet/v2/internal/vsched"
	if *sp != "" {
		b, err := os.ReadFile(*sp)
		if err != nil {
			fmt.Fprintln(os.Stderr, err)
			os.Exit(2)
		}
		if err := json.Unmarshal(b, &spec); err != nil {
			fmt.Fprintln(os.Stderr, err)
			os.Exit(2)
		}
	}
	base = filepath.Base(*in)
	f, err := parser.ParseFile(fset, *in, nil, parser.ParseComments)
	if err != nil {
		fmt.Fprintln(os.Stderr, err)
		os.Exit(2)
	}
	// comments would be misplaced by inserted statements: drop free-floating
	// comments but keep build constraints (none in the instrumented files)
	f.Comments = nil
	for _, d := range f.Decls {
		if fd, ok := d.(*ast.FuncDecl); ok && fd.Body != nil {
			fd.Doc = nil
			processBlock(fd.Body)
		}
	}
	applyReplacements(f)
	// add the import
	imp := &ast.ImportSpec{Path: &ast.BasicLit{Kind: token.STRING, Value: strconv.Quote(spec.ImportPath)}}
	gd := &ast.GenDecl{Tok: token.IMPORT, Specs: []ast.Spec{imp}}
	f.Decls = append([]ast.Decl{gd}, f.Decls...)
	var buf bytes.Buffer
	if err := printer.Fprint(&buf, fset, f); err != nil {
		fmt.Fprintln(os.Stderr, err)
		os.Exit(2)
	}
	src, err := format.Source(buf.Bytes())
	if err != nil {
		fmt.Fprintln(os.Stderr, "format:", err)
		_ = os.WriteFile(*out+".bad", buf.Bytes(), 0o644)
		os.Exit(2)
	}
	hdr := "// Code generated by /verif/tools/schedinject from " + *in + "; DO NOT EDIT.\n\n"
	// keep "var _ = vsched.Yield" so the import is used even if nothing was rewritten
	src = append(src, []byte("\nvar _ = vsched.Yield\n")...)
	if err := os.WriteFile(*out, append([]byte(hdr), src...), 0o644); err != nil {
		fmt.Fprintln(os.Stderr, err)
		os.Exit(2)
	}
	var ks []string
	for k, v := range count {
		ks = append(ks, fmt.Sprintf("%s=%d", k, v))
	}
	fmt.Fprintf(os.Stderr, "schedinject %s: %s\n", base, strings.Join(ks, " "))
}
