#!/bin/bash
# usage: tools/seedcheck.sh <seed-name> <ID> [tier]   - runs one check against a seeded change in a scratch worktree; updates verified.json
NAME=$1; ID=$2; TIER=${3:-quick}
WT=/tmp/wt/sc-$NAME; SC=/tmp/wt/scs-$NAME
git -C /repo worktree add -q --detach $WT HEAD || exit 3
git -C $WT apply /verif/seeded/$NAME/patch.diff || { echo "patch does not apply"; git -C /repo worktree remove --force $WT; exit 3; }
OUT=$(cd / && VERIF_REPO=$WT VERIF_SCRATCH=$SC /verif/check $ID $TIER 2>&1); C=$?
echo "$OUT" | grep -E "VIOLATION|violation identity|OK |INCONCLUSIVE" | head -8
echo "rc=$C"
IDENT=$(echo "$OUT" | grep -E "violation identity" | sed 's/^ *violation identity: //' | paste -sd';')
git -C /repo worktree remove --force $WT; rm -rf $SC
python3 - "$NAME" "$C" "$IDENT" "$TIER" <<'PY'
import json,sys
name,c,ident,tier=sys.argv[1:5]
p=f"/verif/seeded/{name}/verified.json"
try: d=json.load(open(p))
except Exception: d={"seed":name}
if tier=="quick":
    d["check_quick_exit_with_patch"]=int(c); d["check_violation_identities"]=ident.split(';') if ident else []; d["detected_by_quick_check"]=int(c)==1
else:
    d["check_thorough_exit_with_patch"]=int(c); d["thorough_violation_identities"]=ident.split(';') if ident else []
json.dump(d,open(p,"w"),indent=1)
PY
