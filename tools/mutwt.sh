#!/bin/bash
# usage: tools/mutwt.sh <ID> <file-relative-to-repo> <python-replace-old> <python-replace-new> [tier]
# applies a textual mutation in a scratch worktree of /repo (never in /repo itself) and runs the check against it
ID=$1; F=$2; OLD=$3; NEW=$4; TIER=${5:-quick}
WT=/tmp/wt/mut-$$; SC=/tmp/wt/mutsc-$$
git -C /repo worktree add -q --detach $WT HEAD || exit 3
python3 - "$WT/$F" "$OLD" "$NEW" <<'PY' || { echo "MUTATION DID NOT APPLY"; git -C /repo worktree remove --force $WT; exit 3; }
import sys
f,old,new=sys.argv[1:4]
s=open(f).read()
if old not in s: sys.exit(1)
open(f,'w').write(s.replace(old,new,1))
PY
(cd / && VERIF_REPO=$WT VERIF_SCRATCH=$SC /verif/check $ID $TIER 2>&1 | grep -E "VIOLATION|KNOWN|OK |INCONCLUSIVE|identity" | head -8; echo "rc=${PIPESTATUS[0]}")
git -C /repo worktree remove --force $WT; rm -rf $SC
