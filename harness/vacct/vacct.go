// Package vacct is the accountant shared by all verif harness tests.
//
// It is not part of berty/weshnet: the build overlay of /verif maps it to
// internal/vacct at check time (DESIGN.md 2.2, 3.6).  It records, per property,
// how many cases were generated, which of them were non-trivial (distinct by a
// class key), label histograms, samples of actual cases, and violations with a
// stable identity.  TestMain of every harness package calls Flush, which writes
// one JSON file to $VERIF_STATS; the driver merges the files of all processes.
package vacct

import (
	"encoding/json"
	"fmt"
	"hash/fnv"
	"os"
	"sort"
	"strconv"
	"sync"
	"time"
)

type Violation struct {
	Identity string `json:"identity"`
	Detail   any    `json:"detail"`
	Test     string `json:"test,omitempty"`
	Count    int    `json:"count"`
}

type Acct struct {
	mu         sync.Mutex
	ID         string
	cases      int64
	nontrivial int64
	distinct   map[uint64]struct{}
	labels     map[string]int64
	samples    []any
	ntSamples  []any
	violations map[string]*Violation
	known      map[string]int64
	excluded   map[string]int64
	exhaustive *bool
	notes      map[string]any
	start      time.Time
}

var (
	regMu sync.Mutex
	reg   = map[string]*Acct{}
)

// Get returns the accountant of a property id (C01..C20).
func Get(id string) *Acct {
	regMu.Lock()
	defer regMu.Unlock()
	a := reg[id]
	if a == nil {
		a = &Acct{
			ID: id, distinct: map[uint64]struct{}{}, labels: map[string]int64{},
			violations: map[string]*Violation{}, known: map[string]int64{},
			excluded: map[string]int64{}, notes: map[string]any{}, start: time.Now(),
		}
		reg[id] = a
	}
	return a
}

func h64(s string) uint64 {
	h := fnv.New64a()
	_, _ = h.Write([]byte(s))
	return h.Sum64()
}

// Case records one generated case. key identifies the case among the
// non-trivial ones (distinct_nontrivial is the number of distinct keys of
// non-trivial cases). sample is evaluated only when the case is kept as a sample.
func (a *Acct) Case(nontrivial bool, key string, sample func() any, labels ...string) {
	a.mu.Lock()
	defer a.mu.Unlock()
	a.cases++
	for _, l := range labels {
		a.labels[l]++
	}
	if nontrivial {
		a.nontrivial++
		k := h64(key)
		if _, ok := a.distinct[k]; !ok {
			a.distinct[k] = struct{}{}
			if sample != nil && (len(a.ntSamples) < 4 || (len(a.distinct)%5000 == 0 && len(a.ntSamples) < 10)) {
				a.ntSamples = append(a.ntSamples, sample())
			}
		}
	} else if sample != nil && len(a.samples) < 2 {
		a.samples = append(a.samples, sample())
	}
}

// Label bumps a histogram bucket without counting a case.
func (a *Acct) Label(l string) { a.LabelN(l, 1) }

func (a *Acct) LabelN(l string, n int64) {
	a.mu.Lock()
	a.labels[l] += n
	a.mu.Unlock()
}

// Violation records a violation under a stable identity (root cause key). The
// last detail recorded for an identity wins, so under rapid the shrunk case is
// what ends up in the replay file.
func (a *Acct) Violation(identity string, test string, detail any) {
	a.mu.Lock()
	v := a.violations[identity]
	first := v == nil
	if v == nil {
		v = &Violation{Identity: identity}
		a.violations[identity] = v
	}
	v.Count++
	v.Detail = detail
	v.Test = test
	a.mu.Unlock()
	if first {
		// persist at once: the process may die before TestMain flushes
		Flush()
	}
}

// Excluded counts generator draws that were steered away from a listed known
// finding (so that the search continues behind it).
func (a *Acct) Excluded(identity string) {
	a.mu.Lock()
	a.excluded[identity]++
	a.mu.Unlock()
}

func (a *Acct) SetExhaustive(v bool) {
	a.mu.Lock()
	if a.exhaustive == nil || !v {
		a.exhaustive = &v
	}
	a.mu.Unlock()
}

func (a *Acct) Note(k string, v any) {
	a.mu.Lock()
	a.notes[k] = v
	a.mu.Unlock()
}

type dump struct {
	ID         string           `json:"id"`
	Cases      int64            `json:"cases"`
	Nontrivial int64            `json:"nontrivial"`
	Distinct   []string         `json:"distinct"`
	Labels     map[string]int64 `json:"labels"`
	Samples    []any            `json:"samples"`
	Violations []*Violation     `json:"violations"`
	Excluded   map[string]int64 `json:"excluded"`
	Exhaustive *bool            `json:"exhaustive,omitempty"`
	Notes      map[string]any   `json:"notes"`
	WallS      float64          `json:"wall_s"`
}

// Flush writes all accountants to $VERIF_STATS (a JSON list). Safe to call
// several times; the last call wins.
func Flush() {
	path := os.Getenv("VERIF_STATS")
	if path == "" {
		return
	}
	regMu.Lock()
	defer regMu.Unlock()
	var out []dump
	ids := make([]string, 0, len(reg))
	for id := range reg {
		ids = append(ids, id)
	}
	sort.Strings(ids)
	for _, id := range ids {
		a := reg[id]
		a.mu.Lock()
		d := dump{
			ID: id, Cases: a.cases, Nontrivial: a.nontrivial, Labels: a.labels,
			Excluded: a.excluded, Exhaustive: a.exhaustive, Notes: a.notes,
			WallS: time.Since(a.start).Seconds(),
		}
		for k := range a.distinct {
			d.Distinct = append(d.Distinct, strconv.FormatUint(k, 36))
		}
		d.Samples = append(append([]any{}, a.ntSamples...), a.samples...)
		for _, v := range a.violations {
			d.Violations = append(d.Violations, v)
		}
		sort.Slice(d.Violations, func(i, j int) bool { return d.Violations[i].Identity < d.Violations[j].Identity })
		out = append(out, d)
		a.mu.Unlock()
	}
	b, err := json.Marshal(out)
	if err != nil {
		fmt.Fprintln(os.Stderr, "vacct: marshal:", err)
		b, _ = json.Marshal([]dump{})
	}
	tmp := path + ".tmp"
	if err := os.WriteFile(tmp, b, 0o644); err == nil {
		_ = os.Rename(tmp, path)
	}
}

// Tier is "quick" or "thorough".
func Tier() string {
	if os.Getenv("VERIF_TIER") == "thorough" {
		return "thorough"
	}
	return "quick"
}

func Thorough() bool { return Tier() == "thorough" }

// Seed is the VERIF_SEED the driver passed (default 1).
func Seed() int64 {
	if v, err := strconv.ParseInt(os.Getenv("VERIF_SEED"), 10, 64); err == nil {
		return v
	}
	return 1
}

// Shard returns (index, count) of this process among the parallel shards.
func Shard() (int, int) {
	i, _ := strconv.Atoi(os.Getenv("VERIF_SHARD"))
	n, _ := strconv.Atoi(os.Getenv("VERIF_SHARDS"))
	if n <= 0 {
		n = 1
	}
	return i, n
}

// N picks the case count for the tier (the thorough count is per run, split
// over the shards).
func N(quick, thorough int) int {
	if !Thorough() {
		return quick
	}
	_, n := Shard()
	c := thorough / n
	if c < 1 {
		c = 1
	}
	return c
}

// ReplayPath is the JSON replay file to re-execute (enumerative checks), or "".
func ReplayPath() string { return os.Getenv("VERIF_REPLAY") }
