package vacct

import (
	"flag"
	"strconv"
	"testing"

	"pgregory.net/rapid"
)

// RapidCheck runs prop with the given number of checks. The seed comes from the
// -rapid.seed flag set by the driver (a pure function of VERIF_SEED and the
// shard); one RapidCheck per top-level test so that -rapid.failfile replays it.
func RapidCheck(t *testing.T, checks int, prop func(*rapid.T)) {
	t.Helper()
	if checks < 1 {
		checks = 1
	}
	_ = flag.Set("rapid.checks", strconv.Itoa(checks))
	rapid.Check(t, prop)
}

// Main is the TestMain body shared by the harness packages.
func Main(m *testing.M) int {
	code := m.Run()
	Flush()
	return code
}
