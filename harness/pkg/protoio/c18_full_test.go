//go:build verif

package protoio

import (
	"fmt"
	"io"
	"testing"

	"google.golang.org/protobuf/proto"
	"pgregory.net/rapid"

	"berty.tech/weshnet/v2/internal/vacct"
	"berty.tech/weshnet/v2/pkg/protocoltypes"
)

// C18 for the "full" writer / reader pair (one message per write, one write per read: a packet transport). Every
// message whose encoding fits the reader's limit - the limit itself included - is read back identically, in sequence;
// nothing panics on longer ones.

type c18Packets struct{ q [][]byte }

func (p *c18Packets) Write(b []byte) (int, error) {
	p.q = append(p.q, append([]byte(nil), b...))
	return len(b), nil
}

func (p *c18Packets) Read(b []byte) (int, error) {
	if len(p.q) == 0 {
		return 0, io.EOF
	}
	pkt := p.q[0]
	p.q = p.q[1:]
	return copy(b, pkt), nil // a datagram: what does not fit is lost
}

func TestVerif_C18_FullPair(t *testing.T) {
	acct := vacct.Get("C18")
	vacct.RapidCheck(t, vacct.N(1500, 600000), func(rt *rapid.T) {
		limit := rapid.SampledFrom([]int{1, 3, 8, 64, 129, 300, 2048}).Draw(rt, "limit")
		n := rapid.IntRange(1, 8).Draw(rt, "n")
		useMT := rapid.Bool().Draw(rt, "marshalTo")
		tr := &c18Packets{}
		w := NewFullWriter(tr)
		var msgs []proto.Message
		var sizes []int
		atLimit := false
		for i := 0; i < n; i++ {
			m := c18Message(rt, limit)
			if rapid.IntRange(0, 3).Draw(rt, "exact") == 0 {
				m = c18MessageOfSize(limit) // exactly the limit
			}
			msgs, sizes = append(msgs, m), append(sizes, proto.Size(m))
			var err error
			if useMT {
				err = w.WriteMsg(mtMsg{m})
			} else {
				err = w.WriteMsg(m)
			}
			if err != nil {
				acct.Violation("full/write-error", "TestVerif_C18_FullPair", map[string]any{"sizes": sizes, "err": err.Error()})
				rt.Fatalf("WriteMsg failed: %v", err)
			}
		}
		fail := func(id, f string, a ...any) {
			msg := fmt.Sprintf(f, a...)
			acct.Violation("full/"+id, "TestVerif_C18_FullPair", map[string]any{"limit": limit, "sizes": sizes, "marshalTo": useMT, "msg": msg})
			rt.Fatalf("C18 full/%s: %s (limit %d sizes %v)", id, msg, limit, sizes)
		}
		r := NewFullReader(tr, limit)
		for i, m := range msgs {
			out := c18New(m)
			var err error
			func() {
				defer func() {
					if p := recover(); p != nil {
						fail("panic", "ReadMsg panicked on message %d (%d bytes): %v", i, sizes[i], p)
					}
				}()
				err = r.ReadMsg(out)
			}()
			if sizes[i] > limit {
				continue // cut by the transport: nothing is said about it here
			}
			if sizes[i] == limit {
				atLimit = true
			}
			if err != nil {
				fail("read-error", "message %d of %d bytes (limit %d) was not read back: %v", i, sizes[i], limit, err)
			}
			if !proto.Equal(out, m) {
				fail("mismatch", "message %d of %d bytes decoded to a different message", i, sizes[i])
			}
		}
		acct.Case(atLimit, fmt.Sprintf("full|%d|%v|%v", limit, sizes, useMT), func() any {
			return map[string]any{"kind": "full-pair", "limit": limit, "message_sizes": sizes, "marshalTo": useMT}
		}, "full", lbl(atLimit, "full/message-of-exactly-the-limit"))
	})
}

// c18MessageOfSize builds a message whose encoding has exactly n bytes (n >= 3; otherwise the empty message).
func c18MessageOfSize(n int) proto.Message {
	for l := n; l >= 1; l-- {
		m := &protocoltypes.GroupEnvelope{Event: make([]byte, l)}
		for i := range m.Event {
			m.Event[i] = byte(i*7 + 1)
		}
		if proto.Size(m) == n {
			return m
		}
	}
	return &protocoltypes.GroupEnvelope{}
}
