//go:build verif

package protoio

import (
	"bytes"
	"encoding/binary"
	"fmt"
	"testing"

	"google.golang.org/protobuf/proto"

	"berty.tech/weshnet/v2/pkg/protocoltypes"
)

// C18, coverage-guided tier (native go fuzzing, thorough only): arbitrary byte strings against a reference frame parser
// written from the format description. The same body runs under rapid in TestVerif_C18_Differential.

type c18RefFrame struct {
	body      []byte
	canonical bool // the length prefix is the shortest encoding of the length
}

// c18RefParse splits data into frames the way the format says; it stops at the first frame that is not acceptable
// (too long, truncated, bad prefix). variant: 0 varint, 1 big endian uint32, 2 little endian uint32.
func c18RefParse(data []byte, limit, variant int) (frames []c18RefFrame) {
	for len(frames) < 64 {
		var l uint64
		var n int
		canonical := true
		if variant == 0 {
			l, n = binary.Uvarint(data)
			if n <= 0 {
				return
			}
			canonical = n == len(c18Uvarint(l))
		} else {
			if len(data) < 4 {
				return
			}
			if variant == 1 {
				l = uint64(binary.BigEndian.Uint32(data))
			} else {
				l = uint64(binary.LittleEndian.Uint32(data))
			}
			n = 4
		}
		if l > uint64(limit) || l > uint64(len(data)-n) {
			return
		}
		body := data[n : n+int(l)]
		if proto.Unmarshal(body, &protocoltypes.GroupEnvelope{}) != nil {
			return
		}
		frames = append(frames, c18RefFrame{body: body, canonical: canonical})
		data = data[n+int(l):]
	}
	return
}

// c18Differential returns a violation identity or "".
func c18Differential(data []byte, limit int) string {
	if limit < 0 {
		limit = -limit
	}
	for vi, v := range c18Variants[:3] {
		ref := c18RefParse(data, limit, vi)
		r := v.R(bytes.NewReader(data), limit)
		for i := 0; i < 64; i++ {
			out := &protocoltypes.GroupEnvelope{}
			err, pan := c18SafeRead(r, out)
			if pan != nil {
				return fmt.Sprintf("panic/%s", v.Name)
			}
			if err != nil {
				// fewer frames than the reference: only a violation when everything so far was canonically framed
				// (a reader may be stricter than the format about redundant length encodings)
				if i < len(ref) {
					allCanonical := true
					for _, f := range ref[:i+1] {
						allCanonical = allCanonical && f.canonical
					}
					if allCanonical {
						return fmt.Sprintf("valid-frame-refused/%s", v.Name)
					}
				}
				break
			}
			if i >= len(ref) {
				return fmt.Sprintf("bad-frame-accepted/%s", v.Name)
			}
			want := &protocoltypes.GroupEnvelope{}
			_ = proto.Unmarshal(ref[i].body, want)
			if !proto.Equal(out, want) {
				return fmt.Sprintf("wrong-message/%s", v.Name)
			}
		}
		if c, ok := c18BufCap(r); ok && c > limit {
			return fmt.Sprintf("alloc-beyond-limit/%s", v.Name)
		}
	}
	return ""
}

func FuzzVerif_C18(f *testing.F) {
	// a few valid streams and hostile constants
	for _, lim := range []int{0, 8, 64, 2048} {
		for _, v := range c18Variants[:3] {
			var b bytes.Buffer
			w := v.W(&b)
			_ = w.WriteMsg(&protocoltypes.GroupEnvelope{Nonce: []byte{1, 2, 3}, Event: bytes.Repeat([]byte{7}, lim/2)})
			_ = w.WriteMsg(&protocoltypes.GroupEnvelope{})
			f.Add(b.Bytes(), lim)
		}
	}
	for _, h := range [][]byte{{0xff, 0xff, 0xff, 0xff, 0x0f}, {0x80, 0x80, 0x80, 0x80, 0x80, 0x80, 0x80, 0x80, 0x80, 0x01}, {0x80, 0x00}, {0, 0, 0, 1, 0xff}, {1, 0, 0, 0, 0xff}, {0x7f, 0xff, 0xff, 0xff}} {
		f.Add(h, 64)
	}
	f.Fuzz(func(t *testing.T, data []byte, limit int) {
		if limit > 1<<16 || limit < -(1<<16) {
			limit %= 1 << 16
		}
		if v := c18Differential(data, limit); v != "" {
			t.Fatalf("VERIF-FUZZ-VIOLATION identity=differential/%s limit=%d data=%x", v, limit, data)
		}
	})
}
