//go:build verif

package protoio

import (
	"reflect"
	"bytes"
	"encoding/binary"
	"fmt"
	"io"
	"os"
	"runtime"
	"runtime/debug"
	"testing"
	"testing/iotest"

	"google.golang.org/protobuf/proto"
	"pgregory.net/rapid"

	"berty.tech/weshnet/v2/internal/vacct"
	"berty.tech/weshnet/v2/pkg/protocoltypes"
)

func TestMain(m *testing.M) { os.Exit(vacct.Main(m)) }

// ---- generators

// mtMsg gives a generated message the MarshalTo/Size methods so that the
// writers' pre-sized buffer path is exercised as well as the fallback path.
type mtMsg struct{ proto.Message }

func (m mtMsg) MarshalTo(b []byte) (int, error) {
	d, err := proto.Marshal(m.Message)
	if err != nil {
		return 0, err
	}
	if len(b) < len(d) {
		return 0, fmt.Errorf("short buffer: %d < %d", len(b), len(d))
	}
	return copy(b, d), nil
}
func (m mtMsg) Size() int { return proto.Size(m.Message) }

type c18Variant struct {
	Name string
	W    func(io.Writer) WriteCloser
	R    func(io.Reader, int) ReadCloser
}

var c18Variants = []c18Variant{
	{"varint", NewDelimitedWriter, NewDelimitedReader},
	{"uint32be", func(w io.Writer) WriteCloser { return NewUint32DelimitedWriter(w, binary.BigEndian) },
		func(r io.Reader, n int) ReadCloser { return NewUint32DelimitedReader(r, binary.BigEndian, n) }},
	{"uint32le", func(w io.Writer) WriteCloser { return NewUint32DelimitedWriter(w, binary.LittleEndian) },
		func(r io.Reader, n int) ReadCloser { return NewUint32DelimitedReader(r, binary.LittleEndian, n) }},
	{"uint32be-sized", func(w io.Writer) WriteCloser { return NewSizeUint32DelimitedWriter(w, binary.BigEndian, 16) },
		func(r io.Reader, n int) ReadCloser { return NewUint32DelimitedReader(r, binary.BigEndian, n) }},
}

func c18Bytes(rt *rapid.T, limit int, label string) []byte {
	// sizes concentrated around 0, the limit and the protobuf overhead boundaries
	n := rapid.OneOf(
		rapid.IntRange(0, 4),
		rapid.IntRange(max(0, limit-8), limit+2),
		rapid.IntRange(0, limit+2),
		rapid.SampledFrom([]int{0, 1, 126, 127, 128, 129, 16383, 16384}),
	).Draw(rt, label+"-len")
	if n > limit+16 {
		n = limit + 16
	}
	if n == 0 {
		return nil
	}
	b := make([]byte, n)
	fill := rapid.Byte().Draw(rt, label+"-fill")
	for i := range b {
		b[i] = fill + byte(i*7)
	}
	return b
}

func c18Message(rt *rapid.T, limit int) proto.Message {
	if rapid.IntRange(0, 7).Draw(rt, "allDefault") == 0 {
		// every field at its default: a frame of length zero
		return []proto.Message{&protocoltypes.ShareableContact{}, &protocoltypes.GroupEnvelope{}, &protocoltypes.MessageEnvelope{}, &protocoltypes.Group{}}[rapid.IntRange(0, 3).Draw(rt, "kind0")]
	}
	switch rapid.IntRange(0, 3).Draw(rt, "kind") {
	case 0:
		return &protocoltypes.ShareableContact{Pk: c18Bytes(rt, limit, "pk"), PublicRendezvousSeed: c18Bytes(rt, 40, "seed"), Metadata: c18Bytes(rt, 8, "md")}
	case 1:
		return &protocoltypes.GroupEnvelope{Nonce: c18Bytes(rt, 24, "nonce"), Event: c18Bytes(rt, limit, "event")}
	case 2:
		return &protocoltypes.MessageEnvelope{MessageHeaders: c18Bytes(rt, 64, "hdr"), Message: c18Bytes(rt, limit, "msg"), Nonce: c18Bytes(rt, 24, "nonce")}
	default:
		return &protocoltypes.Group{PublicKey: c18Bytes(rt, 32, "pk"), Secret: c18Bytes(rt, limit, "secret"),
			GroupType: protocoltypes.GroupType(rapid.Int32Range(0, 3).Draw(rt, "gt"))}
	}
}

func c18New(m proto.Message) proto.Message { return m.ProtoReflect().New().Interface() }

// chunkReader returns data in generated chunk sizes.
type chunkReader struct {
	data   []byte
	sizes  []int
	i      int
	reads  int
	inside bool // some read ended strictly inside the data (not at a boundary the test knows)
}

func (c *chunkReader) Read(p []byte) (int, error) {
	if len(c.data) == 0 {
		return 0, io.EOF
	}
	n := 1
	if len(c.sizes) > 0 {
		n = c.sizes[c.i%len(c.sizes)]
		c.i++
	}
	if n > len(p) {
		n = len(p)
	}
	if n > len(c.data) {
		n = len(c.data)
	}
	if n == 0 && len(p) > 0 {
		n = 1
	}
	copy(p, c.data[:n])
	c.data = c.data[n:]
	c.reads++
	return n, nil
}

func c18Reader(rt *rapid.T, data []byte) (io.Reader, string) {
	switch rapid.IntRange(0, 5).Draw(rt, "readerKind") {
	case 0:
		return bytes.NewReader(data), "whole"
	case 1:
		return iotest.OneByteReader(bytes.NewReader(data)), "onebyte"
	case 2:
		return iotest.HalfReader(bytes.NewReader(data)), "half"
	case 3:
		return iotest.DataErrReader(bytes.NewReader(data)), "dataerr"
	default:
		sizes := rapid.SliceOfN(rapid.IntRange(1, 9), 1, 12).Draw(rt, "chunks")
		return &chunkReader{data: append([]byte(nil), data...), sizes: sizes}, "chunks"
	}
}

// ---- round trip

func TestVerif_C18_RoundTrip(t *testing.T) {
	acct := vacct.Get("C18")
	vacct.RapidCheck(t, vacct.N(3000, 3000000), func(rt *rapid.T) {
		v := c18Variants[rapid.IntRange(0, len(c18Variants)-1).Draw(rt, "variant")]
		limit := rapid.SampledFrom([]int{0, 1, 8, 64, 300, 2048, 20000}).Draw(rt, "limit")
		n := rapid.IntRange(0, 20).Draw(rt, "n")
		useMT := rapid.Bool().Draw(rt, "marshalTo")
		// the usual receive loop reads every frame into the same destination object
		reuse := rapid.Bool().Draw(rt, "reuseDestination")
		dests := map[string]proto.Message{}
		reusedAfterLonger := false
		var msgs []proto.Message
		var sizes []int
		var stream bytes.Buffer
		w := v.W(&stream)
		failedWrites := 0
		for i := 0; i < n; i++ {
			// now and then the application hands the writer a message that cannot be encoded (a string field that is no
			// valid UTF-8): that write reports an error and leaves nothing on the stream
			if rapid.IntRange(0, 7).Draw(rt, "unencodable") == 0 {
				bad := &protocoltypes.AccountVerifiedCredentialRegistered{Issuer: "\xff\xfe issuer", Identifier: "id"}
				var err error
				if useMT {
					err = w.WriteMsg(mtMsg{bad})
				} else {
					err = w.WriteMsg(bad)
				}
				if err == nil {
					rt.Fatalf("harness: a message with an invalid string was encoded")
				}
				failedWrites++
			}
			m := c18Message(rt, limit)
			msgs = append(msgs, m)
			sizes = append(sizes, proto.Size(m))
			var err error
			if useMT {
				err = w.WriteMsg(mtMsg{m})
			} else {
				err = w.WriteMsg(m)
			}
			if err != nil {
				acct.Violation("roundtrip/write-error/"+v.Name, "TestVerif_C18_RoundTrip", map[string]any{"variant": v.Name, "sizes": sizes, "err": err.Error()})
				rt.Fatalf("WriteMsg failed: %v", err)
			}
		}
		data := append([]byte(nil), stream.Bytes()...)
		rd, rkind := c18Reader(rt, data)
		r := v.R(rd, limit)
		fail := func(id, f string, a ...any) {
			msg := fmt.Sprintf(f, a...)
			acct.Violation("roundtrip/"+id+"/"+v.Name, "TestVerif_C18_RoundTrip", map[string]any{
				"variant": v.Name, "limit": limit, "sizes": sizes, "reader": rkind, "marshalTo": useMT, "stream_hex": fmt.Sprintf("%x", trunc(data, 256)), "msg": msg})
			rt.Fatalf("%s: %s (variant %s limit %d sizes %v reader %s)", id, msg, v.Name, limit, sizes, rkind)
		}
		var got []proto.Message
		overAt := -1
		for i := range msgs {
			out := c18New(msgs[i])
			if reuse {
				tn := string(msgs[i].ProtoReflect().Descriptor().FullName())
				if d, ok := dests[tn]; ok {
					if proto.Size(d) > sizes[i] {
						reusedAfterLonger = true
					}
					out = d
				} else {
					dests[tn] = out
				}
			}
			err := r.ReadMsg(out)
			if sizes[i] > limit {
				overAt = i
				if err == nil {
					fail("limit-not-enforced", "frame %d of %d bytes accepted by a reader limited to %d", i, sizes[i], limit)
				}
				break
			}
			if err != nil {
				fail("read-error", "frame %d (%d bytes, limit %d): unexpected error %v", i, sizes[i], limit, err)
			}
			if !proto.Equal(out, msgs[i]) {
				fail("mismatch", "frame %d (%d bytes) decoded to a different message (destination reused from an earlier frame: %v)", i, sizes[i], reuse)
			}
			if reuse {
				got = append(got, proto.Clone(out))
			} else {
				got = append(got, out)
			}
		}
		if overAt < 0 {
			// the stream is exhausted: one more read reports an error (EOF), not a message
			out := &protocoltypes.GroupEnvelope{}
			if err := r.ReadMsg(out); err == nil {
				fail("read-past-end", "ReadMsg succeeded on an exhausted stream")
			}
		}
		// frames read earlier are not corrupted by later reads / by the failing read
		for i := range got {
			if !proto.Equal(got[i], msgs[i]) {
				fail("aliasing", "frame %d changed after later reads", i)
			}
		}
		c18CheckBuf(r, limit, fail)
		multi := len(got) >= 2 && (rkind == "chunks" || rkind == "onebyte" || rkind == "half")
		nt := multi || (overAt > 0)
		acct.Case(nt, fmt.Sprintf("%s|%d|%v|%s|%v|%v", v.Name, limit, sizes, rkind, useMT, reuse), func() any {
			return map[string]any{"kind": "roundtrip", "variant": v.Name, "limit": limit, "frame_sizes": sizes, "reader": rkind, "marshalTo": useMT, "over_limit_at": overAt}
		}, "roundtrip", "roundtrip/"+v.Name, lbl(overAt > 0, "roundtrip/over-limit-frame-not-first"), lbl(overAt == 0, "roundtrip/over-limit-frame-first"),
			lbl(multi, "roundtrip/multi-frame-chunked"), lbl(useMT, "roundtrip/marshalTo-path"), lbl(reusedAfterLonger, "roundtrip/destination-reused-for-a-shorter-frame"), lbl(failedWrites > 0 && n > 0, "roundtrip/failed-write-between-frames"))
	})
}

func lbl(b bool, s string) string {
	if b {
		return s
	}
	return "-"
}

func trunc(b []byte, n int) []byte {
	if len(b) > n {
		return b[:n]
	}
	return b
}

// the reader's reusable buffer never grows beyond its limit
func c18CheckBuf(r ReadCloser, limit int, fail func(id, f string, a ...any)) {
	if c, ok := c18BufCap(r); ok && c > limit {
		fail("alloc-beyond-limit", "reader buffer grew to %d bytes with limit %d", c, limit)
	}
}

// c18BufCap reads the capacity of the reader's reusable buffer, if it has one (looked up by reflection so that a reader
// without such a field is simply not subject to this sub-check)
func c18BufCap(r ReadCloser) (int, bool) {
	v := reflect.ValueOf(r)
	if v.Kind() != reflect.Ptr || v.Elem().Kind() != reflect.Struct {
		return 0, false
	}
	f := v.Elem().FieldByName("buf")
	if !f.IsValid() || f.Kind() != reflect.Slice {
		return 0, false
	}
	return f.Cap(), true
}

// ---- exhaustive chunkings of small streams

func TestVerif_C18_AllChunkings(t *testing.T) {
	acct := vacct.Get("C18")
	msgs := []proto.Message{
		&protocoltypes.GroupEnvelope{Nonce: []byte{1}, Event: []byte{2, 3}},
		&protocoltypes.GroupEnvelope{},
		&protocoltypes.ShareableContact{Pk: []byte{9}},
	}
	for _, v := range c18Variants[:3] {
		var stream bytes.Buffer
		w := v.W(&stream)
		msgs := msgs
		if v.Name != "varint" {
			msgs = msgs[:2]
		}
		for _, m := range msgs {
			if err := w.WriteMsg(m); err != nil {
				t.Fatal(err)
			}
		}
		data := stream.Bytes()
		n := len(data)
		if n > 18 {
			t.Fatalf("stream too long for exhaustive chunking: %d", n)
		}
		// every composition of n: bit i set = boundary after byte i
		for mask := 0; mask < 1<<(n-1); mask++ {
			var sizes []int
			cur := 1
			for i := 0; i < n-1; i++ {
				if mask&(1<<i) != 0 {
					sizes = append(sizes, cur)
					cur = 1
				} else {
					cur++
				}
			}
			sizes = append(sizes, cur)
			r := v.R(&chunkReader{data: append([]byte(nil), data...), sizes: sizes}, 64)
			ok := true
			for i, m := range msgs {
				out := c18New(m)
				if err := r.ReadMsg(out); err != nil || !proto.Equal(out, m) {
					ok = false
					acct.Violation("chunking/"+v.Name, "TestVerif_C18_AllChunkings", map[string]any{"variant": v.Name, "chunks": sizes, "frame": i, "err": fmt.Sprint(err)})
					t.Errorf("%s: chunking %v: frame %d: err=%v", v.Name, sizes, i, err)
					break
				}
			}
			acct.Case(len(sizes) > 1, fmt.Sprintf("%s|%v", v.Name, sizes), func() any {
				return map[string]any{"kind": "all-chunkings", "variant": v.Name, "stream_len": n, "chunks": sizes}
			}, "chunking/exhaustive")
			if !ok {
				return
			}
		}
	}
}

// ---- hostile streams

func c18Uvarint(x uint64) []byte {
	b := make([]byte, binary.MaxVarintLen64)
	return b[:binary.PutUvarint(b, x)]
}

func TestVerif_C18_Hostile(t *testing.T) {
	acct := vacct.Get("C18")
	old := debug.SetGCPercent(-1)
	defer debug.SetGCPercent(old)
	hostile := []uint64{1 << 31, 1<<31 - 1, 1 << 32, 1<<32 - 1, 1 << 62, 1 << 63, 1<<64 - 1, 1 << 40}
	vacct.RapidCheck(t, vacct.N(1500, 1000000), func(rt *rapid.T) {
		vi := rapid.IntRange(0, 2).Draw(rt, "variant")
		v := c18Variants[vi]
		limit := rapid.SampledFrom([]int{0, 1, 8, 64, 2048}).Draw(rt, "limit")
		// a valid prefix of 0..3 frames within the limit
		var stream bytes.Buffer
		w := v.W(&stream)
		var good []proto.Message
		for i, n := 0, rapid.IntRange(0, 3).Draw(rt, "good"); i < n; i++ {
			m := &protocoltypes.GroupEnvelope{Event: c18Bytes(rt, max(0, limit-4), "ev")}
			if proto.Size(m) > limit {
				continue
			}
			good = append(good, m)
			_ = w.WriteMsg(m)
		}
		kind := rapid.SampledFrom([]string{"hostile-length", "limit+1", "truncated", "overlong-varint", "garbage-body"}).Draw(rt, "bad")
		var bad []byte
		switch kind {
		case "hostile-length":
			l := rapid.SampledFrom(hostile).Draw(rt, "len")
			if vi == 0 {
				bad = c18Uvarint(l)
			} else {
				bad = make([]byte, 4)
				if vi == 1 {
					binary.BigEndian.PutUint32(bad, uint32(l|1<<31))
				} else {
					binary.LittleEndian.PutUint32(bad, uint32(l|1<<31))
				}
			}
			bad = append(bad, make([]byte, rapid.IntRange(0, 64).Draw(rt, "tail"))...)
		case "limit+1":
			body := make([]byte, limit+1)
			if vi == 0 {
				bad = append(c18Uvarint(uint64(limit+1)), body...)
			} else {
				bad = make([]byte, 4)
				if vi == 1 {
					binary.BigEndian.PutUint32(bad, uint32(limit+1))
				} else {
					binary.LittleEndian.PutUint32(bad, uint32(limit+1))
				}
				bad = append(bad, body...)
			}
		case "truncated":
			var fs bytes.Buffer
			fw := v.W(&fs)
			m := &protocoltypes.GroupEnvelope{Event: make([]byte, rapid.IntRange(1, max(1, limit)).Draw(rt, "tl"))}
			_ = fw.WriteMsg(m)
			full := fs.Bytes()
			cut := rapid.IntRange(1, len(full)-1).Draw(rt, "cut")
			if proto.Size(m) > limit {
				kind = "limit+1"
			}
			bad = full[:cut]
		case "overlong-varint":
			if vi != 0 {
				kind = "hostile-length"
				bad = []byte{0xff, 0xff, 0xff, 0xff, 1, 2, 3}
			} else {
				bad = bytes.Repeat([]byte{0x80}, rapid.IntRange(10, 14).Draw(rt, "vl"))
				bad = append(bad, 0x01)
			}
		case "garbage-body":
			body := rapid.SliceOfN(rapid.Byte(), 1, max(1, min(limit, 40))).Draw(rt, "garbage")
			if len(body) > limit {
				kind = "limit+1"
			}
			if vi == 0 {
				bad = append(c18Uvarint(uint64(len(body))), body...)
			} else {
				bad = make([]byte, 4)
				if vi == 1 {
					binary.BigEndian.PutUint32(bad, uint32(len(body)))
				} else {
					binary.LittleEndian.PutUint32(bad, uint32(len(body)))
				}
				bad = append(bad, body...)
			}
		}
		data := append(append([]byte(nil), stream.Bytes()...), bad...)
		rd, rkind := c18Reader(rt, data)
		r := v.R(rd, limit)
		fail := func(id, f string, a ...any) {
			msg := fmt.Sprintf(f, a...)
			acct.Violation("hostile/"+id+"/"+v.Name, "TestVerif_C18_Hostile", map[string]any{
				"variant": v.Name, "limit": limit, "bad_kind": kind, "good_frames": len(good), "reader": rkind, "stream_hex": fmt.Sprintf("%x", trunc(data, 300)), "msg": msg})
			rt.Fatalf("%s: %s (variant %s limit %d bad=%s stream %x)", id, msg, v.Name, limit, kind, trunc(data, 64))
		}
		var got []proto.Message
		for i, m := range good {
			out := &protocoltypes.GroupEnvelope{}
			if err := r.ReadMsg(out); err != nil {
				fail("good-frame-error", "valid frame %d before the bad one: %v", i, err)
			}
			if !proto.Equal(out, m) {
				fail("good-frame-mismatch", "valid frame %d decoded differently", i)
			}
			got = append(got, out)
		}
		out := &protocoltypes.GroupEnvelope{}
		var ms0, ms1 runtime.MemStats
		measure := kind == "hostile-length" || kind == "limit+1"
		if measure {
			runtime.ReadMemStats(&ms0)
		}
		err, pan := c18SafeRead(r, out)
		if measure {
			runtime.ReadMemStats(&ms1)
		}
		if pan != nil {
			fail("panic", "ReadMsg panicked: %v", pan)
		}
		if kind != "garbage-body" && err == nil {
			fail("bad-frame-accepted", "ReadMsg returned no error for a %s frame", kind)
		}
		if measure {
			if delta := ms1.TotalAlloc - ms0.TotalAlloc; delta > uint64(limit)+64*1024 {
				fail("alloc-beyond-limit", "failing ReadMsg allocated %d bytes with limit %d", delta, limit)
			}
		}
		c18CheckBuf(r, limit, fail)
		for i := range got {
			if !proto.Equal(got[i], good[i]) {
				fail("aliasing", "frame %d read before the bad frame was corrupted by it", i)
			}
		}
		acct.Case(len(good) > 0, fmt.Sprintf("%s|%d|%s|%d|%s|%x", v.Name, limit, kind, len(good), rkind, trunc(bad, 24)), func() any {
			return map[string]any{"kind": "hostile", "variant": v.Name, "limit": limit, "bad": kind, "good_frames_before": len(good), "reader": rkind, "bad_prefix_hex": fmt.Sprintf("%x", trunc(bad, 24))}
		}, "hostile", "hostile/"+kind, lbl(len(good) > 0, "hostile/bad-frame-not-first"))
	})
}

func c18SafeRead(r ReadCloser, out proto.Message) (err error, pan any) {
	defer func() {
		if p := recover(); p != nil {
			pan = p
		}
	}()
	return r.ReadMsg(out), nil
}

// ---- arbitrary bytes (also the body of the native fuzz target)

func c18Arbitrary(data []byte, limit int) (violation string) {
	for vi, v := range c18Variants[:3] {
		r := v.R(bytes.NewReader(data), limit)
		for i := 0; i < 64; i++ {
			out := &protocoltypes.GroupEnvelope{}
			err, pan := c18SafeRead(r, out)
			if pan != nil {
				return fmt.Sprintf("panic/%s: %v", v.Name, pan)
			}
			if err != nil {
				break
			}
			if proto.Size(out) > limit+16 {
				return fmt.Sprintf("oversize-accepted/%s", v.Name)
			}
		}
		if c, ok := c18BufCap(r); ok && c > limit {
			return fmt.Sprintf("alloc-beyond-limit/%s", v.Name)
		}
		_ = vi
	}
	return ""
}

func TestVerif_C18_Arbitrary(t *testing.T) {
	acct := vacct.Get("C18")
	vacct.RapidCheck(t, vacct.N(3000, 3000000), func(rt *rapid.T) {
		data := rapid.SliceOfN(rapid.Byte(), 0, 200).Draw(rt, "data")
		limit := rapid.SampledFrom([]int{0, 8, 64, 2048}).Draw(rt, "limit")
		if v := c18Arbitrary(data, limit); v != "" {
			acct.Violation("arbitrary/"+v, "TestVerif_C18_Arbitrary", map[string]any{"limit": limit, "data_hex": fmt.Sprintf("%x", data)})
			rt.Fatalf("%s on %x (limit %d)", v, data, limit)
		}
		acct.Case(len(data) > 4, fmt.Sprintf("%d|%x", limit, data), func() any {
			return map[string]any{"kind": "arbitrary-bytes", "limit": limit, "data_hex": fmt.Sprintf("%x", trunc(data, 48))}
		}, "arbitrary")
	})
}

// the differential body of the native fuzz target under rapid (quick and thorough)
func TestVerif_C18_Differential(t *testing.T) {
	acct := vacct.Get("C18")
	vacct.RapidCheck(t, vacct.N(3000, 2000000), func(rt *rapid.T) {
		limit := rapid.SampledFrom([]int{0, 8, 64, 2048}).Draw(rt, "limit")
		var data []byte
		frames := 0
		// a stream made of frames with valid / hostile prefixes and bodies, then cut or extended
		for i, n := 0, rapid.IntRange(0, 4).Draw(rt, "frames"); i < n; i++ {
			vi := rapid.IntRange(0, 2).Draw(rt, "prefix")
			body := rapid.OneOf(
				rapid.Just([]byte{}),
				rapid.Map(rapid.IntRange(0, max(0, limit)), func(k int) []byte {
					b, _ := proto.Marshal(&protocoltypes.GroupEnvelope{Event: make([]byte, max(0, k-4))})
					return b
				}),
				rapid.SliceOfN(rapid.Byte(), 0, 24),
			).Draw(rt, "body")
			l := uint64(len(body))
			switch rapid.IntRange(0, 7).Draw(rt, "lie") {
			case 0:
				l++
			case 1:
				l = uint64(limit) + 1
			}
			switch vi {
			case 0:
				p := c18Uvarint(l)
				if rapid.IntRange(0, 5).Draw(rt, "redundant") == 0 {
					p[len(p)-1] |= 0x80
					p = append(p, 0)
				}
				data = append(data, p...)
			case 1:
				data = binary.BigEndian.AppendUint32(data, uint32(l))
			default:
				data = binary.LittleEndian.AppendUint32(data, uint32(l))
			}
			data = append(data, body...)
			frames++
		}
		if len(data) > 0 && rapid.Bool().Draw(rt, "cut") {
			data = data[:rapid.IntRange(0, len(data)-1).Draw(rt, "at")]
		}
		if v := c18Differential(data, limit); v != "" {
			acct.Violation("differential/"+v, "TestVerif_C18_Differential", map[string]any{"limit": limit, "data_hex": fmt.Sprintf("%x", data)})
			rt.Fatalf("%s on %x (limit %d)", v, data, limit)
		}
		nt := false
		for vi := 0; vi < 3; vi++ {
			if len(c18RefParse(data, limit, vi)) > 0 {
				nt = true
			}
		}
		acct.Case(nt, fmt.Sprintf("diff|%d|%x", limit, trunc(data, 40)), func() any {
			return map[string]any{"kind": "differential", "limit": limit, "data_hex": fmt.Sprintf("%x", trunc(data, 48))}
		}, "differential", lbl(nt, "differential/reference-accepts-a-frame"))
	})
}
