//go:build verif

package rendezvous

import (
	"bytes"
	"fmt"
	"sync"
	"testing"
	"testing/synctest"
	"time"

	"pgregory.net/rapid"

	"berty.tech/weshnet/v2/internal/vacct"
)

// C17 with several tasks of one peer resolving at once (head exchanges of several groups share one rotation
// instance): right after a period boundary every task finds expired points and rotates them. Each resolution still
// yields the point of the current period with a deadline in the future, and its rotation value maps back to the topic.
// (A data race on the registration maps kills the process: the driver turns that into a violation.)
func TestVerif_C17_ConcurrentResolvers(t *testing.T) {
	acct := vacct.Get("C17")
	vacct.RapidCheck(t, vacct.N(4, 120), func(rt *rapid.T) {
		interval := rapid.SampledFrom([]time.Duration{2 * time.Second, time.Minute}).Draw(rt, "interval")
		nTopics := rapid.IntRange(100, 600).Draw(rt, "topics")
		workers := rapid.IntRange(4, 16).Draw(rt, "workers")
		boundaries := rapid.IntRange(1, 3).Draw(rt, "boundaries")
		violation, msg := "", ""
		var mu sync.Mutex
		fail := func(id, f string, a ...any) {
			mu.Lock()
			if violation == "" {
				violation, msg = id, fmt.Sprintf(f, a...)
			}
			mu.Unlock()
		}
		synctest.Test(t, func(t *testing.T) {
			ri := NewRotationInterval(interval)
			seed := []byte("seed-of-the-group")
			topics := make([]string, nTopics)
			for i := range topics {
				topics[i] = fmt.Sprintf("topic-%d", i)
				ri.RegisterRotation(time.Now(), topics[i], seed)
			}
			for b := 0; b < boundaries; b++ {
				time.Sleep(interval)
				synctest.Wait()
				period := c17RefPeriodStart(time.Now(), interval)
				var wg sync.WaitGroup
				for w := 0; w < workers; w++ {
					wg.Add(1)
					go func() {
						defer wg.Done()
						for i := range topics {
							tp := topics[(i+w*7)%len(topics)]
							pt, err := ri.PointForTopic(tp)
							if err != nil {
								fail("conc/resolve-error", "PointForTopic(%s) failed: %v", tp, err)
								return
							}
							if !bytes.Equal(pt.RawRotationTopic(), c17RefPoint(tp, seed, period)) {
								fail("conc/stale-point", "a task resolved %s to a point that is not the one of the current period", tp)
								return
							}
							if !pt.Deadline().After(time.Now()) {
								fail("conc/deadline-not-in-future", "deadline of %s is not in the future", tp)
								return
							}
							back, err := ri.PointForRawRotation(pt.RawRotationTopic())
							if err != nil || back.Topic() != tp {
								fail("conc/own-value-refused", "the rotation value a task just resolved for %s is not mapped back to it (%v)", tp, err)
								return
							}
						}
					}()
				}
				wg.Wait()
			}
			time.Sleep(3 * 24 * time.Hour)
			time.Sleep(2 * interval)
			synctest.Wait()
		})
		desc := map[string]any{"interval": interval.String(), "topics": nTopics, "tasks": workers, "boundaries": boundaries}
		acct.Case(true, fmt.Sprintf("conc|%v|%d|%d|%d", interval, nTopics, workers, boundaries), func() any { return desc }, "concurrent-resolvers")
		if violation != "" {
			acct.Violation(violation, "TestVerif_C17_ConcurrentResolvers", map[string]any{"case": desc, "msg": msg})
			rt.Fatalf("C17 %s: %s (%v)", violation, msg, desc)
		}
	})
}
