//go:build verif

package rendezvous

import (
	"bytes"
	"crypto/hmac"
	"crypto/sha256"
	"encoding/binary"
	"fmt"
	"os"
	"strings"
	"testing"
	"testing/synctest"
	"time"

	"pgregory.net/rapid"

	"berty.tech/weshnet/v2/internal/vacct"
)

func TestMain(m *testing.M) { os.Exit(vacct.Main(m)) }

// reference, written from the property statement: keyed digest of the period
// start, keyed by topic and seed
func c17RefPoint(topic string, seed []byte, periodStart time.Time) []byte {
	key := append([]byte(topic), seed...)
	mac := hmac.New(sha256.New, key)
	var b [8]byte
	binary.BigEndian.PutUint64(b[:], uint64(periodStart.Unix()))
	mac.Write(b[:])
	return mac.Sum(nil)
}

func c17RefPeriodStart(t time.Time, interval time.Duration) time.Time {
	s := int64(interval / time.Second)
	u := t.Unix()
	return time.Unix(u-u%s, 0)
}

var c17Intervals = []time.Duration{
	time.Second, 2 * time.Second, 7 * time.Second, time.Minute, 90 * time.Second, time.Hour, 24 * time.Hour,
	7 * 24 * time.Hour, 400 * 24 * time.Hour, 86399 * time.Second,
}

func c17GenInstant(rt *rapid.T, interval time.Duration) time.Time {
	// 1970 .. 2200, with emphasis on period boundaries
	const maxU = 7258118400 // 2200-01-01
	base := rapid.Int64Range(0, maxU).Draw(rt, "unix")
	s := int64(interval / time.Second)
	switch rapid.IntRange(0, 4).Draw(rt, "where") {
	case 0: // exactly a period start
		return time.Unix(base-base%s, 0)
	case 1: // 1ns before a period start
		if base-base%s > 0 {
			return time.Unix(base-base%s, 0).Add(-time.Nanosecond)
		}
	case 2: // last nanosecond of a period
		return time.Unix(base-base%s, 0).Add(interval - time.Nanosecond)
	}
	return time.Unix(base, rapid.Int64Range(0, 999999999).Draw(rt, "nsec"))
}

func TestVerif_C17_Pure(t *testing.T) {
	acct := vacct.Get("C17")
	vacct.RapidCheck(t, vacct.N(6000, 3000000), func(rt *rapid.T) {
		interval := rapid.OneOf(rapid.SampledFrom(c17Intervals),
			rapid.Map(rapid.Int64Range(1, 400*86400), func(s int64) time.Duration { return time.Duration(s) * time.Second })).Draw(rt, "interval")
		at := c17GenInstant(rt, interval)
		if rapid.Bool().Draw(rt, "tz") {
			at = at.In(time.FixedZone("x", rapid.IntRange(-12, 14).Draw(rt, "off")*3600))
		}
		fail := func(id, f string, a ...any) {
			msg := fmt.Sprintf(f, a...)
			acct.Violation("pure/"+id, "TestVerif_C17_Pure", map[string]any{"interval": interval.String(), "at": at.Format(time.RFC3339Nano), "msg": msg})
			rt.Fatalf("%s: %s (interval %v at %v)", id, msg, interval, at.Format(time.RFC3339Nano))
		}
		// period arithmetic
		start := RoundTimePeriod(at, interval)
		next := NextTimePeriod(at, interval)
		if start.After(at) || !at.Before(next) {
			fail("period-bounds", "RoundTimePeriod=%v NextTimePeriod=%v do not bracket the instant", start, next)
		}
		if !start.Equal(c17RefPeriodStart(at, interval)) {
			fail("period-alignment", "period start %v, expected %v", start.Unix(), c17RefPeriodStart(at, interval).Unix())
		}
		if !RoundTimePeriod(start, interval).Equal(start) {
			fail("period-idempotent", "rounding the period start moved it to %v", RoundTimePeriod(start, interval))
		}
		if next.Sub(start) != interval {
			fail("period-length", "period length %v", next.Sub(start))
		}
		if !RoundTimePeriod(next, interval).Equal(next) || !RoundTimePeriod(next.Add(-time.Nanosecond), interval).Equal(start) {
			fail("period-boundary", "boundary instants are not assigned to adjacent periods")
		}
		neg := RoundTimePeriod(at, -interval)
		if !neg.Equal(start) {
			fail("negative-interval", "negative interval gives another period start")
		}
		// digests
		// lengths around the digest's block size matter (real topics are log addresses of 60-100 bytes, seeds 32 bytes)
		lenGen := rapid.OneOf(rapid.IntRange(0, 40), rapid.SampledFrom([]int{31, 32, 33, 63, 64, 65, 96, 128, 200}))
		tl, sl := lenGen.Draw(rt, "topicLen"), lenGen.Draw(rt, "seedLen")
		topic := rapid.SliceOfN(rapid.Byte(), tl, tl).Draw(rt, "topic")
		seed := rapid.SliceOfN(rapid.Byte(), sl, sl).Draw(rt, "seed")
		topicCopy, seedCopy := append([]byte(nil), topic...), append([]byte(nil), seed...)
		p1 := GenerateRendezvousPointForPeriod(topic, seed, start)
		p2 := GenerateRendezvousPointForPeriod(topic, seed, start)
		if !bytes.Equal(p1, p2) {
			fail("nondeterministic", "two evaluations differ")
		}
		if !bytes.Equal(topic, topicCopy) || !bytes.Equal(seed, seedCopy) {
			fail("mutates-input", "topic or seed modified by the call")
		}
		if !bytes.Equal(p1, c17RefPoint(string(topic), seed, start)) {
			fail("not-the-keyed-digest", "point differs from HMAC-SHA256(topic|seed, period start)")
		}
		// same period, another instant => same point through the rotation API
		ri := NewRotationInterval(interval)
		other := start.Add(time.Duration(rapid.Int64Range(0, int64(interval)-1).Draw(rt, "offset")))
		a := ri.NewRendezvousPointForPeriod(at, string(topic), seed)
		b := ri.NewRendezvousPointForPeriod(other, string(topic), seed)
		if !bytes.Equal(a.RawRotationTopic(), b.RawRotationTopic()) || !bytes.Equal(a.RawRotationTopic(), p1) {
			fail("same-period-differs", "two instants of one period give different points")
		}
		if !a.Deadline().Equal(next) {
			fail("deadline", "deadline %v, period ends %v", a.Deadline(), next)
		}
		// changes with period / seed / topic (where the keyed input differs as bytes)
		nxt := ri.NewRendezvousPointForPeriod(next, string(topic), seed)
		if bytes.Equal(nxt.RawRotationTopic(), p1) {
			fail("period-ignored", "next period gives the same point")
		}
		// the same instance asked for the same topic and period with another seed (a contact reset its reference, a topic
		// is registered again with another key): the point follows the seed
		{
			seedB := append(append([]byte(nil), seed...), 0x5a)
			pb := ri.NewRendezvousPointForPeriod(at, string(topic), seedB)
			if !bytes.Equal(pb.RawRotationTopic(), c17RefPoint(string(topic), seedB, start)) {
				fail("not-the-keyed-digest", "the same rotation instance asked again for the same topic and period with another seed does not return the keyed digest of that seed")
			}
			pa := ri.NewRendezvousPointForPeriod(other, string(topic), seed)
			if !bytes.Equal(pa.RawRotationTopic(), p1) {
				fail("same-period-differs", "asking again with the first seed gives another point")
			}
		}
		// a non-zero byte: HMAC zero-pads short keys, so a trailing 0x00 is not a different key
		seed2 := append(append([]byte(nil), seed...), byte(rapid.IntRange(1, 255).Draw(rt, "seedx")))
		if bytes.Equal(GenerateRendezvousPointForPeriod(topic, seed2, start), p1) {
			fail("seed-ignored", "longer seed gives the same point")
		}
		if len(seed) > 0 {
			seed3 := append([]byte(nil), seed...)
			seed3[len(seed3)-1] ^= 1 << uint(rapid.IntRange(0, 7).Draw(rt, "bit"))
			if bytes.Equal(GenerateRendezvousPointForPeriod(topic, seed3, start), p1) {
				fail("seed-ignored", "flipped seed bit gives the same point")
			}
		}
		if len(topic) > 0 {
			topic3 := append([]byte(nil), topic...)
			topic3[0] ^= 1 << uint(rapid.IntRange(0, 7).Draw(rt, "tbit"))
			if bytes.Equal(GenerateRendezvousPointForPeriod(topic3, seed, start), p1) {
				fail("topic-ignored", "flipped topic bit gives the same point")
			}
		}
		boundary := at.Equal(start) || at.Equal(next.Add(-time.Nanosecond)) || at.Add(time.Nanosecond).Equal(start)
		acct.Case(boundary, fmt.Sprintf("%v|%d|%d", interval, at.UnixNano(), len(topic)), func() any {
			return map[string]any{"kind": "pure", "interval": interval.String(), "at": at.Format(time.RFC3339Nano), "topic_len": len(topic), "seed_len": len(seed)}
		}, "pure", lbl(boundary, "pure/period-boundary"), lbl(len(topic)+len(seed) > 64, "pure/key-longer-than-block"))
	})
}

func lbl(b bool, s string) string {
	if b {
		return s
	}
	return "-"
}

// ---- histories under the fake clock

type c17Op struct {
	Kind  string        `json:"kind"` // register | advance | resolve | accept | acceptOwnPrev | foreign
	Peer  int           `json:"peer"`
	Delta time.Duration `json:"delta,omitempty"`
}

type c17Peer struct {
	ri         *RotationInterval
	registered bool
	lastValue  []byte    // value returned by the last resolve
	lastPeriod time.Time // period start of the last resolve
	prevValue  []byte    // value of the period before the last rotation observed by resolve
	rotatedAt  time.Time
}

func c17History(t *testing.T, interval time.Duration, ops []c17Op) (violation, msg string, labels []string, trace []string) {
	const topic = "verif-topic"
	seed := []byte("verif-seed-0123456789abcdef")
	fail := func(id, f string, a ...any) {
		if violation == "" {
			violation, msg = id, fmt.Sprintf(f, a...)
		}
	}
	seen := map[string]bool{}
	label := func(l string) {
		if !seen[l] {
			seen[l] = true
			labels = append(labels, l)
		}
	}
	synctest.Test(t, func(t *testing.T) {
		peers := []*c17Peer{{ri: NewRotationInterval(interval)}, {ri: NewRotationInterval(interval)}}
		for _, op := range ops {
			if violation != "" {
				break
			}
			now := time.Now()
			p := peers[op.Peer%2]
			o := peers[(op.Peer+1)%2]
			period := c17RefPeriodStart(now, interval)
			trace = append(trace, fmt.Sprintf("t=%s %s(p%d,%v)", now.UTC().Format("15:04:05.000"), op.Kind, op.Peer%2, op.Delta))
			switch op.Kind {
			case "register":
				at := now.Add(-op.Delta) // registered for an instant that is not in the future
				p.ri.RegisterRotation(at, topic, seed)
				p.registered = true
				if !c17RefPeriodStart(at, interval).Equal(period) {
					label("hist/registered-in-earlier-period")
				}
			case "advance":
				time.Sleep(op.Delta)
				synctest.Wait()
			case "resolve":
				pt, err := p.ri.PointForTopic(topic)
				if !p.registered {
					if err == nil {
						fail("unregistered-resolves", "PointForTopic succeeded for a topic that was never registered")
					}
					continue
				}
				if err != nil {
					fail("resolve-error", "PointForTopic failed for a registered topic: %v", err)
					continue
				}
				want := c17RefPoint(topic, seed, period)
				if !bytes.Equal(pt.RawRotationTopic(), want) {
					label("hist/observed-across-deadline")
					fail("stale-point", "at %s PointForTopic returned a point that is not the one of the current period (deadline %s, ttl %v)",
						now.UTC().Format(time.RFC3339), pt.Deadline().UTC().Format(time.RFC3339), pt.TTL())
					continue
				}
				if !pt.Deadline().After(now) {
					fail("deadline-not-in-future", "deadline %v is not after now %v", pt.Deadline(), now)
				}
				if pt.Topic() != topic {
					fail("wrong-topic", "resolved point names topic %q", pt.Topic())
				}
				if p.lastValue != nil && !p.lastPeriod.Equal(period) {
					label("hist/observed-across-deadline")
					p.prevValue = p.lastValue
					p.rotatedAt = now
				}
				p.lastValue, p.lastPeriod = append([]byte(nil), pt.RawRotationTopic()...), period
			case "accept":
				// both resolved in the current period => p accepts o's value and maps it to the topic
				if p.lastValue == nil || o.lastValue == nil || !p.lastPeriod.Equal(period) || !o.lastPeriod.Equal(period) {
					continue
				}
				label("hist/cross-accept")
				pt, err := p.ri.PointForRawRotation(o.lastValue)
				if err != nil {
					fail("peer-value-refused", "peer value of the current period refused: %v", err)
					continue
				}
				if pt.Topic() != topic {
					fail("peer-value-wrong-topic", "peer value mapped to %q", pt.Topic())
				}
			case "acceptOwnPrev":
				// own previous value stays acceptable during the grace period after rotation
				if p.prevValue == nil || now.Sub(p.rotatedAt) > RotationGracePeriod || !p.lastPeriod.Equal(period) {
					continue
				}
				label("hist/own-previous-in-grace")
				pt, err := p.ri.PointForRawRotation(p.prevValue)
				if err != nil {
					fail("own-previous-refused", "own previous rotation value refused %v after rotation: %v", now.Sub(p.rotatedAt), err)
					continue
				}
				if pt.Topic() != topic {
					fail("own-previous-wrong-topic", "own previous value mapped to %q", pt.Topic())
				}
			case "foreign":
				// values of another seed / an unknown topic are refused
				v1 := c17RefPoint(topic, []byte("another-seed"), period)
				v2 := c17RefPoint("unknown-topic", seed, period)
				for _, v := range [][]byte{v1, v2, {}, []byte("garbage")} {
					if pt, err := p.ri.PointForRawRotation(v); err == nil {
						fail("foreign-value-accepted", "rotation value of another seed/topic accepted as %q", pt.Topic())
					}
				}
				label("hist/foreign")
			}
		}
		// let pending clean-up timers fire inside the bubble
		time.Sleep(3 * 24 * time.Hour)
		time.Sleep(2 * interval)
		synctest.Wait()
	})
	return
}

func c17GenOps(rt *rapid.T, interval time.Duration) []c17Op {
	n := rapid.IntRange(3, 30).Draw(rt, "n")
	ops := []c17Op{{Kind: "register", Peer: 0, Delta: c17GenDelta(rt, interval)}}
	for i := 0; i < n; i++ {
		k := rapid.SampledFrom([]string{"register", "advance", "advance", "resolve", "resolve", "resolve", "accept", "accept", "acceptOwnPrev", "foreign",
			"macro-both-accept", "macro-rotate-own"}).Draw(rt, "kind")
		pr := rapid.IntRange(0, 1).Draw(rt, "peer")
		switch k {
		case "macro-both-accept": // both peers registered and resolved now, then exchange values both ways
			ops = append(ops, c17Op{Kind: "register", Peer: 1 - pr, Delta: c17GenDelta(rt, interval)}, c17Op{Kind: "resolve", Peer: 0}, c17Op{Kind: "resolve", Peer: 1},
				c17Op{Kind: "accept", Peer: 0}, c17Op{Kind: "accept", Peer: 1})
			continue
		case "macro-rotate-own": // resolve, cross one or more boundaries, resolve again, present the previous value
			ops = append(ops, c17Op{Kind: "resolve", Peer: pr}, c17Op{Kind: "advance", Delta: time.Duration(rapid.IntRange(1, 3).Draw(rt, "k")) * interval},
				c17Op{Kind: "resolve", Peer: pr}, c17Op{Kind: "advance", Delta: time.Duration(rapid.Int64Range(0, int64(min(interval, RotationGracePeriod))/2).Draw(rt, "g"))},
				c17Op{Kind: "acceptOwnPrev", Peer: pr})
			continue
		}
		op := c17Op{Kind: k, Peer: pr}
		if k == "advance" || k == "register" {
			op.Delta = c17GenDelta(rt, interval)
		}
		ops = append(ops, op)
	}
	return ops
}

func c17GenDelta(rt *rapid.T, interval time.Duration) time.Duration {
	switch rapid.IntRange(0, 5).Draw(rt, "dk") {
	case 0:
		return 0
	case 1: // inside a period
		return time.Duration(rapid.Int64Range(1, int64(interval)/2).Draw(rt, "d"))
	case 2: // about one period
		return interval + time.Duration(rapid.Int64Range(-int64(interval)/4, int64(interval)/4).Draw(rt, "d"))
	case 3: // several periods
		return time.Duration(rapid.IntRange(2, 5).Draw(rt, "k")) * interval
	case 4: // inside / just outside the grace period
		return RotationGracePeriod + time.Duration(rapid.Int64Range(-int64(time.Minute), int64(time.Minute)).Draw(rt, "d"))
	default: // exactly to the next boundary is produced by "advance" with the remaining time: approximated by one interval
		return interval
	}
}

func TestVerif_C17_History(t *testing.T) {
	acct := vacct.Get("C17")
	vacct.RapidCheck(t, vacct.N(600, 400000), func(rt *rapid.T) {
		interval := rapid.SampledFrom([]time.Duration{time.Second, 2 * time.Second, time.Minute, time.Hour, 24 * time.Hour}).Draw(rt, "interval")
		ops := c17GenOps(rt, interval)
		v, msg, labels, trace := c17History(t, interval, ops)
		crossed := false
		for _, l := range labels {
			if l == "hist/observed-across-deadline" {
				crossed = true
			}
		}
		acct.Case(crossed, fmt.Sprintf("%v|%s", interval, strings.Join(trace, ";")), func() any {
			return map[string]any{"kind": "history", "interval": interval.String(), "ops": trace}
		}, append(labels, "hist")...)
		if v != "" {
			acct.Violation("history/"+v, "TestVerif_C17_History", map[string]any{"interval": interval.String(), "ops": ops, "trace": trace, "msg": msg})
			rt.Fatalf("%s: %s\n%s", v, msg, strings.Join(trace, "\n"))
		}
	})
}

// the static interval used when no rotation is configured: one period that
// contains every instant the code can see, deadline in the future
func TestVerif_C17_Static(t *testing.T) {
	acct := vacct.Get("C17")
	synctest.Test(t, func(t *testing.T) {
		for i := 0; i < 50; i++ {
			ri := NewStaticRotationInterval()
			ri.RegisterRotation(time.Now(), "topic", []byte("seed"))
			p1, err := ri.PointForTopic("topic")
			if err != nil || !p1.Deadline().After(time.Now()) {
				acct.Violation("static/deadline", "TestVerif_C17_Static", map[string]any{"err": fmt.Sprint(err)})
				t.Errorf("static interval: err=%v", err)
				return
			}
			time.Sleep(time.Duration(i+1) * 24 * time.Hour)
			p2, err := ri.PointForTopic("topic")
			if err != nil || !bytes.Equal(p1.RawRotationTopic(), p2.RawRotationTopic()) {
				acct.Violation("static/changes", "TestVerif_C17_Static", map[string]any{"err": fmt.Sprint(err), "after_days": i + 1})
				t.Errorf("static interval point changed after %d days: err=%v", i+1, err)
				return
			}
			if _, err := ri.PointForRawRotation(p1.RawRotationTopic()); err != nil {
				acct.Violation("static/refused", "TestVerif_C17_Static", map[string]any{"err": fmt.Sprint(err)})
				t.Errorf("static interval: own value refused: %v", err)
				return
			}
			acct.Case(true, fmt.Sprintf("static|%d", i), func() any { return map[string]any{"kind": "static-interval", "days": i + 1} }, "static")
		}
	})
}
