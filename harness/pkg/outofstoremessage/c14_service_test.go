//go:build verif

package outofstoremessage

import (
	"bytes"
	"context"
	"fmt"
	"os"
	"testing"

	"github.com/ipfs/go-cid"
	ds "github.com/ipfs/go-datastore"
	ds_sync "github.com/ipfs/go-datastore/sync"
	mh "github.com/multiformats/go-multihash"
	"google.golang.org/protobuf/proto"
	"pgregory.net/rapid"

	"berty.tech/weshnet/v2/internal/vacct"
	"berty.tech/weshnet/v2/pkg/protocoltypes"
	"berty.tech/weshnet/v2/pkg/secretstore"
)

func TestMain(m *testing.M) { os.Exit(vacct.Main(m)) }

// C14 at the stand-alone push service: the service is created on the root datastore of an account (its default
// secret store next to the application's own one, as in a notification extension). Push payloads of one sender are
// opened through the service, through the application's secret store, or the message arrives through the log, in
// generated orders and with generated distances between consecutive counters. A push payload must open whenever the
// message is openable through the log (C02) and lies strictly inside the reference window of the account around the
// counter seen last, whoever saw it; the reply tells truthfully whether the message was received before; every
// message still opens through the log at the end.

type c14sStep struct {
	Index int    `json:"index"` // message index (0 = first message sealed after the announcement)
	Via   string `json:"via"`   // service | app | log
}

func c14sCID(b []byte) cid.Cid {
	h, err := mh.Sum(b, mh.SHA2_256, -1)
	if err != nil {
		panic(err)
	}
	return cid.NewCidV1(cid.Raw, h)
}

func TestVerif_C14_Service(t *testing.T) {
	acct := vacct.Get("C14")
	ctx := context.Background()
	K := uint64(secretstore.PrecomputeMessageKeyCount)
	W := uint64(secretstore.PrecomputeOutOfStoreGroupRefsCount)
	vacct.RapidCheck(t, vacct.N(60, 6000), func(rt *rapid.T) {
		root := ds_sync.MutexWrap(ds.NewMapDatastore())
		app, err := secretstore.NewSecretStore(root, nil)
		if err != nil {
			rt.Fatalf("harness: %v", err)
		}
		sender, err := secretstore.NewInMemSecretStore(nil)
		if err != nil {
			rt.Fatalf("harness: %v", err)
		}
		g, _, err := protocoltypes.NewGroupMultiMember()
		if err != nil {
			rt.Fatalf("harness: %v", err)
		}
		if err := sender.PutGroup(ctx, g); err != nil {
			rt.Fatalf("harness: %v", err)
		}
		if err := app.PutGroup(ctx, g); err != nil {
			rt.Fatalf("harness: %v", err)
		}
		gpk, _ := g.GetPubKey()
		for i, pre := 0, rapid.IntRange(0, 3).Draw(rt, "pre"); i < pre; i++ {
			if _, err := sender.SealEnvelope(ctx, g, []byte("before the announcement")); err != nil {
				rt.Fatalf("harness: %v", err)
			}
		}
		appMD, err := app.GetOwnMemberDeviceForGroup(g)
		if err != nil {
			rt.Fatalf("harness: %v", err)
		}
		senderMD, err := sender.GetOwnMemberDeviceForGroup(g)
		if err != nil {
			rt.Fatalf("harness: %v", err)
		}
		enc, err := sender.GetShareableChainKey(ctx, g, appMD.Member())
		if err != nil {
			rt.Fatalf("harness: %v", err)
		}
		if err := app.RegisterChainKey(ctx, g, senderMD.Device(), enc); err != nil {
			rt.Fatalf("harness: %v", err)
		}
		// the service comes up on the account's datastore after the account exists
		svc, err := NewOutOfStoreMessageService(WithRootDatastore(root))
		if err != nil {
			rt.Fatalf("harness: %v", err)
		}
		n := rapid.IntRange(20, 130).Draw(rt, "n")
		type sealed struct {
			env, push, payload []byte
			id                 cid.Cid
			counter            uint64
		}
		var msgs []sealed
		for i := 0; i < n; i++ {
			// what the message store seals: an EncryptedMessage
			p, _ := proto.Marshal(&protocoltypes.EncryptedMessage{Plaintext: []byte(fmt.Sprintf("payload-%d", i))})
			envBytes, err := sender.SealEnvelope(ctx, g, p)
			if err != nil {
				rt.Fatalf("harness: %v", err)
			}
			env, hdr, err := sender.OpenEnvelopeHeaders(envBytes, g)
			if err != nil {
				rt.Fatalf("harness: %v", err)
			}
			id := c14sCID(envBytes)
			oos, err := sender.SealOutOfStoreMessageEnvelope(id, env, hdr, g)
			if err != nil {
				rt.Fatalf("harness: %v", err)
			}
			push, err := proto.Marshal(oos)
			if err != nil {
				rt.Fatalf("harness: %v", err)
			}
			msgs = append(msgs, sealed{envBytes, push, p, id, hdr.Counter})
		}
		c0 := msgs[0].counter - 1
		// the session
		var steps []c14sStep
		pos := 0
		for i, ns := 0, rapid.IntRange(2, 10).Draw(rt, "steps"); i < ns; i++ {
			pos += rapid.SampledFrom([]int{0, 1, 1, 2, 5, 15, 17, 30, 60, 98, -1, -3, -20, -50}).Draw(rt, "jump")
			if pos < 0 {
				pos = 0
			}
			if pos >= n {
				pos = n - 1
			}
			steps = append(steps, c14sStep{Index: pos, Via: rapid.SampledFrom([]string{"service", "service", "app", "log"}).Draw(rt, "via")})
		}
		viaLog := map[uint64]bool{} // received through the log
		last := c0 + K              // the registration centres the references on the end of the key window
		var trace []string
		serviceThenFar, viaService := false, false
		lastVia := ""
		fail := func(id, f string, a ...any) {
			msg := fmt.Sprintf(f, a...)
			acct.Violation("service/"+id, "TestVerif_C14_Service", map[string]any{"messages": n, "first_counter": c0 + 1, "steps": steps, "trace": trace, "msg": msg})
			rt.Fatalf("C14 service/%s: %s\n%v", id, msg, trace)
		}
		logOpen := func(m sealed) error {
			env, hdr, err := app.OpenEnvelopeHeaders(m.env, g)
			if err != nil {
				return err
			}
			msg, err := app.OpenEnvelopePayload(ctx, env, hdr, gpk, appMD.Device(), m.id)
			if err != nil {
				return err
			}
			if b, _ := proto.Marshal(msg); !bytes.Equal(b, m.payload) {
				return fmt.Errorf("opens to other content")
			}
			// what the message store does after each entry it opened
			return app.UpdateOutOfStoreGroupReferences(ctx, hdr.DevicePk, hdr.Counter, g)
		}
		for _, st := range steps {
			m := msgs[st.Index]
			keyOK := m.counter <= c0+K+uint64(len(viaLog))        // C02: openable through the log now (opening a push does not move the key window)
			refOK := m.counter+W > last+1 && m.counter+2 < last+W // strictly inside [last-W, last+W)
			was := viaLog[m.counter]
			far := m.counter > last+12 || m.counter+12 < last
			switch st.Via {
			case "log":
				err := logOpen(m)
				trace = append(trace, fmt.Sprintf("log #%d (counter %d): err=%v", st.Index, m.counter, err != nil))
				if err != nil {
					if keyOK {
						fail("log-open-rejected", "message %d (counter %d) is within the key window (%d opened through the log so far, announcement at %d) but does not open through the log after pushes were opened: %v", st.Index, m.counter, len(viaLog), c0, err)
					}
					continue
				}
				viaLog[m.counter] = true
			default:
				var clear []byte
				var already bool
				var gotCounter uint64
				var gotGroup []byte
				var err error
				if st.Via == "service" {
					var rep *protocoltypes.OutOfStoreReceive_Reply
					rep, err = svc.OutOfStoreReceive(ctx, &protocoltypes.OutOfStoreReceive_Request{Payload: m.push})
					if err == nil {
						clear, already, gotCounter, gotGroup = rep.Cleartext, rep.AlreadyReceived, rep.Message.GetCounter(), rep.GroupPublicKey
					}
				} else {
					var om *protocoltypes.OutOfStoreMessage
					var gg *protocoltypes.Group
					om, gg, clear, already, err = app.OpenOutOfStoreMessage(ctx, m.push)
					if err == nil {
						gotCounter, gotGroup = om.GetCounter(), gg.GetPublicKey()
					}
				}
				trace = append(trace, fmt.Sprintf("push via %s #%d (counter %d, last seen %d): err=%v already=%v", st.Via, st.Index, m.counter, last, err != nil, already))
				if err != nil {
					if keyOK && refOK {
						fail("push-open-rejected", "push payload of message %d (counter %d) rejected by the %s although the message is openable through the log (%d opened through the log, announcement at %d) and lies strictly inside the reference window (%d) around the counter seen last (%d, seen through the %s): %v",
							st.Index, m.counter, st.Via, len(viaLog), c0, W, last, lastVia, err)
					}
					continue
				}
				if !bytes.Equal(clear, m.payload) || gotCounter != m.counter || !bytes.Equal(gotGroup, g.PublicKey) {
					fail("push-opened-wrongly", "push payload of message %d opens to other content, counter or group", st.Index)
				}
				if already != was {
					fail("already-received-flag", "push payload of message %d via the %s reports already received = %v, but the message had been received through the log before = %v", st.Index, st.Via, already, was)
				}
				if lastVia == "service" && far && keyOK && refOK {
					serviceThenFar = true
				}
				if st.Via == "service" {
					viaService = true
				}
			}
			last = m.counter
			lastVia = st.Via
		}
		// everything still opens through the log, in order
		for i, m := range msgs {
			if err := logOpen(m); err != nil {
				fail("log-open-rejected", "in-order completion: message %d (counter %d) does not open through the log after the session: %v", i, m.counter, err)
			}
		}
		acct.Case(viaService, fmt.Sprintf("svc|%d|%v", n, steps), func() any {
			return map[string]any{"kind": "push-service", "messages": n, "steps": trace}
		}, "service", lbl14(serviceThenFar, "service/push-far-from-the-one-the-service-saw-last"))
	})
}

func lbl14(b bool, s string) string {
	if b {
		return s
	}
	return "-"
}
