//go:build verif

package lifecycle

import (
	"context"
	"fmt"
	"os"
	"testing"

	"pgregory.net/rapid"

	"berty.tech/weshnet/v2/internal/vacct"
	"berty.tech/weshnet/v2/internal/vsched"
)

func TestMain(m *testing.M) { os.Exit(vacct.Main(m)) }

// C16, lifecycle manager: waiters follow the state through WaitForStateChange /
// TaskWaitForStateChange while an updater performs UpdateState sequences.

type c16LifeScenario struct {
	Waiters []bool `json:"waiters"` // true = uses TaskWaitForStateChange
	Updates []int  `json:"updates"` // states set by the updater, in order (0 active, 1 inactive)
	Cancel  bool   `json:"cancel"`  // canceller cancels waiter 0
	Reader  bool   `json:"reader"`  // an extra goroutine polls GetCurrentState (read lock)
}

func c16LifeRun(t *testing.T, sc c16LifeScenario, choices []int) vsched.Outcome {
	var out vsched.Outcome
	var m *Manager
	view := make([]State, len(sc.Waiters))
	wakeups := make([]int, len(sc.Waiters))
	cancelled := false
	badTask := ""
	out.Res = vsched.Run(t, vsched.Options{Choices: choices, MaxSteps: 1000}, func(s *vsched.Sched) {
		m = NewManager(StateActive)
		ctxs := make([]context.Context, len(sc.Waiters))
		cancels := make([]context.CancelFunc, len(sc.Waiters))
		for i := range ctxs {
			ctxs[i], cancels[i] = context.WithCancel(context.Background())
		}
		for i, useTask := range sc.Waiters {
			view[i] = StateActive
			s.Go(fmt.Sprintf("waiter%d", i), func() {
				for {
					if useTask {
						task, ok := m.TaskWaitForStateChange(ctxs[i], view[i])
						if !ok {
							if task != nil {
								badTask = "task returned together with ok=false"
							}
							return
						}
						if task == nil {
							badTask = "nil task returned with ok=true"
							return
						}
						task.Done()
					} else if ok := m.WaitForStateChange(ctxs[i], view[i]); !ok {
						return
					}
					wakeups[i]++
					// the wait returned: the state differed from the view at that moment; follow it
					view[i] = 1 - view[i]
				}
			})
		}
		s.Go("updater", func() {
			for _, st := range sc.Updates {
				m.UpdateState(State(st))
			}
		})
		if sc.Reader {
			s.Go("reader", func() {
				for i := 0; i < 2; i++ {
					_ = m.GetCurrentState()
				}
			})
		}
		if sc.Cancel {
			s.Go("canceller", func() {
				vsched.Yield("h:cancel")
				cancelled = true
				cancels[0]()
			})
		}
		s.Cleanup = func() {
			for _, c := range cancels {
				c()
			}
		}
	})
	out.Standard()
	if badTask != "" {
		out.Fail("task-contract", "%s", badTask)
	}
	if st := out.Res.Status("updater"); st != nil && st.State != "done" {
		out.Fail("updater-stuck", "updater did not finish: %+v", *st)
	}
	final := m.currentState
	slept := false
	for i := range sc.Waiters {
		st := out.Res.Status(fmt.Sprintf("waiter%d", i))
		if st == nil || st.State != "blocked" {
			continue
		}
		slept = true
		// a two-valued state: the waiter flips its view on every return, so at the
		// terminal state a sleeping waiter must hold the manager's current state
		if view[i] != final {
			out.Fail("missed-update", "waiter%d asleep at %s waiting to leave state %d while the manager is in state %d", i, st.Point, view[i], final)
		}
		if i == 0 && cancelled {
			out.Fail("cancel-ignored", "waiter0 still asleep at %s after cancellation", st.Point)
		}
	}
	out.NonTrivial = slept && c16LifeUpdateInWindow(out.Res)
	if out.NonTrivial {
		out.Labels = append(out.Labels, "lifecycle/update-between-check-and-sleep")
	}
	if sc.Cancel {
		out.Labels = append(out.Labels, "lifecycle/with-cancel")
	}
	return out
}

func c16LifeUpdateInWindow(r *vsched.Result) bool {
	lastW := map[string]int{}
	for i, st := range r.Trace {
		if len(st.G) >= 6 && st.G[:6] == "waiter" {
			if j, ok := lastW[st.G]; ok && len(st.Point) > 7 && st.Point[len(st.Point)-7:] == ":select" {
				for k := j + 1; k < i; k++ {
					if r.Trace[k].G == "updater" {
						return true
					}
				}
			}
			lastW[st.G] = i
		}
	}
	return false
}

func TestVerif_C16_Lifecycle(t *testing.T) {
	e := &vsched.Explorer[c16LifeScenario]{PID: "C16", Prefix: "lifecycle", Test: "TestVerif_C16_Lifecycle", Run: c16LifeRun}
	if p := vacct.ReplayPath(); p != "" {
		e.Replay(t, p)
		return
	}
	scs := []c16LifeScenario{
		{Waiters: []bool{false}, Updates: []int{1}}, {Waiters: []bool{false}, Updates: []int{1, 0}}, {Waiters: []bool{true}, Updates: []int{1, 0}},
		{Waiters: []bool{false}, Updates: []int{1}, Cancel: true}, {Waiters: []bool{false, true}, Updates: []int{1}}, {Waiters: []bool{false}, Updates: []int{1, 1, 0}, Reader: true},
	}
	maxRuns, maxPre := 6000, 4
	if vacct.Thorough() {
		scs = append(scs, c16LifeScenario{Waiters: []bool{false, true}, Updates: []int{1, 0, 1}}, c16LifeScenario{Waiters: []bool{true, true}, Updates: []int{1, 0}, Cancel: true},
			c16LifeScenario{Waiters: []bool{false, false}, Updates: []int{1, 0, 1}, Reader: true})
		maxRuns, maxPre = 300000, 8
	}
	shard, nshards := vacct.Shard()
	for i, sc := range scs {
		if i%nshards == shard {
			e.DFS(t, sc, maxPre, maxRuns)
		}
	}
}

func TestVerif_C16_LifecycleRandom(t *testing.T) {
	e := &vsched.Explorer[c16LifeScenario]{PID: "C16", Prefix: "lifecycle", Test: "TestVerif_C16_LifecycleRandom", Run: c16LifeRun}
	if p := vacct.ReplayPath(); p != "" {
		e.Replay(t, p)
		return
	}
	e.Random(t, vacct.N(500, 50000), func(rt *rapid.T) c16LifeScenario {
		return c16LifeScenario{
			Waiters: rapid.SliceOfN(rapid.Bool(), 1, 3).Draw(rt, "waiters"), Updates: rapid.SliceOfN(rapid.IntRange(0, 1), 1, 5).Draw(rt, "updates"),
			Cancel: rapid.Bool().Draw(rt, "cancel"), Reader: rapid.Bool().Draw(rt, "reader"),
		}
	}, 200)
}
