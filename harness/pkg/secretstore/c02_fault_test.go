//go:build verif

package secretstore

import (
	"bytes"
	"fmt"
	"testing"

	"pgregory.net/rapid"

	"berty.tech/weshnet/v2/internal/vacct"
)

// C02 with one failing datastore write on the receiver: while message t is opened, one put / delete / batch commit
// fails. That open may report the error. The message store re-queues such a message and goes on: the next message is
// opened, then t is presented again. It is still inside c < t <= c + window + opened, so it opens - and so does
// everything after it, in order (windows >= 2: a failed write of the advanced chain key may cost one slot).
func TestVerif_C02_TransientWriteFailure(t *testing.T) {
	acct := vacct.Get("C02")
	vacct.RapidCheck(t, vacct.N(120, 12000), func(rt *rapid.T) {
		kind := rapid.SampledFrom([]int{vKindAccount, vKindMulti}).Draw(rt, "kind")
		window := rapid.SampledFrom([]int{2, 4, 100}).Draw(rt, "window")
		w := vNewGroupWorld(kind, window, 8)
		g := w.g
		ds := newRecDS()
		ds.NoBatch = rapid.IntRange(0, 3).Draw(rt, "nobatch") == 0
		R := vNewDevOn("R2", ds, window, 8)
		if kind == vKindAccount {
			a, b, err := w.S.s.ExportAccountKeysForBackup()
			if err != nil {
				rt.Fatalf("harness: %v", err)
			}
			if err := R.s.ImportAccountKeys(a, b); err != nil {
				rt.Fatalf("harness: %v", err)
			}
		}
		if err := R.s.PutGroup(vctx, g); err != nil {
			rt.Fatalf("harness: %v", err)
		}
		if err := vShare(g, w.S, R); err != nil {
			rt.Fatalf("harness: %v", err)
		}
		n := rapid.IntRange(3, 6).Draw(rt, "n")
		var envs, pays [][]byte
		for i := 0; i < n; i++ {
			p := []byte(fmt.Sprintf("message-%d", i+1))
			envs, pays = append(envs, vSeal(w.S, g, p)), append(pays, p)
		}
		target := rapid.IntRange(0, n-2).Draw(rt, "target")
		failAt := rapid.IntRange(1, 5).Draw(rt, "failAt")
		desc := map[string]any{"kind": vKindNames[kind], "window": window, "non_batching": ds.NoBatch, "messages": n, "faulty_open_of_message": target + 1, "failing_mutation": failAt}
		fail := func(id, f string, a ...any) {
			msg := fmt.Sprintf(f, a...)
			acct.Violation("write-fault/"+id, "TestVerif_C02_TransientWriteFailure", map[string]any{"case": desc, "msg": msg})
			rt.Fatalf("C02 write-fault/%s: %s (%v)", id, msg, desc)
		}
		open := func(i int) error {
			o, err := vOpen(R, g, envs[i], vCID(envs[i]))
			if err == nil && !bytes.Equal(o.Payload, pays[i]) {
				fail("wrong-payload", "message %d opens to other content", i+1)
			}
			return err
		}
		fired, requeued := false, false
		for i := 0; i < n; i++ {
			if i == target {
				seen := 0
				hit := func() bool {
					seen++
					if seen == failAt && !fired {
						fired = true
						return true
					}
					return false
				}
				ds.FailPut = func(string) bool { return hit() }
				ds.FailCommit = func([]string) bool { return hit() }
			}
			err := open(i)
			ds.FailPut, ds.FailCommit = nil, nil
			if err == nil {
				continue
			}
			if i != target || !fired {
				fail("openable-rejected", "message %d does not open although no storage failure was injected into that open: %v", i+1, err)
			}
			// re-queued: the next message first, then this one again
			requeued = true
			if err := open(i + 1); err != nil {
				fail("openable-rejected", "message %d, presented while message %d waits for its retry, does not open: %v", i+2, i+1, err)
			}
			if err := open(i); err != nil {
				fail("openable-rejected-after-transient-failure", "message %d (inside the window) is rejected when presented again after one write failed during its first open (mutation %d): %v", i+1, failAt, err)
			}
			i++ // i+1 was opened already
		}
		for i := 0; i < n; i++ {
			if err := open(i); err != nil {
				fail("opened-lost", "re-opening message %d after the session fails: %v", i+1, err)
			}
		}
		acct.Case(requeued, fmt.Sprintf("c02wf|%d|%d|%v|%d|%d|%d", kind, window, ds.NoBatch, n, target, failAt), func() any { return desc }, "write-fault", lbl(fired, "write-fault/fired"), lbl(requeued, "write-fault/requeued-behind-the-next-message"))
	})
}
