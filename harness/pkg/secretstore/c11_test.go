//go:build verif

package secretstore

import (
	"bytes"
	"crypto/ecdsa"
	"crypto/elliptic"
	crand "crypto/rand"
	"filippo.io/edwards25519"
	"fmt"
	"strings"
	"sync"
	"testing"

	"github.com/libp2p/go-libp2p/core/crypto"
	cryptopb "github.com/libp2p/go-libp2p/core/crypto/pb"
	"google.golang.org/protobuf/proto"
	"pgregory.net/rapid"

	"berty.tech/weshnet/v2/internal/vacct"
	"berty.tech/weshnet/v2/pkg/protocoltypes"
)

// C11: both sides derive the same keys: contact groups, member keys, imported accounts.

func c11GroupSig(g *protocoltypes.Group) string {
	sk, err := g.GetSigningPrivKey()
	sig := "nosigkey"
	if err == nil {
		sig = fmt.Sprintf("%x", vRaw(sk.GetPublic()))
	}
	return fmt.Sprintf("pk=%x secret=%x type=%v signpub=%s", g.PublicKey, g.Secret, g.GroupType, sig)
}

func c11Identity(d *vDev) (string, error) {
	a, b, err := d.s.ExportAccountKeysForBackup()
	if err != nil {
		return "", err
	}
	return fmt.Sprintf("%x/%x", a, b), nil
}

func TestVerif_C11_Derivations(t *testing.T) {
	acct := vacct.Get("C11")
	vacct.RapidCheck(t, vacct.N(500, 400000), func(rt *rapid.T) {
		var trace []string
		fail := func(id, f string, a ...any) {
			msg := fmt.Sprintf(f, a...)
			acct.Violation("derive/"+id, "TestVerif_C11_Derivations", map[string]any{"trace": trace, "msg": msg})
			rt.Fatalf("%s: %s\n%s", id, msg, strings.Join(trace, "\n"))
		}
		nAcc := rapid.IntRange(2, 4).Draw(rt, "accounts")
		accs := make([]*vDev, nAcc)
		for i := range accs {
			accs[i] = vNewDev(fmt.Sprintf("A%d", i), 4, 4)
		}
		mm, _, _ := protocoltypes.NewGroupMultiMember()
		mm2, _, _ := protocoltypes.NewGroupMultiMember()
		// a generated order of first uses on the first device of each account
		type use struct{ kind, a, b int }
		var uses []use
		for i := 0; i < rapid.IntRange(0, 8).Draw(rt, "uses"); i++ {
			uses = append(uses, use{rapid.IntRange(0, 3).Draw(rt, "k"), rapid.IntRange(0, nAcc-1).Draw(rt, "a"), rapid.IntRange(0, nAcc-1).Draw(rt, "b")})
		}
		apply := func(d *vDev, u use, peers []*vDev) {
			switch u.kind {
			case 0:
				if u.a != u.b {
					_, _ = d.s.GetGroupForContact(peers[u.b].account())
				}
			case 1:
				_, _ = d.s.GetOwnMemberDeviceForGroup(mm)
			case 2:
				_, _, _ = d.s.GetGroupForAccount()
			case 3:
				_, _ = d.s.GetOwnMemberDeviceForGroup(mm2)
			}
		}
		for _, u := range uses {
			trace = append(trace, fmt.Sprintf("first-use kind=%d on A%d (peer A%d)", u.kind, u.a, u.b))
			apply(accs[u.a], u, accs)
		}
		// second devices: import into fresh stores, derivations in another generated order
		second := make([]*vDev, nAcc)
		for i, a := range accs {
			second[i] = vSecondDevice(fmt.Sprintf("A%d'", i), a, 4, 4)
		}
		for _, u := range uses {
			if rapid.Bool().Draw(rt, "replay-on-second") {
				apply(second[u.a], u, accs)
			}
		}
		// contact groups: symmetric, equal across devices, cached == recomputed, pairwise different
		seen := map[string]string{}
		for i := 0; i < nAcc; i++ {
			for j := i + 1; j < nAcc; j++ {
				gij, err1 := accs[i].s.GetGroupForContact(accs[j].account())
				gji, err2 := accs[j].s.GetGroupForContact(accs[i].account())
				if err1 != nil || err2 != nil {
					fail("contact-group-error", "GetGroupForContact failed: %v / %v", err1, err2)
				}
				if c11GroupSig(gij) != c11GroupSig(gji) {
					fail("contact-group-asymmetric", "A%d and A%d derive different contact groups:\n %s\n %s", i, j, c11GroupSig(gij), c11GroupSig(gji))
				}
				if gij.GroupType != protocoltypes.GroupType_GroupTypeContact || len(gij.PublicKey) != 32 || len(gij.Secret) != 32 {
					fail("contact-group-malformed", "contact group malformed: %s", c11GroupSig(gij))
				}
				again, _ := accs[i].s.GetGroupForContact(accs[j].account())
				if c11GroupSig(again) != c11GroupSig(gij) {
					fail("contact-group-unstable", "second call on the same store gives another group")
				}
				gd, err := second[i].s.GetGroupForContact(accs[j].account())
				if err != nil || c11GroupSig(gd) != c11GroupSig(gij) {
					fail("contact-group-differs-on-second-device", "imported account derives another contact group for A%d-A%d (err %v)", i, j, err)
				}
				key := string(gij.PublicKey)
				if prev, dup := seen[key]; dup {
					fail("contact-group-collision", "pairs %s and A%d-A%d derive the same group", prev, i, j)
				}
				seen[key] = fmt.Sprintf("A%d-A%d", i, j)
				if _, dup := seen[string(gij.Secret)]; dup {
					fail("contact-group-collision", "secret reused across pairs")
				}
				seen[string(gij.Secret)] = "s"
			}
		}
		// member keys: equal across devices of an account, device keys differ, other group => other member key
		for i := range accs {
			m1, e1 := accs[i].s.GetOwnMemberDeviceForGroup(mm)
			m2, e2 := second[i].s.GetOwnMemberDeviceForGroup(mm)
			o1, e3 := accs[i].s.GetOwnMemberDeviceForGroup(mm2)
			if e1 != nil || e2 != nil || e3 != nil {
				fail("member-device-error", "GetOwnMemberDeviceForGroup: %v %v %v", e1, e2, e3)
			}
			if !m1.Member().Equals(m2.Member()) {
				fail("member-key-differs-across-devices", "two devices of A%d derive different member keys for one group", i)
			}
			if m1.Device().Equals(m2.Device()) {
				fail("device-key-shared", "two devices of A%d have the same device key in a multi-member group", i)
			}
			if m1.Member().Equals(o1.Member()) {
				fail("member-key-not-per-group", "A%d uses the same member key in two groups", i)
			}
			if m1.Device().Equals(o1.Device()) {
				fail("device-key-not-per-group", "A%d uses the same device key in two groups", i)
			}
			if m1.Member().Equals(accs[i].account()) {
				fail("member-key-is-account-key", "member key equals the account key")
			}
			m1b, _ := accs[i].s.GetOwnMemberDeviceForGroup(mm)
			if !m1b.Member().Equals(m1.Member()) || !m1b.Device().Equals(m1.Device()) {
				fail("member-device-unstable", "second call returns other keys")
			}
			for j := 0; j < i; j++ {
				mj, _ := accs[j].s.GetOwnMemberDeviceForGroup(mm)
				if mj.Member().Equals(m1.Member()) || mj.Device().Equals(m1.Device()) {
					fail("member-key-collision", "A%d and A%d share a member or device key", i, j)
				}
			}
			// account group identical on both devices, signing works both ways
			ga, oa, _ := accs[i].s.GetGroupForAccount()
			gb, ob, _ := second[i].s.GetGroupForAccount()
			if c11GroupSig(ga) != c11GroupSig(gb) || !oa.Member().Equals(ob.Member()) || oa.Device().Equals(ob.Device()) {
				fail("account-group-differs", "account group / member differs between devices of A%d, or device key shared", i)
			}
			sig, _ := m1.MemberSign([]byte("x"))
			if ok, _ := m2.Member().Verify([]byte("x"), sig); !ok {
				fail("member-key-mismatch", "member signature of one device does not verify under the other's member key")
			}
			ia, _ := c11Identity(accs[i])
			ib, _ := c11Identity(second[i])
			if ia != ib {
				fail("export-import-identity", "export of the importing store differs from the original export")
			}
		}
		// a multi-member group whose identifier is the account key of a contact (the owner of that key can issue such an
		// invitation): the member key is the one derived for the group, whether or not the contact is already known
		{
			skj, err := accs[1].s.GetAccountPrivateKey()
			if err != nil {
				rt.Fatalf("harness: %v", err)
			}
			sec := make([]byte, 32)
			_, _ = crand.Read(sec)
			sig, _ := skj.Sign(sec)
			named := &protocoltypes.Group{PublicKey: vRaw(skj.GetPublic()), Secret: sec, SecretSig: sig, GroupType: protocoltypes.GroupType_GroupTypeMultiMember}
			if _, err := accs[0].s.GetGroupForContact(accs[1].account()); err != nil {
				rt.Fatalf("harness: %v", err)
			}
			fresh := vSecondDevice("A0-fresh", accs[0], 4, 4) // a device of the same account that never dealt with the contact
			ma, e1 := accs[0].s.GetOwnMemberDeviceForGroup(named)
			mb, e2 := fresh.s.GetOwnMemberDeviceForGroup(named)
			if e1 != nil || e2 != nil {
				fail("member-device-error", "GetOwnMemberDeviceForGroup for a group named after a contact's key: %v %v", e1, e2)
			}
			if !ma.Member().Equals(mb.Member()) {
				fail("member-key-differs-across-devices", "a group whose identifier is a contact's account key: the device that knows the contact and a fresh device of the same account derive different member keys")
			}
			cg, _ := accs[0].s.GetGroupForContact(accs[1].account())
			if sk, err := cg.GetSigningPrivKey(); err == nil && ma.Member().Equals(sk.GetPublic()) {
				fail("member-key-collision", "the member key in a group named after a contact's key is a key of the contact group")
			}
		}
		// public keys of the right length that no honest party can hold (not a point of the curve, or a point of small
		// order): a derivation may be refused; whatever is derived is unrelated across accounts and across keys
		{
			var strays [][]byte
			for len(strays) < 2 {
				b := make([]byte, 32)
				_, _ = crand.Read(b)
				if _, err := new(edwards25519.Point).SetBytes(b); err != nil {
					strays = append(strays, b)
				}
			}
			one := make([]byte, 32)
			one[0] = 1
			strays = append(strays, one, make([]byte, 32)) // the neutral element, a point of order 4
			seenID, seenSecret, seenMember := map[string]string{}, map[string]string{}, map[string]string{}
			derived := 0
			for ai := 0; ai < 2; ai++ {
				for si, raw := range strays {
					who := fmt.Sprintf("A%d/stray-key-%d", ai, si)
					pk, err := crypto.UnmarshalEd25519PublicKey(raw)
					if err != nil {
						continue
					}
					if cg, err := accs[ai].s.GetGroupForContact(pk); err == nil {
						derived++
						if prev, dup := seenID[string(cg.PublicKey)]; dup {
							fail("contact-group-collision", "%s and %s derive the same contact group identifier %x", prev, who, cg.PublicKey[:8])
						}
						if prev, dup := seenSecret[string(cg.Secret)]; dup {
							fail("contact-group-collision", "%s and %s derive the same contact group secret", prev, who)
						}
						seenID[string(cg.PublicKey)], seenSecret[string(cg.Secret)] = who, who
					}
					sec := make([]byte, 32)
					_, _ = crand.Read(sec)
					named := &protocoltypes.Group{PublicKey: raw, Secret: sec, SecretSig: make([]byte, 64), GroupType: protocoltypes.GroupType_GroupTypeMultiMember}
					if md, err := accs[ai].s.GetOwnMemberDeviceForGroup(named); err == nil {
						derived++
						mk := string(vRaw(md.Member()))
						if prev, dup := seenMember[mk]; dup {
							fail("member-key-collision", "%s and %s derive the same member key %x for groups named after keys nobody holds", prev, who, mk[:8])
						}
						seenMember[mk] = who
					}
				}
			}
			trace = append(trace, fmt.Sprintf("stray keys: %d derivations accepted", derived))
		}
		acct.Case(true, fmt.Sprintf("%d|%v", nAcc, uses), func() any {
			return map[string]any{"kind": "derivations", "accounts": nAcc, "first_uses": trace}
		}, "derive", lbl(len(uses) > 0, "derive/first-use-before-import"), "derive/stray-public-keys")
	})
}

var (
	c11Once                   sync.Once
	c11RSA, c11Secp, c11ECDSA crypto.PrivKey
)

// foreign key types are generated once per process (RSA generation is slow)
func c11ForeignKeys() (crypto.PrivKey, crypto.PrivKey, crypto.PrivKey) {
	c11Once.Do(func() {
		c11RSA, _, _ = crypto.GenerateRSAKeyPair(2048, crand.Reader)
		c11Secp, _, _ = crypto.GenerateSecp256k1Key(crand.Reader)
		ecd, _ := ecdsa.GenerateKey(elliptic.P256(), crand.Reader)
		c11ECDSA, _, _ = crypto.ECDSAKeyPairFromKey(ecd)
	})
	return c11RSA, c11Secp, c11ECDSA
}

// c11LegacyEncoding re-serialises an Ed25519 private key in the older 96-byte form (key + redundant public key)
func c11LegacyEncoding(blob []byte) []byte {
	k, err := crypto.UnmarshalPrivateKey(blob)
	if err != nil {
		panic(err)
	}
	raw, _ := k.Raw()
	data := append(append([]byte{}, raw...), raw[32:]...)
	out, err := proto.Marshal(&cryptopb.PrivateKey{Type: cryptopb.KeyType_Ed25519.Enum(), Data: data})
	if err != nil {
		panic(err)
	}
	if k2, err := crypto.UnmarshalPrivateKey(out); err != nil || !k2.Equals(k) {
		panic("legacy encoding not accepted by libp2p")
	}
	return out
}

func c11Marshal(k crypto.PrivKey) []byte {
	b, err := crypto.MarshalPrivateKey(k)
	if err != nil {
		panic(err)
	}
	return b
}

func TestVerif_C11_ImportGuards(t *testing.T) {
	acct := vacct.Get("C11")
	vacct.RapidCheck(t, vacct.N(300, 200000), func(rt *rapid.T) {
		src := vNewDev("src", 4, 4)
		a, b, err := src.s.ExportAccountKeysForBackup()
		if err != nil {
			rt.Fatalf("export: %v", err)
		}
		mm, _, _ := protocoltypes.NewGroupMultiMember()
		other := vNewDev("other", 4, 4)
		dst := vNewDev("dst", 4, 4)
		// what the destination did before the import
		pre := rapid.SampledFrom([]string{"nothing", "account-key", "proof-key", "contact-group", "member-device", "account-group", "export", "device-key-only", "imported-already"}).Draw(rt, "pre")
		hasAccount := true
		var preAccountPK crypto.PubKey
		switch pre {
		case "nothing":
			hasAccount = false
		case "account-key":
			sk, _ := dst.s.GetAccountPrivateKey()
			preAccountPK = sk.GetPublic()
		case "proof-key":
			_, _ = dst.s.GetAccountProofPublicKey()
		case "contact-group":
			_, _ = dst.s.GetGroupForContact(other.account())
		case "member-device":
			_, _ = dst.s.GetOwnMemberDeviceForGroup(mm)
		case "account-group":
			_, _, _ = dst.s.GetGroupForAccount()
		case "export":
			_, _, _ = dst.s.ExportAccountKeysForBackup()
		case "device-key-only":
			_, _ = dst.s.deviceKeystore.devicePrivateKey()
			hasAccount = false
		case "imported-already":
			oa, ob, _ := other.s.ExportAccountKeysForBackup()
			_ = dst.s.ImportAccountKeys(oa, ob)
		}
		// the blobs
		rsa, secp, ecdk := c11ForeignKeys()
		blob := rapid.SampledFrom([]string{"valid", "valid", "valid", "valid", "swapped", "equal", "rsa-account", "secp-proof", "ecdsa-account", "truncated", "random", "empty", "nil-proof", "raw-seed", "equal-other-encoding", "equal-other-encoding-swapped", "legacy-encoding"}).Draw(rt, "blob")
		ia, ib := a, b
		valid := false
		switch blob {
		case "valid":
			valid = true
		case "swapped":
			ia, ib = b, a
			valid = true // still two distinct ed25519 keys: accepted, but yields another account
		case "equal":
			ib = a
		case "rsa-account":
			ia = c11Marshal(rsa)
		case "secp-proof":
			ib = c11Marshal(secp)
		case "ecdsa-account":
			ia = c11Marshal(ecdk)
		case "truncated":
			ia = a[:len(a)-rapid.IntRange(1, len(a)-1).Draw(rt, "cut")]
		case "random":
			ib = rapid.SliceOfN(rapid.Byte(), 1, 80).Draw(rt, "rnd")
		case "empty":
			ia = []byte{}
		case "nil-proof":
			ib = nil
		case "raw-seed":
			ia = a[len(a)-32:]
		case "equal-other-encoding":
			ib = c11LegacyEncoding(a) // the same key twice, in two encodings libp2p accepts
		case "equal-other-encoding-swapped":
			ia, ib = c11LegacyEncoding(b), b
		case "legacy-encoding":
			ia, ib = c11LegacyEncoding(a), c11LegacyEncoding(b) // a legitimate (older) serialisation of the same two keys
			valid = true
		}
		// NB: nothing that touches the account keys may run between `pre` and the import
		// (an export here would create both keys and hide a weakened guard)
		err = dst.s.ImportAccountKeys(ia, ib)
		desc := map[string]any{"pre": pre, "blob": blob}
		fail := func(id, f string, args ...any) {
			msg := fmt.Sprintf(f, args...)
			acct.Violation("import/"+id, "TestVerif_C11_ImportGuards", map[string]any{"case": desc, "msg": msg})
			rt.Fatalf("%s: %s (%v)", id, msg, desc)
		}
		wantOK := valid && !hasAccount
		if wantOK && err != nil && blob != "legacy-encoding" { // accepting an older serialisation is not demanded, only that it is exact if accepted
			fail("valid-import-refused", "import of a valid export into a store without account refused: %v", err)
		}
		if !wantOK && err == nil {
			why := "malformed / non-Ed25519 / equal keys"
			if hasAccount {
				why = "the store already has an account (" + pre + ")"
			}
			fail("import-accepted", "import accepted although %s", why)
		}
		if err != nil && hasAccount {
			// the offered identity was not adopted, not even partially
			after, _ := c11Identity(dst)
			if valid && blob == "valid" && (strings.HasPrefix(after, fmt.Sprintf("%x/", a)) || strings.HasSuffix(after, fmt.Sprintf("/%x", b))) {
				fail("refused-import-changed-identity", "a refused import replaced one of the store's account keys")
			}
			if preAccountPK != nil {
				now, _ := dst.s.GetAccountPrivateKey()
				if now == nil || !now.GetPublic().Equals(preAccountPK) {
					fail("refused-import-changed-identity", "a refused import changed the store's account key")
				}
			}
		}
		if err != nil && !hasAccount {
			// a refused import leaves the store without the offered identity: a later valid import still works
			if blob != "valid" && pre == "nothing" {
				if e2 := dst.s.ImportAccountKeys(a, b); e2 != nil {
					fail("refused-import-left-residue", "after a refused import a valid import fails: %v", e2)
				}
				id2, _ := c11Identity(dst)
				if id2 != fmt.Sprintf("%x/%x", a, b) {
					fail("refused-import-left-residue", "after a refused import the valid import yields another identity")
				}
			}
		}
		if err == nil && (blob == "valid" || blob == "legacy-encoding") {
			id2, _ := c11Identity(dst)
			if id2 != fmt.Sprintf("%x/%x", a, b) {
				fail("import-not-exact", "export after import differs from the imported blobs")
			}
			g1, _ := src.s.GetGroupForContact(other.account())
			g2, _ := dst.s.GetGroupForContact(other.account())
			if c11GroupSig(g1) != c11GroupSig(g2) {
				fail("import-contact-group", "imported account derives another contact group")
			}
			m1, _ := src.s.GetOwnMemberDeviceForGroup(mm)
			m2, _ := dst.s.GetOwnMemberDeviceForGroup(mm)
			if !m1.Member().Equals(m2.Member()) {
				fail("import-member-key", "imported account derives another member key")
			}
		}
		acct.Case(true, pre+"|"+blob, func() any { return desc }, "import", "import/pre="+pre, "import/blob="+blob, lbl(err != nil, "import/refused"), lbl(err == nil, "import/accepted"))
		_ = bytes.Equal
		_ = proto.Marshal
	})
}
