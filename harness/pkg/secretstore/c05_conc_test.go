//go:build verif

package secretstore

import (
	"bytes"
	"fmt"
	"strings"
	"testing"

	"pgregory.net/rapid"

	"berty.tech/weshnet/v2/internal/vacct"
	"berty.tech/weshnet/v2/internal/vsched"
	"berty.tech/weshnet/v2/pkg/protocoltypes"
)

// C05 under overlapping calls: a device announces its chain key to several members at once (what a freshly joined
// device does), possibly while it seals its first message. Whatever the interleaving, every announcement opens to the
// chain key the sender actually uses, i.e. registering it lets the recipient open the sender's messages.
// (TestVerifCtl_* run in the unit whose secret_store_messages.go is instrumented with schedule points.)

type c05cScenario struct {
	Kind       int  `json:"kind"`
	Recipients int  `json:"recipients"`   // tasks calling GetShareableChainKey, one per recipient
	Sealer     bool `json:"sealer"`       // one more task seals a message meanwhile
	PutGroup   bool `json:"put_group"`    // the sender recorded the group before (then the chain key already exists)
}

func c05cRun(t *testing.T, sc c05cScenario, choices []int) vsched.Outcome {
	var out vsched.Outcome
	var S *vDev
	var g *protocoltypes.Group
	var recips []*vDev
	anns := make([][]byte, sc.Recipients)
	var errs []string
	var early []byte
	var earlyPayload = []byte("sealed while announcing")
	out.Res = vsched.Run(t, vsched.Options{Choices: choices, MaxSteps: 4000}, func(s *vsched.Sched) {
		ds := newRecDS()
		S = vNewDevOn("S", ds, 100, 8)
		switch sc.Kind {
		case vKindAccount:
			g, _, _ = S.s.GetGroupForAccount()
			for i := 0; i < sc.Recipients; i++ {
				recips = append(recips, vSecondDevice(fmt.Sprintf("R%d", i), S, 100, 8))
			}
		case vKindContact:
			r := vNewDev("R0", 100, 8)
			g, _ = S.s.GetGroupForContact(r.account())
			recips = append(recips, r)
			for i := 1; i < sc.Recipients; i++ {
				recips = append(recips, vSecondDevice(fmt.Sprintf("R%d", i), r, 100, 8))
			}
		default:
			g, _, _ = protocoltypes.NewGroupMultiMember()
			for i := 0; i < sc.Recipients; i++ {
				recips = append(recips, vNewDev(fmt.Sprintf("R%d", i), 100, 8))
			}
		}
		for _, r := range recips {
			if err := r.s.PutGroup(vctx, g); err != nil {
				panic(err)
			}
		}
		if sc.PutGroup {
			if err := S.s.PutGroup(vctx, g); err != nil {
				panic(err)
			}
		}
		members := make([]*ownMemberDevice, len(recips))
		for i, r := range recips {
			members[i] = r.md(g)
		}
		_ = S.md(g) // the sender's own keys for the group exist (keystore accesses are not schedule points)
		ds.Hook = func(op, key string) {
			if strings.Contains(key, namespaceDeviceKeystore) {
				return
			}
			vsched.Yield("ds:" + op)
		}
		for i := range recips {
			s.Go(fmt.Sprintf("announce%d", i), func() {
				enc, err := S.s.GetShareableChainKey(vctx, g, members[i].Member())
				if err != nil {
					errs = append(errs, err.Error())
					return
				}
				anns[i] = enc
			})
		}
		if sc.Sealer {
			s.Go("sealer", func() {
				env, err := S.s.SealEnvelope(vctx, g, vWrap(earlyPayload))
				if err != nil {
					// sealing before the device's chain key exists is refused (the key is created by the first
					// announcement or when the group is recorded): not an error of the announcements
					if sc.PutGroup {
						errs = append(errs, err.Error())
					}
					return
				}
				early = env
			})
		}
		s.Cleanup = func() { ds.Hook = nil }
	})
	out.Standard()
	if len(errs) > 0 {
		out.Fail("announce-error", "a call failed under an overlapping schedule: %v", errs)
	}
	for _, st := range out.Res.Terminal {
		if st.State != "done" && out.Violation == "" {
			out.Fail("task-stuck", "task did not finish: %+v", st)
		}
	}
	if out.Violation != "" {
		return out
	}
	// every recipient registers what it was sent; the sender's next messages (and the one sealed meanwhile, if its
	// counter lies after the announcement's) open at every recipient
	var later [][]byte
	var laterP [][]byte
	for i := 0; i < 3; i++ {
		p := []byte(fmt.Sprintf("after-the-announcements-%d", i))
		later = append(later, vSeal(S, g, p))
		laterP = append(laterP, p)
	}
	for i, r := range recips {
		if err := r.s.RegisterChainKey(vctx, g, S.md(g).Device(), anns[i]); err != nil {
			out.Fail("recipient-cannot-open", "recipient %d cannot register the announcement addressed to it: %v", i, err)
			return out
		}
		for j, env := range later {
			o, err := vOpen(r, g, env, vCID(env))
			if err != nil {
				out.Fail("announced-key-not-in-use", "recipient %d registered the announcement addressed to it but cannot open message %d the sender sealed afterwards: %v", i, j+1, err)
				return out
			}
			if !bytes.Equal(o.Payload, laterP[j]) {
				out.Fail("wrong-payload", "recipient %d opens message %d to other content", i, j+1)
				return out
			}
		}
	}
	for _, st := range out.Res.Trace {
		if strings.HasSuffix(st.Point, "/wait") {
			out.NonTrivial = true
		}
	}
	_ = early
	if out.NonTrivial {
		out.Labels = append(out.Labels, "concurrent/contended-lock")
	}
	if !sc.PutGroup {
		out.Labels = append(out.Labels, "concurrent/first-use-of-the-chain-key")
	}
	return out
}

func TestVerifCtl_C05_ConcurrentAnnouncements(t *testing.T) {
	e := &vsched.Explorer[c05cScenario]{PID: "C05", Prefix: "concurrent", Test: "TestVerifCtl_C05_ConcurrentAnnouncements", Run: c05cRun}
	if p := vacct.ReplayPath(); p != "" {
		e.Replay(t, p)
		return
	}
	scs := []c05cScenario{{Kind: vKindMulti, Recipients: 2}, {Kind: vKindMulti, Recipients: 1, Sealer: true}, {Kind: vKindContact, Recipients: 2}, {Kind: vKindMulti, Recipients: 2, PutGroup: true}}
	maxRuns, maxPre := 1500, 2
	if vacct.Thorough() {
		scs = append(scs, c05cScenario{Kind: vKindMulti, Recipients: 3}, c05cScenario{Kind: vKindAccount, Recipients: 2, Sealer: true}, c05cScenario{Kind: vKindMulti, Recipients: 2, Sealer: true})
		maxRuns, maxPre = 40000, 3
	}
	shard, nshards := vacct.Shard()
	for i, sc := range scs {
		if i%nshards == shard {
			e.DFS(t, sc, maxPre, maxRuns)
		}
	}
}

func TestVerifCtl_C05_ConcurrentAnnouncementsRandom(t *testing.T) {
	e := &vsched.Explorer[c05cScenario]{PID: "C05", Prefix: "concurrent", Test: "TestVerifCtl_C05_ConcurrentAnnouncementsRandom", Run: c05cRun}
	if p := vacct.ReplayPath(); p != "" {
		e.Replay(t, p)
		return
	}
	e.Random(t, vacct.N(150, 10000), func(rt *rapid.T) c05cScenario {
		return c05cScenario{Kind: rapid.IntRange(0, 2).Draw(rt, "kind"), Recipients: rapid.IntRange(1, 3).Draw(rt, "recipients"), Sealer: rapid.Bool().Draw(rt, "sealer"), PutGroup: rapid.IntRange(0, 3).Draw(rt, "putgroup") == 0}
	}, 300)
}
