//go:build verif

package secretstore

import (
	"bytes"
	"fmt"
	"testing"

	"pgregory.net/rapid"

	"berty.tech/weshnet/v2/internal/vacct"
	"berty.tech/weshnet/v2/pkg/protocoltypes"
)

// C05 (crypto half): chain-key announcements are recipient-only and exact.

var c05Counters = []uint64{0, 1, 2, 20, 126, 127, 128, 129, 300, 16383, 16384, 16385, 1 << 21, 1 << 32, 1 << 40}

func TestVerif_C05_Announcements(t *testing.T) {
	acct := vacct.Get("C05")
	vacct.RapidCheck(t, vacct.N(150, 60000), func(rt *rapid.T) {
		kind := rapid.IntRange(0, 2).Draw(rt, "kind")
		W := rapid.SampledFrom([]int{3, 100}).Draw(rt, "window")
		w := vNewGroupWorld(kind, W, 4)
		g := w.g
		S, R := w.S, w.R
		var trace []string
		fail := func(id, f string, a ...any) {
			msg := fmt.Sprintf(f, a...)
			acct.Violation("crypto/"+id, "TestVerif_C05_Announcements", map[string]any{"kind": vKindNames[kind], "window": W, "trace": trace, "msg": msg})
			rt.Fatalf("%s: %s\n%v", id, msg, trace)
		}
		gpk := vGroupPK(g)
		sDev := S.md(g).Device()
		// the announcement is produced at an arbitrary point of the sender's history: j real messages,
		// then the stored counter is moved to a (possibly large) value c >= j
		j := rapid.IntRange(0, 3).Draw(rt, "sent-before")
		var before [][]byte
		for i := 0; i < j; i++ {
			before = append(before, vSeal(S, g, []byte(fmt.Sprintf("before-%d", i))))
		}
		c := uint64(j)
		if rapid.Bool().Draw(rt, "jump") {
			c = rapid.SampledFrom(c05Counters).Draw(rt, "counter")
			if c < uint64(j) {
				c = uint64(j)
			}
			ck, err := S.s.getDeviceChainKeyForGroupAndDevice(vctx, gpk, sDev)
			if err != nil {
				rt.Fatalf("harness: %v", err)
			}
			ck.Counter = c
			if err := S.s.putDeviceChainKey(vctx, gpk, sDev, ck); err != nil {
				rt.Fatalf("harness: %v", err)
			}
		}
		trace = append(trace, fmt.Sprintf("announcement for R sealed at counter %d after %d real messages", c, j))
		atSeal, _ := S.s.getDeviceChainKeyForGroupAndDevice(vctx, gpk, sDev)
		enc, err := S.s.GetShareableChainKey(vctx, g, R.md(g).Member())
		if err != nil {
			fail("seal-error", "GetShareableChainKey: %v", err)
		}
		n := rapid.IntRange(1, 4).Draw(rt, "after")
		var after, afterP [][]byte
		for i := 0; i < n; i++ {
			p := []byte(fmt.Sprintf("after-%d", i))
			after, afterP = append(after, vSeal(S, g, p)), append(afterP, p)
		}
		known := func(d *vDev, grp *protocoltypes.Group, dev *vDev) bool {
			return d.s.IsChainKeyKnownForDevice(vctx, vGroupPK(grp), dev.md(grp).Device())
		}

		// ---- negatives first (they must leave the recipient able to register honestly afterwards)
		negatives := 0
		neg := func(label string, who *vDev, grp *protocoltypes.Group, claimed *vDev, ct []byte) {
			negatives++
			err := who.s.RegisterChainKey(vctx, grp, claimed.md(grp).Device(), ct)
			trace = append(trace, fmt.Sprintf("negative %s -> err=%v", label, err != nil))
			if err == nil {
				fail("opened-by-wrong-party/"+label, "announcement accepted although %s", label)
			}
			if who.s.IsChainKeyKnownForDevice(vctx, vGroupPK(grp), claimed.md(grp).Device()) && !(claimed == who) {
				fail("rejected-but-registered/"+label, "a rejected announcement left the chain key registered")
			}
		}
		// another member / outsider
		outsider := vNewDev("O", W, 4)
		_ = outsider.s.PutGroup(vctx, g)
		if kind == vKindMulti {
			neg("recipient is another member", w.M, g, S, enc)
			neg("recipient is another member (outsider account)", outsider, g, S, enc)
		} else if kind == vKindContact {
			// S's own account's second device is a member of the contact group, but not the addressed member
			s2 := vSecondDevice("S2", S, W, 4)
			_ = s2.s.PutGroup(vctx, g)
			neg("recipient is the other member of the contact group", s2, g, S, enc)
		} else {
			neg("recipient is an outsider account", outsider, vNewAccountGroupFor(outsider), S, enc)
		}
		// another claimed sender
		neg("claimed sender is another device", R, g, w.M, enc)
		// another group in which both parties are members with the same keys (account <-> contact), or a second multi-member group
		var g2 *protocoltypes.Group
		switch kind {
		case vKindAccount:
			peer := vNewDev("peer", W, 4)
			g2, _ = S.s.GetGroupForContact(peer.account())
		case vKindContact:
			g2, _, _ = protocoltypes.NewGroupMultiMember()
		default:
			g2, _, _ = protocoltypes.NewGroupMultiMember()
		}
		_ = S.s.PutGroup(vctx, g2)
		_ = R.s.PutGroup(vctx, g2)
		if kind == vKindAccount {
			// same member key and same device key in g2: only the group binding separates the two
			neg("presented in another group (same member and device keys)", R, g2, S, enc)
		} else {
			neg("presented in another group", R, g2, S, enc)
		}
		// alterations
		for bit := 0; bit < len(enc)*8; bit++ {
			neg(fmt.Sprintf("bit %d flipped", bit), R, g, S, c01Flip(enc, bit))
			trace = trace[:len(trace)-1]
		}
		trace = append(trace, fmt.Sprintf("all %d single-bit flips rejected", len(enc)*8))
		neg("truncated by one byte", R, g, S, enc[:len(enc)-1])
		neg("extended by one byte", R, g, S, append(append([]byte(nil), enc...), 0))
		neg("empty", R, g, S, nil)

		// ---- the intended recipient
		if known(R, g, S) {
			fail("known-before-registration", "chain key reported as known before any registration")
		}
		dec, err := decryptDeviceChainKey(enc, g, R.md(g).member, sDev)
		if err != nil {
			fail("recipient-cannot-open", "the intended recipient cannot open the announcement sealed at counter %d: %v", c, err)
		}
		if dec.Counter != atSeal.Counter || !bytes.Equal(dec.ChainKey, atSeal.ChainKey) {
			fail("not-exact", "announcement opens to counter %d / another chain key, sender had counter %d at sealing time", dec.Counter, atSeal.Counter)
		}
		if err := R.s.RegisterChainKey(vctx, g, sDev, enc); err != nil {
			fail("recipient-cannot-register", "RegisterChainKey by the intended recipient failed (counter %d): %v", c, err)
		}
		if !known(R, g, S) {
			fail("registered-but-unknown", "IsChainKeyKnownForDevice false after a successful registration")
		}
		// exactly the sender's subsequent messages open
		for i, env := range before {
			if _, err := vOpen(R, g, env, vCID(env)); err == nil {
				fail("earlier-message-opens", "message %d sealed before the announcement (counter %d) opens", i+1, c)
			}
		}
		for i, env := range after {
			o, err := vOpen(R, g, env, vCID(env))
			if err != nil {
				fail("later-message-rejected", "message sealed after the announcement (counter %d) does not open: %v", c+uint64(i)+1, err)
			}
			if !bytes.Equal(o.Payload, afterP[i]) || o.Counter != c+uint64(i)+1 {
				fail("later-message-wrong", "message %d opened to counter %d payload %q", c+uint64(i)+1, o.Counter, o.Payload)
			}
		}
		big := c >= 128
		acct.Case(true, fmt.Sprintf("%d|%d|%d|%d|%d", kind, W, c, j, n), func() any {
			return map[string]any{"kind": vKindNames[kind], "window": W, "announcement_counter": c, "real_messages_before": j, "messages_after": n, "negatives": negatives, "trace": trace}
		}, "crypto", "crypto/kind="+vKindNames[kind], lbl(big, "crypto/counter>=128"), lbl(c >= 1<<32, "crypto/counter>=2^32"), lbl(j > 0, "crypto/messages-before-announcement"))
		acct.LabelN("crypto/negatives", int64(negatives))
	})
}

func vNewAccountGroupFor(d *vDev) *protocoltypes.Group {
	g, _, err := d.s.GetGroupForAccount()
	if err != nil {
		panic(err)
	}
	return g
}
