//go:build verif

package secretstore

import (
	"bytes"
	"fmt"
	"strings"
	"testing"

	"github.com/ipfs/go-datastore"
	"pgregory.net/rapid"

	"berty.tech/weshnet/v2/internal/vacct"
	"berty.tech/weshnet/v2/pkg/protocoltypes"
)

// C02: receiver ratchet tolerates any arrival order and duplication.

// ratchetModel is the reference written from the property statement.
type ratchetModel struct {
	W          int
	registered bool
	c          uint64
	opened     map[uint64]bool
}

func (m *ratchetModel) clone() *ratchetModel {
	n := &ratchetModel{W: m.W, registered: m.registered, c: m.c, opened: map[uint64]bool{}}
	for k := range m.opened {
		n.opened[k] = true
	}
	return n
}

// openable says whether an attempt on counter k succeeds now.
func (m *ratchetModel) openable(k uint64) bool {
	if !m.registered {
		return false
	}
	if m.opened[k] {
		return true
	}
	return k > m.c && k <= m.c+uint64(m.W)+uint64(len(m.opened))
}

func (m *ratchetModel) bound() uint64 { return m.c + uint64(m.W) + uint64(len(m.opened)) }

type c02Sender struct {
	dev      *vDev
	envs     [][]byte // envs[i] has counter i+1
	payloads [][]byte
	anns     map[uint64][]byte // announcement for the receiver taken after j messages
}

// c02Setup seals n messages and takes an announcement for R at every counter.
func c02Setup(g *protocoltypes.Group, s, r *vDev, n int) *c02Sender {
	snd := &c02Sender{dev: s, anns: map[uint64][]byte{}}
	take := func(j uint64) {
		enc, err := s.s.GetShareableChainKey(vctx, g, r.md(g).Member())
		if err != nil {
			panic(err)
		}
		snd.anns[j] = enc
	}
	take(0)
	for i := 1; i <= n; i++ {
		p := []byte(fmt.Sprintf("%s-message-%d", s.name, i))
		if i%3 == 2 {
			p = []byte{} // the rule is about counters: a message without content takes its slot like any other
		}
		snd.envs = append(snd.envs, vSeal(s, g, p))
		snd.payloads = append(snd.payloads, p)
		take(uint64(i))
	}
	return snd
}

type c02Ctx struct {
	acct   *vacct.Acct
	test   string
	g      *protocoltypes.Group
	snd    *c02Sender
	W      int
	fail   func(id, msg string, hist []string)
	nodes  int64
	ntKeys map[string]bool
}

// c02Apply performs one operation on a receiver store built over ds and checks it against the model.
// op: "m<k>" attempt on counter k; "r<j>" registration of the announcement taken at counter j.
func c02Apply(x *c02Ctx, ds datastore.Datastore, m *ratchetModel, op string, hist []string) (edge, dup, ooo bool) {
	r := vNewDevOn("R", ds, x.W, 8)
	var k uint64
	fmt.Sscanf(op[1:], "%d", &k)
	if op[0] == 'r' {
		err := r.s.RegisterChainKey(vctx, x.g, x.snd.dev.md(x.g).Device(), x.snd.anns[k])
		if err != nil {
			x.fail("register-error", fmt.Sprintf("RegisterChainKey(announcement@%d) failed: %v", k, err), hist)
		}
		if !m.registered {
			m.registered, m.c = true, k
		}
		return
	}
	env := x.snd.envs[k-1]
	want := m.openable(k)
	edge = m.registered && !m.opened[k] && (k == m.bound() || k == m.bound()+1)
	dup = m.opened[k]
	if want && !m.opened[k] {
		for j := m.c + 1; j < k; j++ {
			if !m.opened[j] {
				ooo = true
			}
		}
	}
	o, err := vOpen(r, x.g, env, vCID(env))
	if want && err != nil {
		x.fail("openable-rejected", fmt.Sprintf("message %d must open (registered at %d, window %d, %d opened, already opened=%v) but failed: %v", k, m.c, m.W, len(m.opened), m.opened[k], err), hist)
	}
	// the statement gives a sufficient condition above the registered counter ("openable as soon as");
	// only messages sealed at or before it, and anything before registration, must never open
	if !want && err == nil && (!m.registered || k <= m.c) {
		x.fail("unopenable-accepted", fmt.Sprintf("message %d must never open (registered=%v at %d) but did", k, m.registered, m.c), hist)
	}
	if err == nil {
		if !bytes.Equal(o.Payload, x.snd.payloads[k-1]) || o.Counter != k {
			x.fail("wrong-payload", fmt.Sprintf("message %d opened to counter %d payload %q", k, o.Counter, o.Payload), hist)
		}
		m.opened[k] = true
	}
	return
}

func c02Tree(x *c02Ctx, ds datastore.Datastore, m *ratchetModel, alphabet []string, depth int, hist []string, flags [3]bool) {
	if depth == 0 {
		nt := flags[0] && flags[1] && flags[2]
		x.acct.Case(nt, fmt.Sprintf("W%d|%s", x.W, strings.Join(hist, ",")), func() any {
			return map[string]any{"kind": "exhaustive", "window": x.W, "history": append([]string(nil), hist...)}
		}, "tree/leaf", lbl(flags[0], "tree/edge-attempt"), lbl(flags[1], "tree/duplicate"), lbl(flags[2], "tree/out-of-order-success"))
		return
	}
	for _, op := range alphabet {
		ds2 := vDSCopy(ds)
		m2 := m.clone()
		h2 := append(append([]string(nil), hist...), op)
		e, d, o := c02Apply(x, ds2, m2, op, h2)
		x.nodes++
		c02Tree(x, ds2, m2, alphabet, depth-1, h2, [3]bool{flags[0] || e, flags[1] || d, flags[2] || o})
	}
}

func TestVerif_C02_Exhaustive(t *testing.T) {
	acct := vacct.Get("C02")
	n, depth := 4, 5
	windows := []int{1, 2, 3}
	if vacct.Thorough() {
		n, depth = 5, 6
		windows = []int{1, 2, 3, 4}
	}
	shard, nshards := vacct.Shard()
	combo := 0
	failed := false
	for _, W := range windows {
		for c := 0; c <= n-1; c++ {
			for alt := 0; alt <= c; alt++ { // the second announcement in the alphabet: same (alt==c) or older
				combo++
				if combo%nshards != shard || failed {
					continue
				}
				S := vNewDev("S", W, 8)
				R := vNewDev("R", W, 8)
				g, _, _ := protocoltypes.NewGroupMultiMember()
				_ = S.s.PutGroup(vctx, g)
				_ = R.s.PutGroup(vctx, g)
				// make sure R's keys exist before snapshots are taken
				_ = R.md(g)
				snd := c02Setup(g, S, R, n)
				x := &c02Ctx{acct: acct, g: g, snd: snd, W: W}
				x.fail = func(id, msg string, hist []string) {
					if failed {
						return
					}
					failed = true
					acct.Violation("exhaustive/"+id, "TestVerif_C02_Exhaustive", map[string]any{"window": W, "n": n, "history": hist, "msg": msg})
					t.Errorf("C02 %s: %s (window %d history %v)", id, msg, W, hist)
				}
				alphabet := []string{fmt.Sprintf("r%d", c)}
				if alt != c {
					alphabet = append(alphabet, fmt.Sprintf("r%d", alt))
				}
				for k := 1; k <= n; k++ {
					alphabet = append(alphabet, fmt.Sprintf("m%d", k))
				}
				func() {
					defer func() {
						if p := recover(); p != nil && !failed {
							panic(p)
						}
					}()
					c02Tree(x, R.ds, &ratchetModel{W: W, opened: map[uint64]bool{}}, alphabet, depth, nil, [3]bool{})
				}()
				acct.Note(fmt.Sprintf("tree/W=%d/c=%d/alt=%d", W, c, alt), map[string]any{"nodes": x.nodes, "alphabet": alphabet, "depth": depth})
			}
		}
	}
	if !failed {
		acct.SetExhaustive(true)
	}
}

// ---- random tier: default window, long histories, several senders

func TestVerif_C02_Random(t *testing.T) {
	acct := vacct.Get("C02")
	vacct.RapidCheck(t, vacct.N(60, 15000), func(rt *rapid.T) {
		W := rapid.SampledFrom([]int{100, 100, 7}).Draw(rt, "window")
		nS := rapid.IntRange(1, 2).Draw(rt, "senders")
		// either independent sender devices on one multi-member group, or ONE sender device known on two groups
		// (account group and a one-to-one group of a multi-device account; the receiver is the sibling device)
		sameDevice := rapid.IntRange(0, 3).Draw(rt, "sameDevice") == 0
		type sender struct {
			snd   *c02Sender
			model *ratchetModel
			n     int
			g     *protocoltypes.Group
		}
		var senders []*sender
		maxN := 300
		if W == 7 {
			maxN = 40
		}
		var R *vDev
		if sameDevice {
			nS = 2
			S := vNewDev("S0", W, 8)
			R = vSecondDevice("R", S, W, 8)
			ga, _, _ := S.s.GetGroupForAccount()
			gc, _ := S.s.GetGroupForContact(vNewDev("C", 4, 4).account())
			for _, g := range []*protocoltypes.Group{ga, gc} {
				_ = R.s.PutGroup(vctx, g)
				_ = S.s.PutGroup(vctx, g)
				n := rapid.IntRange(1, min(maxN, 60)).Draw(rt, "n")
				senders = append(senders, &sender{snd: c02Setup(g, S, R, n), model: &ratchetModel{W: W, opened: map[uint64]bool{}}, n: n, g: g})
			}
		} else {
			R = vNewDev("R", W, 8)
			g, _, _ := protocoltypes.NewGroupMultiMember()
			_ = R.s.PutGroup(vctx, g)
			for i := 0; i < nS; i++ {
				S := vNewDev(fmt.Sprintf("S%d", i), W, 8)
				_ = S.s.PutGroup(vctx, g)
				n := rapid.IntRange(1, maxN).Draw(rt, "n")
				senders = append(senders, &sender{snd: c02Setup(g, S, R, n), model: &ratchetModel{W: W, opened: map[uint64]bool{}}, n: n, g: g})
			}
		}
		var hist []string
		fail := func(id, f string, a ...any) {
			msg := fmt.Sprintf(f, a...)
			acct.Violation("random/"+id, "TestVerif_C02_Random", map[string]any{"window": W, "history": hist, "msg": msg})
			rt.Fatalf("%s: %s\nhistory: %v", id, msg, hist)
		}
		edge, dup, ooo, rereg, pushFirst := false, false, false, false, false
		attempt := func(si int, k uint64) bool {
			s := senders[si]
			m := s.model
			want := m.openable(k)
			if m.registered && !m.opened[k] && (k == m.bound() || k == m.bound()+1) {
				edge = true
			}
			if m.opened[k] {
				dup = true
			}
			env := s.snd.envs[k-1]
			o, err := vOpen(R, s.g, env, vCID(env))
			hist = append(hist, fmt.Sprintf("s%d:m%d=%v", si, k, err == nil))
			if want && err != nil {
				fail("openable-rejected", "sender %d message %d must open (registered at %d, window %d, %d opened) but failed: %v", si, k, m.c, W, len(m.opened), err)
			}
			if !want && err == nil && (!m.registered || k <= m.c) {
				fail("unopenable-accepted", "sender %d message %d must never open (registered=%v at %d) but did", si, k, m.registered, m.c)
			}
			if err == nil {
				if !bytes.Equal(o.Payload, s.snd.payloads[k-1]) || o.Counter != k {
					fail("wrong-payload", "sender %d message %d opened to counter %d payload %q", si, k, o.Counter, o.Payload)
				}
				if !m.opened[k] {
					for j := m.c + 1; j < k; j++ {
						if !m.opened[j] {
							ooo = true
						}
					}
				}
				m.opened[k] = true
			}
			return err == nil
		}
		register := func(si int, j uint64) {
			s := senders[si]
			if err := R.s.RegisterChainKey(vctx, s.g, s.snd.dev.md(s.g).Device(), s.snd.anns[j]); err != nil {
				fail("register-error", "RegisterChainKey(sender %d announcement@%d): %v", si, j, err)
			}
			hist = append(hist, fmt.Sprintf("s%d:reg@%d", si, j))
			if !s.model.registered {
				s.model.registered, s.model.c = true, j
			} else {
				rereg = true
			}
		}
		// the registration counter and its position in the history
		steps := rapid.IntRange(10, 400).Draw(rt, "steps")
		regAt := make([]int, nS)
		for i, s := range senders {
			s.model.c = 0
			regAt[i] = rapid.IntRange(0, steps/4).Draw(rt, "regAt")
		}
		cursor := make([]uint64, nS) // "in order" pointer per sender
		for st := 0; st < steps; st++ {
			si := rapid.IntRange(0, nS-1).Draw(rt, "si")
			s := senders[si]
			if st >= regAt[si] && !s.model.registered {
				register(si, uint64(rapid.IntRange(0, min(s.n, 5)).Draw(rt, "c")))
				cursor[si] = s.model.c
				continue
			}
			switch rapid.IntRange(0, 10).Draw(rt, "what") {
			case 10: // the next messages also arrive outside the store first (push); what the push path answers is C14's
				// subject, here it must simply not disturb the store path
				for k := cursor[si] + 1; k <= cursor[si]+uint64(rapid.IntRange(1, 3).Draw(rt, "pushes")) && k <= uint64(s.n); k++ {
					_, _, _, _, err := R.s.OpenOutOfStoreMessage(vctx, c14Push(s.snd.dev, s.g, s.snd.envs[k-1]))
					hist = append(hist, fmt.Sprintf("s%d:push%d=%v", si, k, err == nil))
					if err == nil && !s.model.opened[k] {
						pushFirst = true
					}
				}
			case 0, 1, 2, 3: // next in order
				if cursor[si] < uint64(s.n) {
					cursor[si]++
					attempt(si, cursor[si])
				}
			case 4: // local shuffle: a few ahead
				k := cursor[si] + uint64(rapid.IntRange(1, 4).Draw(rt, "ahead"))
				if k >= 1 && k <= uint64(s.n) {
					attempt(si, k)
				}
			case 5: // burst at the window edge
				if s.model.registered {
					b := s.model.bound()
					for _, k := range []uint64{b + 1, b, b - 1} {
						if k >= 1 && k <= uint64(s.n) {
							attempt(si, k)
						}
					}
				}
			case 6: // duplicate of something already tried
				if cursor[si] >= 1 {
					attempt(si, uint64(rapid.IntRange(1, int(cursor[si])).Draw(rt, "dup")))
				}
			case 7: // anything
				attempt(si, uint64(rapid.IntRange(1, s.n).Draw(rt, "any")))
			case 8: // re-delivery of the same or an older announcement
				if s.model.registered {
					register(si, uint64(rapid.IntRange(0, int(s.model.c)).Draw(rt, "older")))
				}
			case 9: // a message sealed before the registered counter
				if s.model.registered && s.model.c >= 1 {
					attempt(si, uint64(rapid.IntRange(1, int(s.model.c)).Draw(rt, "old")))
				}
			}
		}
		// completion: retried in order, everything sealed after the registration opens
		for si, s := range senders {
			if !s.model.registered {
				register(si, 0)
			}
			for k := s.model.c + 1; k <= uint64(s.n); k++ {
				if !s.model.openable(k) {
					fail("model-gap", "harness: in-order completion is not openable at %d", k)
				}
				attempt(si, k)
			}
			for k := uint64(1); k <= s.model.c; k++ {
				if attempt(si, k) {
					fail("unopenable-accepted", "message %d sealed before registration (at %d) opened", k, s.model.c)
				}
			}
		}
		nt := edge && dup && ooo
		acct.Case(nt, fmt.Sprintf("W%d|%s", W, strings.Join(hist, ",")), func() any {
			return map[string]any{"kind": "random", "window": W, "senders": nS, "history": hist}
		}, "random", lbl(edge, "random/edge-attempt"), lbl(dup, "random/duplicate"), lbl(ooo, "random/out-of-order-success"), lbl(rereg, "random/re-registration"), lbl(nS > 1, "random/two-senders"), lbl(pushFirst, "random/push-before-store"), lbl(sameDevice, "random/same-sender-device-on-two-groups"))
	})
}
