//go:build verif

package secretstore

import (
	"fmt"
	"strings"
	"testing"

	"pgregory.net/rapid"

	"berty.tech/weshnet/v2/internal/vacct"
	"berty.tech/weshnet/v2/internal/vsched"
	"berty.tech/weshnet/v2/pkg/protocoltypes"
)

// C11 under overlapping first uses: the account, proof, device and member keys are created lazily by whichever call
// needs them first. Whatever the interleaving of such calls on a fresh store, every caller is handed the keys the
// store keeps: asking again gives the same answer, the contact derives the same contact group from the store's
// account key, and a device restored from the exported keys derives the same member key.
// (runs in the unit whose device_keystore_wrapper.go is instrumented with schedule points)

type c11cScenario struct {
	Ops []string `json:"ops"` // one task each: account-key | proof-key | contact-group | member-device | export | account-group
}

func c11cRun(t *testing.T, sc c11cScenario, choices []int) vsched.Outcome {
	var out vsched.Outcome
	S := vNewDev("S", 4, 4)
	X := vNewDev("X", 4, 4)
	xPK := X.account()
	mm, _, _ := protocoltypes.NewGroupMultiMember()
	do := func(op string) (string, error) {
		switch op {
		case "account-key":
			sk, err := S.s.GetAccountPrivateKey()
			if err != nil {
				return "", err
			}
			return fmt.Sprintf("%x", vRaw(sk.GetPublic())), nil
		case "proof-key":
			pk, err := S.s.GetAccountProofPublicKey()
			if err != nil {
				return "", err
			}
			return fmt.Sprintf("%x", vRaw(pk)), nil
		case "contact-group":
			g, err := S.s.GetGroupForContact(xPK)
			if err != nil {
				return "", err
			}
			return c11GroupSig(g), nil
		case "member-device":
			md, err := S.s.GetOwnMemberDeviceForGroup(mm)
			if err != nil {
				return "", err
			}
			return fmt.Sprintf("%x/%x", vRaw(md.Member()), vRaw(md.Device())), nil
		case "export":
			a, b, err := S.s.ExportAccountKeysForBackup()
			if err != nil {
				return "", err
			}
			return fmt.Sprintf("%x/%x", a, b), nil
		default:
			g, _, err := S.s.GetGroupForAccount()
			if err != nil {
				return "", err
			}
			return c11GroupSig(g), nil
		}
	}
	got := make([]string, len(sc.Ops))
	var errs []string
	out.Res = vsched.Run(t, vsched.Options{Choices: choices, MaxSteps: 3000}, func(s *vsched.Sched) {
		for i, op := range sc.Ops {
			s.Go(fmt.Sprintf("task%d-%s", i, op), func() {
				r, err := do(op)
				if err != nil {
					errs = append(errs, op+": "+err.Error())
					return
				}
				got[i] = r
			})
		}
	})
	out.Standard()
	if len(errs) > 0 {
		out.Fail("first-use-error", "a first use failed under an overlapping schedule: %v", errs)
	}
	for _, st := range out.Res.Terminal {
		if st.State != "done" && out.Violation == "" {
			out.Fail("task-stuck", "task did not finish: %+v", st)
		}
	}
	if out.Violation != "" {
		return out
	}
	for i, op := range sc.Ops {
		again, err := do(op)
		if err != nil || again != got[i] {
			out.Fail("first-use-result-not-kept", "%s: the overlapping first use was handed %s, asking again gives %s (err %v)", op, trunc([]byte(got[i]), 60), trunc([]byte(again), 60), err)
			return out
		}
	}
	// both sides of the contact pair, and a device restored from the backup
	gs, err1 := S.s.GetGroupForContact(xPK)
	gx, err2 := X.s.GetGroupForContact(S.account())
	if err1 != nil || err2 != nil || c11GroupSig(gs) != c11GroupSig(gx) {
		out.Fail("contact-group-differs", "after overlapping first uses the store and its contact derive different contact groups (%v %v)", err1, err2)
		return out
	}
	a, b, err := S.s.ExportAccountKeysForBackup()
	if err != nil {
		out.Fail("first-use-error", "export: %v", err)
		return out
	}
	D := vNewDev("D", 4, 4)
	if err := D.s.ImportAccountKeys(a, b); err != nil {
		out.Fail("first-use-error", "import of the exported keys: %v", err)
		return out
	}
	m1, _ := S.s.GetOwnMemberDeviceForGroup(mm)
	m2, _ := D.s.GetOwnMemberDeviceForGroup(mm)
	if m1 == nil || m2 == nil || !m1.Member().Equals(m2.Member()) {
		out.Fail("member-key-differs", "a device restored from the exported keys derives another member key than the store kept")
		return out
	}
	gd, _ := D.s.GetGroupForContact(xPK)
	if gd == nil || c11GroupSig(gd) != c11GroupSig(gs) {
		out.Fail("contact-group-differs", "a device restored from the exported keys derives another contact group")
		return out
	}
	for _, st := range out.Res.Trace {
		if strings.HasSuffix(st.Point, "/wait") {
			out.NonTrivial = true
		}
	}
	if out.NonTrivial {
		out.Labels = append(out.Labels, "concurrent/contended-keystore")
	}
	return out
}

var c11cOps = []string{"account-key", "proof-key", "contact-group", "member-device", "export", "account-group"}

func TestVerifCtl_C11_ConcurrentFirstUse(t *testing.T) {
	e := &vsched.Explorer[c11cScenario]{PID: "C11", Prefix: "concurrent", Test: "TestVerifCtl_C11_ConcurrentFirstUse", Run: c11cRun}
	if p := vacct.ReplayPath(); p != "" {
		e.Replay(t, p)
		return
	}
	var scs []c11cScenario
	for i, a := range c11cOps {
		for _, b := range c11cOps[i:] {
			scs = append(scs, c11cScenario{Ops: []string{a, b}})
		}
	}
	maxRuns, maxPre := 120, 2
	if vacct.Thorough() {
		for _, a := range c11cOps {
			scs = append(scs, c11cScenario{Ops: []string{a, "contact-group", "member-device"}})
		}
		maxRuns, maxPre = 5000, 3
	}
	shard, nshards := vacct.Shard()
	for i, sc := range scs {
		if i%nshards == shard {
			e.DFS(t, sc, maxPre, maxRuns)
		}
	}
}

func TestVerifCtl_C11_ConcurrentFirstUseRandom(t *testing.T) {
	e := &vsched.Explorer[c11cScenario]{PID: "C11", Prefix: "concurrent", Test: "TestVerifCtl_C11_ConcurrentFirstUseRandom", Run: c11cRun}
	if p := vacct.ReplayPath(); p != "" {
		e.Replay(t, p)
		return
	}
	e.Random(t, vacct.N(150, 10000), func(rt *rapid.T) c11cScenario {
		return c11cScenario{Ops: rapid.SliceOfN(rapid.SampledFrom(c11cOps), 2, 3).Draw(rt, "ops")}
	}, 200)
}
