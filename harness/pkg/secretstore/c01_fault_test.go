//go:build verif

package secretstore

import (
	"bytes"
	"fmt"
	"strings"
	"testing"

	"pgregory.net/rapid"

	"berty.tech/weshnet/v2/internal/vacct"
)

// C01, positive clause with a transient storage failure on the receiver: one write (put, delete or batch commit) of
// the bookkeeping done while a genuine message is opened fails once. That open may report the error; the same envelope
// presented again (the message store re-parks and retries it) opens to the original payload, and so do the sender's
// next messages.
func TestVerif_C01_TransientWriteFailure(t *testing.T) {
	acct := vacct.Get("C01")
	vacct.RapidCheck(t, vacct.N(120, 12000), func(rt *rapid.T) {
		kind := rapid.SampledFrom([]int{vKindAccount, vKindMulti}).Draw(rt, "kind") // (a one-to-one group has no third store)
		window := rapid.SampledFrom([]int{2, 8, 100}).Draw(rt, "window")
		w := vNewGroupWorld(kind, window, 8)
		g := w.g
		ds := newRecDS()
		ds.NoBatch = rapid.IntRange(0, 3).Draw(rt, "nobatch") == 0
		R := vNewDevOn("R2", ds, window, 8)
		if kind == vKindAccount {
			a, b, err := w.S.s.ExportAccountKeysForBackup()
			if err != nil {
				rt.Fatalf("harness: %v", err)
			}
			if err := R.s.ImportAccountKeys(a, b); err != nil {
				rt.Fatalf("harness: %v", err)
			}
		}
		if err := R.s.PutGroup(vctx, g); err != nil {
			rt.Fatalf("harness: %v", err)
		}
		if err := vShare(g, w.S, R); err != nil {
			rt.Fatalf("harness: %v", err)
		}
		n := rapid.IntRange(2, 4).Draw(rt, "n")
		var envs, pays [][]byte
		for i := 0; i < n; i++ {
			p := []byte(fmt.Sprintf("genuine-%d", i))
			envs, pays = append(envs, vSeal(w.S, g, p)), append(pays, p)
		}
		target := rapid.IntRange(0, n-1).Draw(rt, "target")
		failAt := rapid.IntRange(1, 5).Draw(rt, "failAt") // the n-th mutation of the open (or the n-th read when reads fail)
		reads := rapid.IntRange(0, 2).Draw(rt, "reads") == 0
		if reads {
			failAt = rapid.IntRange(1, 9).Draw(rt, "failAtRead")
		}
		desc := map[string]any{"kind": vKindNames[kind], "window": window, "non_batching": ds.NoBatch, "messages": n, "faulty_open_of": target, "failing_access": failAt, "failing_access_is_a_read": reads}
		fail := func(id, f string, a ...any) {
			msg := fmt.Sprintf(f, a...)
			pfx := "write-fault/"
			if reads {
				pfx = "read-fault/"
			}
			acct.Violation(pfx+id, "TestVerif_C01_TransientWriteFailure", map[string]any{"case": desc, "msg": msg})
			rt.Fatalf("C01 %s%s: %s (%v)", pfx, id, msg, desc)
		}
		fired := false
		for i := 0; i < n; i++ {
			if i == target {
				seen := 0
				hit := func() bool {
					seen++
					if seen == failAt && !fired {
						fired = true
						return true
					}
					return false
				}
				if reads {
					ds.FailGet = func(key string) bool {
						// records of the message path only (the keystore is read by the harness as well)
						for _, ns := range []string{dsNamespaceChainKeyForDeviceOnGroup, dsNamespacePrecomputedMessageKeys, dsNamespaceMessageKeyForCIDs, dsNamespaceGroupDatastore} {
							if strings.Contains(key, ns) {
								return hit()
							}
						}
						return false
					}
				} else {
					ds.FailPut = func(string) bool { return hit() }
					ds.FailCommit = func([]string) bool { return hit() }
				}
			}
			o, err := vOpen(R, g, envs[i], vCID(envs[i]))
			ds.FailPut, ds.FailCommit, ds.FailGet = nil, nil, nil
			if err != nil {
				if i != target || !fired {
					fail("honest-rejected", "genuine message %d does not open although no storage failure was injected into that open: %v", i, err)
				}
				// the retry
				o, err = vOpen(R, g, envs[i], vCID(envs[i]))
				if err != nil {
					fail("honest-rejected-after-transient-failure", "after one failed storage access during the first open (access %d, read=%v), the same genuine envelope is rejected when presented again: %v", failAt, reads, err)
				}
			}
			if !bytes.Equal(o.Payload, pays[i]) {
				fail("wrong-payload", "genuine message %d opens to other content", i)
			}
		}
		for i := 0; i < n; i++ {
			if o, err := vOpen(R, g, envs[i], vCID(envs[i])); err != nil || !bytes.Equal(o.Payload, pays[i]) {
				fail("honest-rejected-after-transient-failure", "re-opening genuine message %d after the session fails: %v", i, err)
			}
		}
		acct.Case(fired, fmt.Sprintf("wf|%d|%d|%v|%d|%d|%d|%v", kind, window, ds.NoBatch, n, target, failAt, reads), func() any { return desc }, "write-fault", lbl(fired && !reads, "write-fault/fired"), lbl(fired && reads, "read-fault/fired"))
	})
}
