//go:build verif

package secretstore

import (
	"fmt"
	"strings"
	"testing"

	"pgregory.net/rapid"

	"berty.tech/weshnet/v2/internal/vacct"
	"berty.tech/weshnet/v2/pkg/protocoltypes"
)

// C11 with a transient read failure of the keystore: one read of an existing key fails with an I/O error during one
// call. The call may fail; the account must remain the same account: exported keys, account group, contact groups and
// member keys read afterwards are the ones in use before (and the ones a device restored earlier derives).
func TestVerif_C11_TransientReadError(t *testing.T) {
	acct := vacct.Get("C11")
	vacct.RapidCheck(t, vacct.N(150, 20000), func(rt *rapid.T) {
		ds := newRecDS()
		S := vNewDevOn("S", ds, 4, 4)
		X := vNewDev("X", 4, 4)
		mm, _, _ := protocoltypes.NewGroupMultiMember()
		identity := func() (string, error) {
			a, b, err := S.s.ExportAccountKeysForBackup()
			if err != nil {
				return "", err
			}
			ga, _, err := S.s.GetGroupForAccount()
			if err != nil {
				return "", err
			}
			gc, err := S.s.GetGroupForContact(X.account())
			if err != nil {
				return "", err
			}
			md, err := S.s.GetOwnMemberDeviceForGroup(mm)
			if err != nil {
				return "", err
			}
			return fmt.Sprintf("keys=%x/%x account-group=%s contact-group=%s member=%x device=%x", a, b, c11GroupSig(ga), c11GroupSig(gc), vRaw(md.Member()), vRaw(md.Device())), nil
		}
		// what exists before the fault (a generated subset: the rest is created lazily later)
		pre := rapid.SampledFrom([]string{"everything", "account-only", "account-and-contact"}).Draw(rt, "pre")
		switch pre {
		case "everything":
			if _, err := identity(); err != nil {
				rt.Fatalf("harness: %v", err)
			}
		case "account-only":
			_, _, _ = S.s.ExportAccountKeysForBackup()
		default:
			_, _, _ = S.s.ExportAccountKeysForBackup()
			_, _ = S.s.GetGroupForContact(X.account())
		}
		a0, b0, err := S.s.ExportAccountKeysForBackup()
		if err != nil {
			rt.Fatalf("harness: %v", err)
		}
		sibling := vNewDev("sibling", 4, 4)
		if err := sibling.s.ImportAccountKeys(a0, b0); err != nil {
			rt.Fatalf("harness: %v", err)
		}
		// the fault: the n-th read of a key whose name contains `which` fails once
		which := rapid.SampledFrom([]string{"accountSK", "accountProofSK", "deviceSK", "memberDeviceSK", "contactGroupSK", "memberSK"}).Draw(rt, "which")
		nth := rapid.IntRange(1, 2).Draw(rt, "nth")
		seen, fired := 0, false
		ds.FailGet = func(key string) bool {
			if fired || !strings.Contains(key, namespaceDeviceKeystore) || !strings.Contains(key, which) {
				return false
			}
			seen++
			if seen == nth {
				fired = true
				return true
			}
			return false
		}
		op := rapid.SampledFrom([]string{"account-key", "export", "account-group", "contact-group", "member-device", "proof-key"}).Draw(rt, "op")
		var opErr error
		switch op {
		case "account-key":
			_, opErr = S.s.GetAccountPrivateKey()
		case "export":
			_, _, opErr = S.s.ExportAccountKeysForBackup()
		case "account-group":
			_, _, opErr = S.s.GetGroupForAccount()
		case "contact-group":
			_, opErr = S.s.GetGroupForContact(X.account())
		case "member-device":
			_, opErr = S.s.GetOwnMemberDeviceForGroup(mm)
		default:
			_, opErr = S.s.GetAccountProofPublicKey()
		}
		ds.FailGet = nil
		desc := map[string]any{"existing_before": pre, "failing_read": which, "nth": nth, "during": op, "fault_fired": fired, "call_failed": opErr != nil}
		fail := func(id, f string, a ...any) {
			msg := fmt.Sprintf(f, a...)
			acct.Violation("read-fault/"+id, "TestVerif_C11_TransientReadError", map[string]any{"case": desc, "msg": msg})
			rt.Fatalf("C11 read-fault/%s: %s (%v)", id, msg, desc)
		}
		a1, b1, err := S.s.ExportAccountKeysForBackup()
		if err != nil {
			fail("store-unusable", "after a transient read failure the account keys cannot be exported: %v", err)
		}
		if fmt.Sprintf("%x/%x", a1, b1) != fmt.Sprintf("%x/%x", a0, b0) {
			fail("identity-changed", "one failed read of %q during %s and the store is another account: the exported keys changed", which, op)
		}
		// the same derivations as a device restored from the keys exported before the fault
		gs, e1 := S.s.GetGroupForContact(X.account())
		gd, e2 := sibling.s.GetGroupForContact(X.account())
		if e1 != nil || e2 != nil || c11GroupSig(gs) != c11GroupSig(gd) {
			fail("contact-group-differs", "after the failed read the store and a device restored from its earlier backup derive different contact groups (%v %v)", e1, e2)
		}
		ms, e1 := S.s.GetOwnMemberDeviceForGroup(mm)
		md, e2 := sibling.s.GetOwnMemberDeviceForGroup(mm)
		if e1 != nil || e2 != nil || !ms.Member().Equals(md.Member()) {
			fail("member-key-differs", "after the failed read the store and a device restored from its earlier backup derive different member keys (%v %v)", e1, e2)
		}
		ga, _, e1 := S.s.GetGroupForAccount()
		gb, _, e2 := sibling.s.GetGroupForAccount()
		if e1 != nil || e2 != nil || c11GroupSig(ga) != c11GroupSig(gb) {
			fail("account-group-differs", "after the failed read the account group differs from the one a restored device derives (%v %v)", e1, e2)
		}
		acct.Case(fired, fmt.Sprintf("fault|%s|%s|%d|%s", pre, which, nth, op), func() any { return desc }, "read-fault", lbl(fired, "read-fault/fired"), lbl(fired && opErr != nil, "read-fault/call-failed"))
	})
}
