//go:build verif

package secretstore

import (
	"bytes"
	"fmt"
	"runtime"
	"sync"
	"sync/atomic"
	"testing"

	"pgregory.net/rapid"

	"berty.tech/weshnet/v2/internal/vacct"
)

// C01, positive clause under overlapping sends: whatever the interleaving in which one device seals, every envelope
// it was handed opens, on a member holding its chain key, to the payload that was sealed, attributed to that device.
// (Counter discipline itself is C09; here only "opens to the original payload".)
func TestVerif_C01_ConcurrentSeal(t *testing.T) {
	acct := vacct.Get("C01")
	runtime.GOMAXPROCS(16)
	vacct.RapidCheck(t, vacct.N(25, 1500), func(rt *rapid.T) {
		kind := rapid.IntRange(0, 2).Draw(rt, "kind")
		N := rapid.IntRange(2, 12).Draw(rt, "N")
		M := rapid.IntRange(1, 8).Draw(rt, "M")
		big := rapid.SampledFrom([]int{0, 200, 32 << 10}).Draw(rt, "payloadSize")
		seed := rapid.Uint64().Draw(rt, "delaySeed")
		w := c09NewWorld([]int{kind}, rapid.IntRange(0, 2).Draw(rt, "pre"))
		g := w.groups[0]
		var opIdx atomic.Uint64
		w.ds.Hook = func(op, key string) {
			i := opIdx.Add(1)
			x := (i + seed) * 0x9E3779B97F4A7C15
			for r := (x >> 60) & 3; r > 0; r-- {
				runtime.Gosched()
			}
		}
		var inflight, maxInflight atomic.Int32
		var mu sync.Mutex
		var sent []c09Sent
		var errs []string
		start := make(chan struct{})
		var wg sync.WaitGroup
		for ti := 0; ti < N; ti++ {
			wg.Add(1)
			go func() {
				defer wg.Done()
				<-start
				for mi := 0; mi < M; mi++ {
					p := append([]byte(fmt.Sprintf("t%d-m%d-", ti, mi)), bytes.Repeat([]byte{byte(ti*16 + mi)}, big)...)
					n := inflight.Add(1)
					for {
						o := maxInflight.Load()
						if n <= o || maxInflight.CompareAndSwap(o, n) {
							break
						}
					}
					env, err := w.S.s.SealEnvelope(vctx, g, vWrap(p))
					inflight.Add(-1)
					mu.Lock()
					if err != nil {
						errs = append(errs, err.Error())
					} else {
						sent = append(sent, c09Sent{0, env, p})
					}
					mu.Unlock()
				}
			}()
		}
		close(start)
		wg.Wait()
		w.ds.Hook = nil
		desc := map[string]any{"kind": vKindNames[kind], "senders": N, "messages_each": M, "payload_bytes": big, "delay_seed": seed}
		fail := func(id, f string, a ...any) {
			msg := fmt.Sprintf(f, a...)
			acct.Violation("concurrent-seal/"+id, "TestVerif_C01_ConcurrentSeal", map[string]any{"scenario": desc, "msg": msg})
			rt.Fatalf("C01 concurrent-seal/%s: %s (%v)", id, msg, desc)
		}
		if len(errs) > 0 {
			rt.Fatalf("harness: SealEnvelope failed: %v", errs) // sealing errors are C09's subject
		}
		// the receiver opens in any order of arrival: here the order in which the calls returned
		dev := vRaw(w.S.md(g).Device())
		for pass := 0; pass < 2; pass++ {
			for i, s := range sent {
				o, err := vOpen(w.R, g, s.env, vCID(s.env))
				if err != nil {
					fail("honest-rejected", "envelope %d of %d (payload %q), sealed by an honest device while other sends were in flight, does not open (pass %d): %v", i, len(sent), trunc(s.payload, 16), pass, err)
				}
				if !bytes.Equal(o.Payload, s.payload) {
					fail("wrong-payload", "envelope %d opens to %q, sealed %q", i, trunc(o.Payload, 16), trunc(s.payload, 16))
				}
				if !bytes.Equal(o.Device, dev) {
					fail("wrong-device", "envelope %d attributed to another device", i)
				}
			}
		}
		overlap := maxInflight.Load() >= 2
		acct.Case(overlap, fmt.Sprintf("cs|%d|%d|%d|%d", kind, N, M, big), func() any {
			return map[string]any{"kind": "concurrent-seal", "scenario": desc, "max_in_flight": maxInflight.Load()}
		}, "concurrent-seal", lbl(overlap, "concurrent-seal/overlapping"))
	})
}
