//go:build verif

package secretstore

import (
	"bytes"
	"fmt"
	"runtime"
	"sort"
	"strings"
	"sync"
	"sync/atomic"
	"testing"

	"google.golang.org/protobuf/proto"
	"pgregory.net/rapid"

	"berty.tech/weshnet/v2/internal/vacct"
	"berty.tech/weshnet/v2/internal/vsched"
	"berty.tech/weshnet/v2/pkg/protocoltypes"
)

// C09: concurrent sends never reuse a counter, key or nonce; chain only moves forward.

type c09Sent struct {
	group   int
	env     []byte
	payload []byte
}

type c09World struct {
	S, R   *vDev
	R2     *vDev // a further receiving device (of R's account) with a key window of 3, reading in completion order
	ds     *recDS
	groups []*protocoltypes.Group
	c0     []uint64
}

// c09NewWorld: sender on a recording datastore, 1-3 groups (one of each type at most), a receiver that
// registers the sender's chain key after `pre` sequential messages.
func c09NewWorld(kinds []int, pre int) *c09World {
	w := &c09World{ds: newRecDS()}
	w.S = vNewDevOn("S", w.ds, 100, 8)
	for _, k := range kinds {
		var g *protocoltypes.Group
		switch k {
		case vKindAccount:
			g, _, _ = w.S.s.GetGroupForAccount()
			if w.R == nil {
				w.R = vSecondDevice("R", w.S, 100, 8)
			}
		case vKindContact:
			if w.R == nil {
				w.R = vNewDev("R", 100, 8)
			}
			g, _ = w.S.s.GetGroupForContact(w.R.account())
		default:
			g, _, _ = protocoltypes.NewGroupMultiMember()
			if w.R == nil {
				w.R = vNewDev("R", 100, 8)
			}
		}
		w.groups = append(w.groups, g)
	}
	w.R2 = vSecondDevice("R2", w.R, 3, 8)
	for _, g := range w.groups {
		if err := w.S.s.PutGroup(vctx, g); err != nil {
			panic(err)
		}
		if err := w.R.s.PutGroup(vctx, g); err != nil {
			panic(err)
		}
		if err := w.R2.s.PutGroup(vctx, g); err != nil {
			panic(err)
		}
		for i := 0; i < pre; i++ {
			vSeal(w.S, g, []byte("pre"))
		}
		if err := vShare(g, w.S, w.R); err != nil {
			panic(err)
		}
		if err := vShare(g, w.S, w.R2); err != nil {
			panic(err)
		}
		ck, err := w.S.s.getDeviceChainKeyForGroupAndDevice(vctx, vGroupPK(g), w.S.md(g).Device())
		if err != nil {
			panic(err)
		}
		w.c0 = append(w.c0, ck.Counter)
	}
	return w
}

// c09Judge checks the envelopes returned by the concurrent senders.
func c09Judge(w *c09World, sent []c09Sent, decreases []string) (id, msg string) {
	if len(decreases) > 0 {
		return "counter-decreased", strings.Join(decreases, "; ")
	}
	for gi, g := range w.groups {
		type item struct {
			k   uint64
			s   c09Sent
			dev []byte
		}
		var items []item
		for _, s := range sent {
			if s.group != gi {
				continue
			}
			_, hdr, err := w.R.s.OpenEnvelopeHeaders(s.env, g)
			if err != nil {
				return "headers-unreadable", fmt.Sprintf("group %d: %v", gi, err)
			}
			items = append(items, item{hdr.Counter, s, hdr.DevicePk})
		}
		sort.Slice(items, func(i, j int) bool { return items[i].k < items[j].k })
		var ks []uint64
		for _, it := range items {
			ks = append(ks, it.k)
		}
		for i, it := range items {
			if i > 0 && items[i-1].k == it.k {
				return "counter-reused", fmt.Sprintf("group %d: counter %d protects two payloads (%q and %q); counters %v", gi, it.k, trunc(items[i-1].s.payload, 20), trunc(it.s.payload, 20), ks)
			}
			if it.k != w.c0[gi]+uint64(i)+1 {
				return "counter-gap", fmt.Sprintf("group %d: counters %v are not the gap-free run starting at %d", gi, ks, w.c0[gi]+1)
			}
			if !bytes.Equal(it.dev, vRaw(w.S.md(g).Device())) {
				return "wrong-device", fmt.Sprintf("group %d counter %d attributed to another device", gi, it.k)
			}
		}
		for _, it := range items {
			o, err := vOpen(w.R, g, it.s.env, vCID(it.s.env))
			if err != nil {
				return "receiver-cannot-open", fmt.Sprintf("group %d counter %d: %v", gi, it.k, err)
			}
			if !bytes.Equal(o.Payload, it.s.payload) {
				return "receiver-wrong-payload", fmt.Sprintf("group %d counter %d opens to %q, sealed %q", gi, it.k, trunc(o.Payload, 30), trunc(it.s.payload, 30))
			}
		}
		// a receiver with a small key window reads the envelopes in the order in which they were handed out (the order
		// of the log, not of the counters), retrying what is not openable yet after every success, as the message store
		// does: in the end every envelope has opened
		pending := []c09Sent{}
		for _, s := range sent {
			if s.group == gi && w.R2 != nil {
				pending = append(pending, s)
			}
		}
		for progress := true; progress && len(pending) > 0; {
			progress = false
			var still []c09Sent
			for _, s := range pending {
				o, err := vOpen(w.R2, g, s.env, vCID(s.env))
				if err != nil {
					still = append(still, s)
					continue
				}
				progress = true
				if !bytes.Equal(o.Payload, s.payload) {
					return "receiver-wrong-payload", fmt.Sprintf("group %d: an envelope opens to %q, sealed %q, on the receiver reading in completion order", gi, trunc(o.Payload, 30), trunc(s.payload, 30))
				}
			}
			pending = still
		}
		if len(pending) > 0 {
			_, hdr, _ := w.R2.s.OpenEnvelopeHeaders(pending[0].env, g)
			return "receiver-cannot-open/completion-order", fmt.Sprintf("group %d: a receiver with a key window of 3 reading the %d envelopes in the order they were handed out (retrying after every success) is left with %d it cannot open, first counter %d", gi, len(items), len(pending), hdr.GetCounter())
		}
		// the stored counter ends at c0 + number of sends
		ck, err := w.S.s.getDeviceChainKeyForGroupAndDevice(vctx, vGroupPK(g), w.S.md(g).Device())
		if err != nil || ck.Counter != w.c0[gi]+uint64(len(items)) {
			return "stored-counter", fmt.Sprintf("group %d: stored chain counter %v (err %v), expected %d", gi, ck.GetCounter(), err, w.c0[gi]+uint64(len(items)))
		}
	}
	return "", ""
}

// c09WatchCounters records decreases of stored chain-key counters, per datastore key.
func c09WatchCounters(ds *recDS) *[]string {
	var mu sync.Mutex
	last := map[string]uint64{}
	var dec []string
	ds.PutHook = func(key string, value []byte) {
		if !strings.Contains(key, dsNamespaceChainKeyForDeviceOnGroup) {
			return
		}
		ck := &protocoltypes.DeviceChainKey{}
		if proto.Unmarshal(value, ck) != nil {
			return
		}
		mu.Lock()
		if l, ok := last[key]; ok && ck.Counter < l {
			dec = append(dec, fmt.Sprintf("stored counter went from %d to %d", l, ck.Counter))
		}
		last[key] = ck.Counter
		mu.Unlock()
	}
	return &dec
}

func TestVerif_C09_Parallel(t *testing.T) {
	acct := vacct.Get("C09")
	runtime.GOMAXPROCS(16)
	vacct.RapidCheck(t, vacct.N(40, 2000), func(rt *rapid.T) {
		kinds := rapid.SampledFrom([][]int{{vKindMulti}, {vKindAccount}, {vKindContact}, {vKindMulti, vKindContact}, {vKindAccount, vKindMulti, vKindContact}}).Draw(rt, "kinds")
		N := rapid.IntRange(2, 16).Draw(rt, "N")
		M := rapid.IntRange(1, 12).Draw(rt, "M")
		pre := rapid.IntRange(0, 3).Draw(rt, "pre")
		seed := rapid.Uint64().Draw(rt, "delaySeed")
		readBack := rapid.Bool().Draw(rt, "readBack")
		// in a third of the cases the write of the sender's own chain-key record fails now and then: a send that
		// reports an error produced no envelope, everything said about the envelopes handed out still holds
		failEvery := uint64(0)
		if rapid.IntRange(0, 2).Draw(rt, "failingWrites") == 0 {
			failEvery = uint64(rapid.IntRange(2, 9).Draw(rt, "failEvery"))
		}
		w := c09NewWorld(kinds, pre)
		dec := c09WatchCounters(w.ds)
		var opIdx atomic.Uint64
		w.ds.Hook = func(op, key string) {
			i := opIdx.Add(1)
			x := (i + seed) * 0x9E3779B97F4A7C15
			for r := (x >> 60) & 3; r > 0; r-- {
				runtime.Gosched()
			}
		}
		var failCtr, failed atomic.Uint64
		if failEvery > 0 {
			w.ds.FailPut = func(key string) bool {
				if !strings.Contains(key, dsNamespaceChainKeyForDeviceOnGroup) {
					return false
				}
				if (failCtr.Add(1)+seed)%failEvery == 0 {
					failed.Add(1)
					return true
				}
				return false
			}
		}
		var inflight, maxInflight atomic.Int32
		var mu sync.Mutex
		var sent []c09Sent
		var errs []string
		start := make(chan struct{})
		var wg sync.WaitGroup
		for ti := 0; ti < N; ti++ {
			wg.Add(1)
			go func() {
				defer wg.Done()
				<-start
				for mi := 0; mi < M; mi++ {
					gi := (ti + mi) % len(w.groups)
					p := []byte(fmt.Sprintf("g%d-t%d-m%d", gi, ti, mi))
					n := inflight.Add(1)
					for {
						o := maxInflight.Load()
						if n <= o || maxInflight.CompareAndSwap(o, n) {
							break
						}
					}
					env, err := w.S.s.SealEnvelope(vctx, w.groups[gi], vWrap(p))
					inflight.Add(-1)
					if err == nil && readBack && (ti+mi)%3 == 0 {
						// ... and its own message may come back to it outside the store first (push relayed to all devices)
						_, _, _, _, _ = w.S.s.OpenOutOfStoreMessage(vctx, c14Push(w.S, w.groups[gi], env))
					}
					if err == nil && readBack {
						// the sender's own message store opens every entry of the log, its own included
						if o, e2 := vOpen(w.S, w.groups[gi], env, vCID(env)); e2 != nil || !bytes.Equal(o.Payload, p) {
							err = fmt.Errorf("own envelope does not open on the sender: %v", e2)
						} else {
							// (the message store then moves the push reference window of that device, its own included)
							_ = w.S.s.UpdateOutOfStoreGroupReferences(vctx, o.Device, o.Counter, w.groups[gi])
						}
					}
					mu.Lock()
					if err != nil {
						if failEvery == 0 || !strings.Contains(err.Error(), "injected datastore write failure") {
							errs = append(errs, err.Error())
						}
					} else {
						sent = append(sent, c09Sent{gi, env, p})
					}
					mu.Unlock()
				}
			}()
		}
		close(start)
		wg.Wait()
		w.ds.Hook = nil
		w.ds.FailPut = nil
		desc := map[string]any{"failing_chain_key_writes": failed.Load(), "kinds": kinds, "senders": N, "messages_each": M, "pre": pre, "delay_seed": seed, "read_back": readBack}
		if len(errs) > 0 {
			acct.Violation("parallel/seal-error", "TestVerif_C09_Parallel", map[string]any{"scenario": desc, "errors": errs})
			rt.Fatalf("SealEnvelope failed under concurrency: %v", errs)
		}
		if id, msg := c09Judge(w, sent, *dec); id != "" {
			acct.Violation("parallel/"+id, "TestVerif_C09_Parallel", map[string]any{"scenario": desc, "msg": msg})
			rt.Fatalf("%s: %s (%v)", id, msg, desc)
		}
		overlap := maxInflight.Load() >= 2
		acct.Case(overlap, fmt.Sprintf("%v|%d|%d|%d|%d|%v", kinds, N, M, pre, seed, readBack), func() any { return map[string]any{"kind": "parallel", "scenario": desc, "max_in_flight": maxInflight.Load()} },
			"parallel", lbl(overlap, "parallel/overlapping-sends"), lbl(len(kinds) > 1, "parallel/several-groups"), lbl(readBack, "parallel/read-back"), lbl(failed.Load() > 0, "parallel/failing-chain-key-writes"))
	})
}

// ---- controlled tier: every interleaving of datastore accesses is reachable

type c09Scenario struct {
	Kind    int   `json:"kind"`
	Senders []int `json:"senders"` // messages sealed by each task
	Pre     int   `json:"pre"`
	// the sender opens each of its own envelopes right after sealing it, as its message store does for every log entry
	ReadBack bool `json:"read_back,omitempty"`
}

func c09Controlled(t *testing.T, sc c09Scenario, choices []int) vsched.Outcome {
	var out vsched.Outcome
	var w *c09World
	var sent []c09Sent
	var errs []string
	var dec *[]string
	out.Res = vsched.Run(t, vsched.Options{Choices: choices, MaxSteps: 3000}, func(s *vsched.Sched) {
		w = c09NewWorld([]int{sc.Kind}, sc.Pre)
		dec = c09WatchCounters(w.ds)
		w.ds.Hook = func(op, key string) {
			if strings.Contains(key, namespaceDeviceKeystore) {
				return // the keystore holds its own (uninstrumented) mutex around these
			}
			vsched.Yield("ds:" + op)
		}
		for ti, cnt := range sc.Senders {
			s.Go(fmt.Sprintf("task%d", ti), func() {
				for mi := 0; mi < cnt; mi++ {
					p := []byte(fmt.Sprintf("t%d-m%d", ti, mi))
					env, err := w.S.s.SealEnvelope(vctx, w.groups[0], vWrap(p))
					if err != nil {
						errs = append(errs, err.Error())
						return
					}
					sent = append(sent, c09Sent{0, env, p})
					if sc.ReadBack && mi%2 == 0 {
						_, _, _, _, _ = w.S.s.OpenOutOfStoreMessage(vctx, c14Push(w.S, w.groups[0], env))
					}
					if sc.ReadBack {
						o, err := vOpen(w.S, w.groups[0], env, vCID(env))
						if err != nil || !bytes.Equal(o.Payload, p) {
							errs = append(errs, fmt.Sprintf("own envelope does not open on the sender: %v", err))
							return
						}
						_ = w.S.s.UpdateOutOfStoreGroupReferences(vctx, o.Device, o.Counter, w.groups[0])
					}
				}
			})
		}
	})
	out.Standard()
	w.ds.Hook = nil
	if len(errs) > 0 {
		out.Fail("seal-error", "SealEnvelope failed: %v", errs)
	}
	for _, st := range out.Res.Terminal {
		if st.State != "done" && out.Violation == "" {
			out.Fail("task-stuck", "task did not finish: %+v", st)
		}
	}
	if out.Violation == "" {
		if id, msg := c09Judge(w, sent, *dec); id != "" {
			out.Fail(id, "%s", msg)
		}
	}
	for _, st := range out.Res.Trace {
		if strings.HasSuffix(st.Point, "/wait") {
			out.NonTrivial = true
		}
	}
	if out.NonTrivial {
		out.Labels = append(out.Labels, "controlled/contended-lock")
	}
	if sc.ReadBack {
		out.Labels = append(out.Labels, "controlled/read-back")
	}
	return out
}

func TestVerif_C09_Controlled(t *testing.T) {
	e := &vsched.Explorer[c09Scenario]{PID: "C09", Prefix: "controlled", Test: "TestVerif_C09_Controlled", Run: c09Controlled}
	if p := vacct.ReplayPath(); p != "" {
		e.Replay(t, p)
		return
	}
	scs := []c09Scenario{{Kind: vKindMulti, Senders: []int{1, 1}}, {Kind: vKindAccount, Senders: []int{1, 1}, Pre: 1}, {Kind: vKindContact, Senders: []int{2, 1}},
		{Kind: vKindMulti, Senders: []int{2, 1}, ReadBack: true}}
	maxRuns, maxPre := 4000, 3
	if vacct.Thorough() {
		scs = append(scs, c09Scenario{Kind: vKindMulti, Senders: []int{1, 1, 1}}, c09Scenario{Kind: vKindMulti, Senders: []int{2, 2}, Pre: 2}, c09Scenario{Kind: vKindAccount, Senders: []int{2, 1, 1}})
		maxRuns, maxPre = 60000, 3
	}
	shard, nshards := vacct.Shard()
	for i, sc := range scs {
		if i%nshards == shard {
			e.DFS(t, sc, maxPre, maxRuns)
		}
	}
}

func TestVerif_C09_ControlledRandom(t *testing.T) {
	e := &vsched.Explorer[c09Scenario]{PID: "C09", Prefix: "controlled", Test: "TestVerif_C09_ControlledRandom", Run: c09Controlled}
	if p := vacct.ReplayPath(); p != "" {
		e.Replay(t, p)
		return
	}
	e.Random(t, vacct.N(300, 20000), func(rt *rapid.T) c09Scenario {
		return c09Scenario{Kind: rapid.IntRange(0, 2).Draw(rt, "kind"), Senders: rapid.SliceOfN(rapid.IntRange(1, 2), 2, 3).Draw(rt, "senders"), Pre: rapid.IntRange(0, 2).Draw(rt, "pre"),
			ReadBack: rapid.Bool().Draw(rt, "readback")}
	}, 400)
}

// ---- first use: the device's own chain key is created lazily by whichever call needs it first (recording the group,
// announcing the key to a member). One task records the group, shares the key and sends; another announces the key to
// some member at the same time. The chain that the receiver was given is the one the envelopes are sealed with, and
// the stored counter never goes back.

type c09FirstUseScenario struct {
	Messages int  `json:"messages"`
	Lates    int  `json:"lates"` // tasks announcing the key meanwhile
	PutFirst bool `json:"put_first"`
}

func c09FirstUse(t *testing.T, sc c09FirstUseScenario, choices []int) vsched.Outcome {
	var out vsched.Outcome
	w := &c09World{ds: newRecDS()}
	var sent []c09Sent
	var errs []string
	var dec *[]string
	out.Res = vsched.Run(t, vsched.Options{Choices: choices, MaxSteps: 4000}, func(s *vsched.Sched) {
		w.S = vNewDevOn("S", w.ds, 100, 8)
		w.R = vNewDev("R", 100, 8)
		g, _, _ := protocoltypes.NewGroupMultiMember()
		w.groups = []*protocoltypes.Group{g}
		w.c0 = []uint64{0}
		_ = w.R.s.PutGroup(vctx, g)
		other := vNewDev("O", 100, 8)
		_ = other.s.PutGroup(vctx, g)
		_ = w.S.md(g)
		rMember, oMember := w.R.md(g).Member(), other.md(g).Member()
		dec = c09WatchCounters(w.ds)
		w.ds.Hook = func(op, key string) {
			if strings.Contains(key, namespaceDeviceKeystore) {
				return
			}
			vsched.Yield("ds:" + op)
		}
		s.Go("creator", func() {
			if sc.PutFirst {
				if err := w.S.s.PutGroup(vctx, g); err != nil {
					errs = append(errs, "PutGroup: "+err.Error())
					return
				}
			}
			enc, err := w.S.s.GetShareableChainKey(vctx, g, rMember)
			if err != nil {
				errs = append(errs, "GetShareableChainKey: "+err.Error())
				return
			}
			if err := w.R.s.RegisterChainKey(vctx, g, w.S.md(g).Device(), enc); err != nil {
				errs = append(errs, "RegisterChainKey: "+err.Error())
				return
			}
			for mi := 0; mi < sc.Messages; mi++ {
				p := []byte(fmt.Sprintf("m%d", mi))
				env, err := w.S.s.SealEnvelope(vctx, g, vWrap(p))
				if err != nil {
					errs = append(errs, "SealEnvelope: "+err.Error())
					return
				}
				sent = append(sent, c09Sent{0, env, p})
			}
		})
		for i := 0; i < sc.Lates; i++ {
			s.Go(fmt.Sprintf("late%d", i), func() {
				if _, err := w.S.s.GetShareableChainKey(vctx, g, oMember); err != nil {
					errs = append(errs, "GetShareableChainKey(late): "+err.Error())
				}
			})
		}
		s.Cleanup = func() { w.ds.Hook = nil }
	})
	out.Standard()
	w.ds.Hook = nil
	if len(errs) > 0 {
		out.Fail("first-use-error", "a call failed under an overlapping schedule: %v", errs)
	}
	for _, st := range out.Res.Terminal {
		if st.State != "done" && out.Violation == "" {
			out.Fail("task-stuck", "task did not finish: %+v", st)
		}
	}
	if out.Violation == "" {
		if id, msg := c09Judge(w, sent, *dec); id != "" {
			out.Fail(id, "%s", msg)
		}
	}
	for _, st := range out.Res.Trace {
		if strings.HasSuffix(st.Point, "/wait") {
			out.NonTrivial = true
		}
	}
	out.Labels = append(out.Labels, "controlled/first-use")
	return out
}

func TestVerif_C09_ControlledFirstUse(t *testing.T) {
	e := &vsched.Explorer[c09FirstUseScenario]{PID: "C09", Prefix: "controlled-first-use", Test: "TestVerif_C09_ControlledFirstUse", Run: c09FirstUse}
	if p := vacct.ReplayPath(); p != "" {
		e.Replay(t, p)
		return
	}
	scs := []c09FirstUseScenario{{Messages: 2, Lates: 1}, {Messages: 1, Lates: 1, PutFirst: true}}
	maxRuns, maxPre := 3000, 1
	if vacct.Thorough() {
		scs = append(scs, c09FirstUseScenario{Messages: 2, Lates: 2}, c09FirstUseScenario{Messages: 3, Lates: 1, PutFirst: true})
		maxRuns, maxPre = 40000, 2
	}
	shard, nshards := vacct.Shard()
	for i, sc := range scs {
		if i%nshards == shard {
			e.DFS(t, sc, maxPre, maxRuns)
		}
	}
}
