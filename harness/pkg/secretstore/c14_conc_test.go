//go:build verif

package secretstore

import (
	"bytes"
	"fmt"
	"strings"
	"testing"

	"pgregory.net/rapid"

	"berty.tech/weshnet/v2/internal/vacct"
	"berty.tech/weshnet/v2/internal/vsched"
	"berty.tech/weshnet/v2/pkg/protocoltypes"
)

// C14 under overlapping deliveries: the message store delivers entries of a sender through the log (open + update of
// the push reference window) while push payloads of the same sender are opened by another task. Whatever the
// interleaving, after one more log delivery every message strictly inside the reference window around the counter
// seen last opens from its push payload, and the log path delivered everything.
// (runs in the unit whose secret_store_messages.go is instrumented with schedule points)

type c14cScenario struct {
	R      int   `json:"refs"`    // reference window
	N      int   `json:"n"`       // messages sealed by the sender
	Seen   int   `json:"seen"`    // delivered through the log before the tasks start (in order)
	Log    []int `json:"log"`     // task A: entries delivered through the log, in this order (1-based message numbers)
	Pushes []int `json:"pushes"`  // task B: push payloads opened, in this order
}

func c14cRun(t *testing.T, sc c14cScenario, choices []int) vsched.Outcome {
	var out vsched.Outcome
	var recv, snd *vDev
	var g *protocoltypes.Group
	var envs, pays, pushes [][]byte
	var errs []string
	var dev []byte
	logDeliver := func(k int) error {
		o, err := vOpen(recv, g, envs[k-1], vCID(envs[k-1]))
		if err != nil {
			return fmt.Errorf("log open of #%d: %w", k, err)
		}
		if !bytes.Equal(o.Payload, pays[k-1]) {
			return fmt.Errorf("log open of #%d: other content", k)
		}
		return recv.s.UpdateOutOfStoreGroupReferences(vctx, dev, uint64(k), g)
	}
	out.Res = vsched.Run(t, vsched.Options{Choices: choices, MaxSteps: 6000}, func(s *vsched.Sched) {
		ds := newRecDS()
		recv = vNewDevOn("R", ds, 100, sc.R)
		snd = vNewDev("S", 100, sc.R)
		g, _, _ = protocoltypes.NewGroupMultiMember()
		_ = recv.s.PutGroup(vctx, g)
		_ = snd.s.PutGroup(vctx, g)
		if err := vShare(g, snd, recv); err != nil {
			panic(err)
		}
		dev = vRaw(snd.md(g).Device())
		for i := 1; i <= sc.N; i++ {
			p := []byte(fmt.Sprintf("message-%d", i))
			env := vSeal(snd, g, p)
			envs, pays, pushes = append(envs, env), append(pays, p), append(pushes, c14Push(snd, g, env))
		}
		for k := 1; k <= sc.Seen; k++ {
			if err := logDeliver(k); err != nil {
				panic(err)
			}
		}
		ds.Hook = func(op, key string) {
			if strings.Contains(key, namespaceDeviceKeystore) {
				return
			}
			vsched.Yield("ds:" + op)
		}
		s.Go("log", func() {
			for _, k := range sc.Log {
				if err := logDeliver(k); err != nil {
					errs = append(errs, err.Error())
					return
				}
			}
		})
		s.Go("push", func() {
			for _, k := range sc.Pushes {
				// what the push path answers while the window moves is not judged here
				_, _, _, _, _ = recv.s.OpenOutOfStoreMessage(vctx, pushes[k-1])
			}
		})
		s.Cleanup = func() { ds.Hook = nil }
	})
	out.Standard()
	if len(errs) > 0 {
		out.Fail("log-open-broken", "the log path failed while push payloads were opened: %v", errs)
	}
	for _, st := range out.Res.Terminal {
		if st.State != "done" && out.Violation == "" {
			out.Fail("task-stuck", "task did not finish: %+v", st)
		}
	}
	if out.Violation != "" {
		return out
	}
	// one more entry arrives through the log; then the window around it is complete
	last := sc.Seen
	for _, k := range sc.Log {
		if k > last {
			last = k
		}
	}
	next := last + 1
	if next > sc.N {
		out.Fail("harness-scenario", "no message left for the final log delivery")
		return out
	}
	if err := logDeliver(next); err != nil {
		out.Fail("log-open-broken", "log delivery of #%d after the overlapping phase: %v", next, err)
		return out
	}
	for k := 1; k <= sc.N; k++ {
		if !(k+sc.R > next && k < next+sc.R) || k > next+100 {
			continue
		}
		_, _, clear, _, err := recv.s.OpenOutOfStoreMessage(vctx, pushes[k-1])
		if err != nil {
			out.Fail("push-open-rejected", "after log delivery of #%d (reference window %d) the push payload of #%d, strictly inside the window, does not open: %v", next, sc.R, k, err)
			return out
		}
		if !bytes.Equal(clear, vWrap(pays[k-1])) && !bytes.Equal(clear, pays[k-1]) {
			out.Fail("push-open-wrong-payload", "push payload of #%d opens to other content", k)
			return out
		}
	}
	// non-trivial: the two tasks really interleaved inside the secret store
	lastG := ""
	switches := 0
	for _, st := range out.Res.Trace {
		if st.G != lastG && lastG != "" {
			switches++
		}
		lastG = st.G
	}
	out.NonTrivial = switches >= 2
	if out.NonTrivial {
		out.Labels = append(out.Labels, "concurrent/interleaved-log-and-push")
	}
	return out
}

func TestVerifCtl_C14_Concurrent(t *testing.T) {
	e := &vsched.Explorer[c14cScenario]{PID: "C14", Prefix: "concurrent", Test: "TestVerifCtl_C14_Concurrent", Run: c14cRun}
	if p := vacct.ReplayPath(); p != "" {
		e.Replay(t, p)
		return
	}
	scs := []c14cScenario{
		{R: 3, N: 8, Seen: 2, Log: []int{3}, Pushes: []int{4}},
		{R: 2, N: 7, Seen: 3, Log: []int{4}, Pushes: []int{5, 3}},
		{R: 3, N: 9, Seen: 1, Log: []int{2, 3}, Pushes: []int{3}},
		// a push far ahead of the log position: the two windows overlap only partly
		{R: 4, N: 12, Seen: 3, Log: []int{4}, Pushes: []int{7}},
		{R: 3, N: 10, Seen: 4, Log: []int{5}, Pushes: []int{7, 3}},
	}
	maxRuns, maxPre := 1200, 2
	if vacct.Thorough() {
		scs = append(scs, c14cScenario{R: 4, N: 12, Seen: 3, Log: []int{4, 5}, Pushes: []int{7, 2}}, c14cScenario{R: 2, N: 8, Seen: 2, Log: []int{3, 4}, Pushes: []int{4, 5}})
		maxRuns, maxPre = 40000, 3
	}
	shard, nshards := vacct.Shard()
	for i, sc := range scs {
		if i%nshards == shard {
			e.DFS(t, sc, maxPre, maxRuns)
		}
	}
}

func TestVerifCtl_C14_ConcurrentRandom(t *testing.T) {
	e := &vsched.Explorer[c14cScenario]{PID: "C14", Prefix: "concurrent", Test: "TestVerifCtl_C14_ConcurrentRandom", Run: c14cRun}
	if p := vacct.ReplayPath(); p != "" {
		e.Replay(t, p)
		return
	}
	e.Random(t, vacct.N(120, 8000), func(rt *rapid.T) c14cScenario {
		sc := c14cScenario{R: rapid.IntRange(2, 4).Draw(rt, "R"), Seen: rapid.IntRange(0, 4).Draw(rt, "seen")}
		nl := rapid.IntRange(1, 2).Draw(rt, "logs")
		for i := 1; i <= nl; i++ {
			sc.Log = append(sc.Log, sc.Seen+i)
		}
		sc.N = sc.Seen + nl + 1 + sc.R
		for i, n := 0, rapid.IntRange(1, 2).Draw(rt, "pushes"); i < n; i++ {
			lo, hi := max(1, sc.Seen-sc.R+1), min(sc.N, sc.Seen+nl+sc.R)
			sc.Pushes = append(sc.Pushes, rapid.OneOf(rapid.IntRange(lo, hi), rapid.IntRange(max(lo, hi-2), hi)).Draw(rt, "push"))
		}
		return sc
	}, 400)
}
