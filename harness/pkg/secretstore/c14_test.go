//go:build verif

package secretstore

import (
	"bytes"
	crand "crypto/rand"
	"fmt"
	"strings"
	"testing"

	"golang.org/x/crypto/nacl/secretbox"
	"google.golang.org/protobuf/proto"
	"pgregory.net/rapid"

	"berty.tech/weshnet/v2/internal/vacct"
	"berty.tech/weshnet/v2/pkg/protocoltypes"
)

// C14: push payloads open offline to the right message without disturbing the log path.

type c14Sender struct {
	dev   *vDev
	g     *protocoltypes.Group
	gi    int
	envs  [][]byte
	pay   [][]byte
	push  [][]byte
	model *ratchetModel
	L     uint64 // last counter announced to the reference table for this sender
	hasL  bool
	ck0   []byte // the chain key the receiver was given (the receiver plays the insider)
}

func c14Push(s *vDev, g *protocoltypes.Group, env []byte) []byte {
	me, hdr, err := s.s.OpenEnvelopeHeaders(env, g)
	if err != nil {
		panic(err)
	}
	oos, err := s.s.SealOutOfStoreMessageEnvelope(vCID(env), me, hdr, g)
	if err != nil {
		panic(err)
	}
	b, err := proto.Marshal(oos)
	if err != nil {
		panic(err)
	}
	return b
}

func TestVerif_C14_Sessions(t *testing.T) {
	acct := vacct.Get("C14")
	vacct.RapidCheck(t, vacct.N(250, 150000), func(rt *rapid.T) {
		small := rapid.IntRange(0, 3).Draw(rt, "small") != 0
		W, R := 100, 100
		if small {
			W, R = rapid.IntRange(2, 5).Draw(rt, "W"), rapid.IntRange(2, 5).Draw(rt, "R")
		}
		// shape of the session: independent senders on multi-member groups, or ONE sender device known on several groups
		// (the account group and one-to-one groups of a multi-device account: the receiver is the sibling device)
		sameDevice := rapid.IntRange(0, 3).Draw(rt, "sameDevice") == 0
		var recv, sibling *vDev
		nG := rapid.IntRange(1, 2).Draw(rt, "groups")
		var groups []*protocoltypes.Group
		if sameDevice {
			sibling = vNewDev("S0", W, R)
			recv = vSecondDevice("R", sibling, W, R)
			nG = rapid.IntRange(2, 3).Draw(rt, "groups-same-device")
			for i := 0; i < nG; i++ {
				var g *protocoltypes.Group
				if i == 0 && rapid.Bool().Draw(rt, "account-group") {
					g, _, _ = sibling.s.GetGroupForAccount()
				} else {
					g, _ = sibling.s.GetGroupForContact(vNewDev(fmt.Sprintf("C%d", i), 4, 4).account())
				}
				_ = recv.s.PutGroup(vctx, g)
				groups = append(groups, g)
			}
		} else {
			recv = vNewDev("R", W, R)
			for i := 0; i < nG; i++ {
				g, _, _ := protocoltypes.NewGroupMultiMember()
				_ = recv.s.PutGroup(vctx, g)
				groups = append(groups, g)
			}
		}
		nS := rapid.IntRange(1, 2).Draw(rt, "senders")
		if sameDevice {
			nS = nG
		}
		var snd []*c14Sender
		for i := 0; i < nS; i++ {
			var d *vDev
			gi := 0
			if sameDevice {
				d, gi = sibling, i
			} else {
				d = vNewDev(fmt.Sprintf("S%d", i), W, R)
				gi = rapid.IntRange(0, nG-1).Draw(rt, "gi")
			}
			g := groups[gi]
			_ = d.s.PutGroup(vctx, g)
			pre := rapid.IntRange(0, 2).Draw(rt, "pre")
			for j := 0; j < pre; j++ {
				vSeal(d, g, []byte("before-announcement"))
			}
			if err := vShare(g, d, recv); err != nil {
				rt.Fatalf("harness: %v", err)
			}
			ck0, err := d.s.getDeviceChainKeyForGroupAndDevice(vctx, vGroupPK(g), d.md(g).Device())
			if err != nil {
				rt.Fatalf("harness: %v", err)
			}
			s := &c14Sender{ck0: ck0.ChainKey, dev: d, g: g, gi: gi, model: &ratchetModel{W: W, registered: true, c: uint64(pre), opened: map[uint64]bool{}}}
			s.L, s.hasL = uint64(pre+W), true // registration announces the counter reached by the precomputation
			n := rapid.IntRange(1, 3*max(W, R)+4).Draw(rt, "n")
			if !small {
				n = rapid.IntRange(1, 40).Draw(rt, "n-default")
			}
			for j := 1; j <= n; j++ {
				p := []byte(fmt.Sprintf("s%d-m%d", i, j))
				env := vSeal(d, g, p)
				s.envs, s.pay, s.push = append(s.envs, env), append(s.pay, p), append(s.push, c14Push(d, g, env))
			}
			snd = append(snd, s)
		}
		var hist []string
		fail := func(id, f string, a ...any) {
			msg := fmt.Sprintf(f, a...)
			acct.Violation(id, "TestVerif_C14_Sessions", map[string]any{"window": W, "refs": R, "history": hist, "msg": msg})
			rt.Fatalf("%s: %s\nhistory: %v", id, msg, hist)
		}
		bothOrders := map[string]int{} // per message: bit0 = log first then push, bit1 = push first then log
		seenPush, seenLog := map[string]bool{}, map[string]bool{}
		nearEdge, tampered, pushTwice, forgedInsider := false, false, false, false

		logOpen := func(s *c14Sender, si, idx int) {
			k := s.model.c + uint64(idx) + 1 // counter of message idx (0-based) of this session
			want := s.model.openable(k)
			o, err := vOpen(recv, s.g, s.envs[idx], vCID(s.envs[idx]))
			hist = append(hist, fmt.Sprintf("log(s%d,#%d)=%v", si, k, err == nil))
			if want && err != nil {
				fail("log-open-broken", "message %d of sender %d must open through the log (registered at %d, window %d, %d opened via log) but failed: %v", k, si, s.model.c, W, len(s.model.opened), err)
			}
			if err == nil {
				if !bytes.Equal(o.Payload, s.pay[idx]) || o.Counter != k {
					fail("log-open-wrong", "log open of message %d returned counter %d payload %q", k, o.Counter, o.Payload)
				}
				s.model.opened[k] = true
				// the message store announces every log-opened message to the reference table
				if err := recv.s.UpdateOutOfStoreGroupReferences(vctx, vRaw(s.dev.md(s.g).Device()), k, s.g); err != nil {
					fail("refs-update-error", "UpdateOutOfStoreGroupReferences: %v", err)
				}
				s.L = k
				key := fmt.Sprintf("%d/%d", si, k)
				if seenPush[key] && !seenLog[key] {
					bothOrders[key] |= 2
				}
				seenLog[key] = true
			}
		}
		var handedOut [][2][]byte // cleartexts handed to the caller, with a copy taken at that moment
		pushOpen := func(s *c14Sender, si, idx int) {
			k := s.model.c + uint64(idx) + 1
			key := fmt.Sprintf("%d/%d", si, k)
			inWindow := k+uint64(R) > s.L && k < s.L+uint64(R) // strictly inside (L-R, L+R)
			if d := int64(k) - int64(s.L); d == int64(R)-1 || d == -int64(R)+1 || d == int64(R) || d == -int64(R) {
				nearEdge = true
			}
			openable := s.model.openable(k)
			oos, grp, clear, already, err := recv.s.OpenOutOfStoreMessage(vctx, s.push[idx])
			hist = append(hist, fmt.Sprintf("push(s%d,#%d,L=%d)=%v", si, k, s.L, err == nil))
			if inWindow && openable && err != nil {
				fail("push-open-rejected", "push payload of message %d (sender %d) must open: log-openable, counter within (%d-%d, %d+%d); error: %v", k, si, s.L, R, s.L, R, err)
			}
			if err == nil {
				if !bytes.Equal(clear, vWrap(s.pay[idx])) && !bytes.Equal(clear, s.pay[idx]) {
					fail("push-open-wrong-payload", "push payload of message %d opened to %q", k, clear)
				}
				handedOut = append(handedOut, [2][]byte{clear, append([]byte(nil), clear...)})
				if !bytes.Equal(oos.DevicePk, vRaw(s.dev.md(s.g).Device())) || oos.Counter != k {
					fail("push-open-wrong-attribution", "push payload of message %d attributed to device %x counter %d", k, oos.DevicePk, oos.Counter)
				}
				if grp == nil || !bytes.Equal(grp.PublicKey, s.g.PublicKey) {
					fail("push-open-wrong-group", "push payload of message %d mapped to another group", k)
				}
				if already != s.model.opened[k] {
					fail("already-received-untruthful", "push open of message %d reports alreadyReceived=%v but it was opened through the log: %v", k, already, s.model.opened[k])
				}
				if !openable {
					// no key can exist for it: counts as opening something that is not openable
					if k <= s.model.c {
						fail("push-open-before-registration", "push payload of message %d sealed before the registered counter %d opened", k, s.model.c)
					}
				}
				s.L = k
				if seenPush[key] {
					pushTwice = true
				}
				if seenLog[key] && !seenPush[key] {
					bothOrders[key] |= 1
				}
				seenPush[key] = true
			}
		}
		steps := rapid.IntRange(4, 60).Draw(rt, "steps")
		cursor := make([]int, nS)
		for st := 0; st < steps; st++ {
			si := rapid.IntRange(0, nS-1).Draw(rt, "si")
			s := snd[si]
			pick := func() int {
				switch rapid.IntRange(0, 3).Draw(rt, "pick") {
				case 0:
					return rapid.IntRange(0, len(s.envs)-1).Draw(rt, "any")
				case 1: // around the log window edge
					b := int(s.model.bound()-s.model.c) - 1 + rapid.IntRange(-1, 1).Draw(rt, "we")
					return min(max(b, 0), len(s.envs)-1)
				case 2: // around the reference window edge
					b := int(s.L) - int(s.model.c) - 1 + rapid.SampledFrom([]int{-R - 1, -R, -R + 1, R - 1, R, R + 1}).Draw(rt, "re")
					return min(max(b, 0), len(s.envs)-1)
				default:
					if cursor[si] < len(s.envs)-1 {
						cursor[si]++
					}
					return cursor[si]
				}
			}
			idx := pick()
			switch rapid.IntRange(0, 7).Draw(rt, "action") {
			case 7: // insider forgery: right message key (also for an already received message), no device signature
				k := s.model.c + uint64(idx) + 1
				forgedInsider = true
				mk := vMessageKeyAt(s.ck0, s.model.c, k, s.g.PublicKey)
				forged := vWrap([]byte("FORGED push content"))
				me, hdr, _ := s.dev.s.OpenEnvelopeHeaders(s.envs[idx], s.g)
				ownSig, _ := recv.md(s.g).device.Sign(forged)
				for _, sig := range [][]byte{ownSig, hdr.Sig, nil} {
					oos := &protocoltypes.OutOfStoreMessage{Cid: vCID(s.envs[idx]).Bytes(), DevicePk: hdr.DevicePk, Counter: k, Sig: sig,
						EncryptedPayload: vSealPayloadWithKey(mk, k, forged), Nonce: me.Nonce}
					data, _ := proto.Marshal(oos)
					var nonce [24]byte
					_, _ = crand.Read(nonce[:])
					ref, _ := createOutOfStoreGroupReference(s.g, hdr.DevicePk, k)
					b, _ := proto.Marshal(&protocoltypes.OutOfStoreMessageEnvelope{Nonce: nonce[:], Box: secretbox.Seal(nil, data, &nonce, s.g.GetSharedSecret()), GroupReference: ref})
					if _, _, clear, _, err := recv.s.OpenOutOfStoreMessage(vctx, b); err == nil {
						fail("forged-push-accepted", "push payload forged by a member without the sender's signing key was opened to %q (message %d, log-opened=%v)", clear, k, s.model.opened[k])
					}
				}
				hist = append(hist, fmt.Sprintf("forged-push(s%d,#%d)", si, k))
			case 0, 1:
				logOpen(s, si, idx)
			case 2, 3:
				pushOpen(s, si, idx)
			case 4: // both, in a generated order, push possibly twice
				if rapid.Bool().Draw(rt, "pushFirst") {
					pushOpen(s, si, idx)
					if rapid.Bool().Draw(rt, "twice") {
						pushOpen(s, si, idx)
					}
					logOpen(s, si, idx)
				} else {
					logOpen(s, si, idx)
					pushOpen(s, si, idx)
				}
			case 5: // altered push payload: every such payload is rejected and changes nothing
				tampered = true
				b := append([]byte(nil), s.push[idx]...)
				bit := rapid.IntRange(0, len(b)*8-1).Draw(rt, "bit")
				b[bit/8] ^= 1 << uint(bit%8)
				if _, _, _, _, err := recv.s.OpenOutOfStoreMessage(vctx, b); err == nil {
					fail("altered-push-accepted", "push payload with bit %d flipped was accepted", bit)
				}
				hist = append(hist, fmt.Sprintf("tampered(s%d,idx%d,bit%d)", si, idx, bit))
			case 6: // group reference of another group / another secret
				other, _, _ := protocoltypes.NewGroupMultiMember()
				me, hdr, _ := s.dev.s.OpenEnvelopeHeaders(s.envs[idx], s.g)
				oos, err := s.dev.s.SealOutOfStoreMessageEnvelope(vCID(s.envs[idx]), me, hdr, other)
				if err == nil {
					b, _ := proto.Marshal(oos)
					if _, _, _, _, err := recv.s.OpenOutOfStoreMessage(vctx, b); err == nil {
						fail("foreign-reference-accepted", "push payload sealed for an unknown group was accepted")
					}
				}
				// the genuine payload with the reference of another message counter far away
				var env2 protocoltypes.OutOfStoreMessageEnvelope
				_ = proto.Unmarshal(s.push[idx], &env2)
				env2.GroupReference = bytes.Repeat([]byte{0x42}, 32)
				b2, _ := proto.Marshal(&env2)
				if _, _, _, _, err := recv.s.OpenOutOfStoreMessage(vctx, b2); err == nil {
					fail("foreign-reference-accepted", "push payload with an unknown group reference was accepted")
				}
				hist = append(hist, fmt.Sprintf("foreign-ref(s%d,idx%d)", si, idx))
			}
		}
		// the log path is intact at the end: everything after the registered counter opens in order
		for si, s := range snd {
			for idx := range s.envs {
				k := s.model.c + uint64(idx) + 1
				if !s.model.openable(k) {
					fail("harness-model-gap", "in-order completion not openable at %d", k)
				}
				logOpen(s, si, idx)
			}
		}
		for i, h := range handedOut {
			if !bytes.Equal(h[0], h[1]) {
				fail("delivered-payload-changed", "the cleartext handed out by push open #%d of the session changed after later opens (%d bytes)", i, len(h[1]))
			}
		}
		both := 0
		for _, v := range bothOrders {
			both |= v
		}
		nt := both == 3 && nearEdge
		acct.Case(nt, fmt.Sprintf("%d|%d|%s", W, R, strings.Join(hist, ",")), func() any {
			return map[string]any{"kind": "session", "window": W, "refs": R, "senders": nS, "groups": nG, "history": hist}
		}, "sessions", lbl(both&1 != 0, "log-then-push"), lbl(both&2 != 0, "push-then-log"), lbl(pushTwice, "push-twice"), lbl(nearEdge, "near-reference-edge"), lbl(tampered, "tampered"), lbl(forgedInsider, "insider-forged-push"), lbl(nS > 1, "two-senders"), lbl(nG > 1, "two-groups"), lbl(!small, "default-windows"), lbl(sameDevice, "same-sender-device-on-several-groups"))
	})
}

// every single-bit flip of one push payload
func TestVerif_C14_AllBitFlips(t *testing.T) {
	acct := vacct.Get("C14")
	recv := vNewDev("R", 100, 100)
	d := vNewDev("S", 100, 100)
	g, _, _ := protocoltypes.NewGroupMultiMember()
	_ = recv.s.PutGroup(vctx, g)
	_ = d.s.PutGroup(vctx, g)
	if err := vShare(g, d, recv); err != nil {
		t.Fatal(err)
	}
	env := vSeal(d, g, []byte("payload for the bit flip sweep"))
	push := c14Push(d, g, env)
	for bit := 0; bit < len(push)*8; bit++ {
		b := append([]byte(nil), push...)
		b[bit/8] ^= 1 << uint(bit%8)
		_, _, _, _, err := recv.s.OpenOutOfStoreMessage(vctx, b)
		acct.Case(true, fmt.Sprintf("flip|%d", bit), func() any { return map[string]any{"kind": "push-bit-flip", "bit": bit, "payload_len": len(push)} }, "bitflip-sweep")
		if err == nil {
			acct.Violation("altered-push-accepted/sweep", "TestVerif_C14_AllBitFlips", map[string]any{"bit": bit, "payload_hex": fmt.Sprintf("%x", push)})
			t.Errorf("push payload with bit %d flipped was accepted", bit)
			return
		}
	}
	// and the untouched payload still opens, then the log path too
	if _, _, clear, already, err := recv.s.OpenOutOfStoreMessage(vctx, push); err != nil || already || len(clear) == 0 {
		acct.Violation("push-open-rejected/after-sweep", "TestVerif_C14_AllBitFlips", map[string]any{"err": fmt.Sprint(err), "already": already})
		t.Errorf("genuine push payload after the sweep: err=%v already=%v", err, already)
	}
	if _, err := vOpen(recv, g, env, vCID(env)); err != nil {
		acct.Violation("log-open-broken/after-sweep", "TestVerif_C14_AllBitFlips", map[string]any{"err": fmt.Sprint(err)})
		t.Errorf("log open after push: %v", err)
	}
}
