//go:build verif

package secretstore

import (
	"bytes"
	"fmt"
	"strings"
	"testing"

	"github.com/libp2p/go-libp2p/core/crypto"
	"google.golang.org/protobuf/proto"
	"pgregory.net/rapid"

	"berty.tech/weshnet/v2/internal/vacct"
	"berty.tech/weshnet/v2/pkg/protocoltypes"
)

// C10: a crash at any datastore write leaves the secret store consistent and usable.
//
// The subject store X runs on a recording datastore; a peer P (never crashed)
// provides announcements and messages and receives X's messages. The workload is
// executed once; every journal index is then taken as a crash point.

type c10Step struct {
	Op string `json:"op"` // init | keys | register | open | reopen | push | seal
	K  int    `json:"k,omitempty"` // message index (1-based) of the peer's messages
}

type c10Rec struct {
	step   c10Step
	jb, ja int // journal length before / after the call
	ok     bool
	keys   []string // for "keys": rendered key material
	env    []byte   // for "seal": the returned envelope
	ctr    uint64   // for "seal": its counter
}

type c10Run struct {
	kind    int
	W       int
	noBatch bool
	g       *protocoltypes.Group
	P       *vDev
	ds      *recDS
	recs    []c10Rec
	ann     []byte   // P's announcement for X (taken at counter annC)
	annC    uint64
	envs    [][]byte // P's messages, counter i+1
	pay     [][]byte
	push    [][]byte // push payloads of P's messages
	pRegX   bool     // P registered X's chain key (at counter 0)
}

func c10Keys(x *vDev, g *protocoltypes.Group) ([]string, error) {
	var out []string
	acc, err := x.s.GetAccountPrivateKey()
	if err != nil {
		return nil, err
	}
	out = append(out, "account:"+fmt.Sprintf("%x", vRaw(acc.GetPublic())))
	proof, err := x.s.GetAccountProofPublicKey()
	if err != nil {
		return nil, err
	}
	out = append(out, "proof:"+fmt.Sprintf("%x", vRaw(proof)))
	md, err := x.s.GetOwnMemberDeviceForGroup(g)
	if err != nil {
		return nil, err
	}
	out = append(out, "member:"+fmt.Sprintf("%x", vRaw(md.Member())), "device:"+fmt.Sprintf("%x", vRaw(md.Device())))
	return out, nil
}

// c10Execute runs the workload on a fresh subject store and records it.
func c10Execute(kind, W int, noBatch bool, nPeerMsgs int, annAfter int, steps []c10Step) (*c10Run, string) {
	r := &c10Run{kind: kind, W: W, noBatch: noBatch, ds: newRecDS()}
	r.ds.NoBatch = noBatch
	X := vNewDevOn("X", r.ds, W, 4)
	// the group and the peer
	switch kind {
	case vKindAccount:
		// the peer is another device of X's account: X's account keys must exist first
		g, _, err := X.s.GetGroupForAccount()
		if err != nil {
			return nil, "harness: " + err.Error()
		}
		r.g = g
		r.P = vSecondDevice("P", X, 100, 4)
	case vKindContact:
		r.P = vNewDev("P", 100, 4)
		g, err := r.P.s.GetGroupForContact(X.account())
		if err != nil {
			return nil, "harness: " + err.Error()
		}
		r.g = g
	default:
		r.P = vNewDev("P", 100, 4)
		g, _, _ := protocoltypes.NewGroupMultiMember()
		r.g = g
	}
	if err := r.P.s.PutGroup(vctx, r.g); err != nil {
		return nil, "harness: " + err.Error()
	}
	prepared := false
	prepare := func() string {
		// needs X's member key: done right after init returned
		for i := 1; i <= nPeerMsgs; i++ {
			if i-1 == annAfter {
				enc, err := r.P.s.GetShareableChainKey(vctx, r.g, X.md(r.g).Member())
				if err != nil {
					return "harness: " + err.Error()
				}
				r.ann, r.annC = enc, uint64(i-1)
			}
			p := []byte(fmt.Sprintf("peer-message-%d", i))
			env := vSeal(r.P, r.g, p)
			r.envs, r.pay = append(r.envs, env), append(r.pay, p)
			me, hdr, err := r.P.s.OpenEnvelopeHeaders(env, r.g)
			if err != nil {
				return "harness: " + err.Error()
			}
			oos, err := r.P.s.SealOutOfStoreMessageEnvelope(vCID(env), me, hdr, r.g)
			if err != nil {
				return "harness: " + err.Error()
			}
			b, _ := proto.Marshal(oos)
			r.push = append(r.push, b)
		}
		if r.ann == nil {
			enc, err := r.P.s.GetShareableChainKey(vctx, r.g, X.md(r.g).Member())
			if err != nil {
				return "harness: " + err.Error()
			}
			r.ann, r.annC = enc, uint64(nPeerMsgs)
		}
		if err := vShare(r.g, X, r.P); err != nil {
			return "harness: P cannot register X's chain key: " + err.Error()
		}
		r.pRegX = true
		prepared = true
		return ""
	}
	for _, st := range steps {
		rec := c10Rec{step: st, jb: len(r.ds.Journal)}
		switch st.Op {
		case "init":
			rec.ok = X.s.PutGroup(vctx, r.g) == nil
		case "keys":
			ks, err := c10Keys(X, r.g)
			rec.ok, rec.keys = err == nil, ks
		case "register":
			rec.ok = X.s.RegisterChainKey(vctx, r.g, r.P.md(r.g).Device(), r.ann) == nil
		case "open", "reopen":
			_, err := vOpen(X, r.g, r.envs[st.K-1], vCID(r.envs[st.K-1]))
			rec.ok = err == nil
		case "push":
			_, _, _, _, err := X.s.OpenOutOfStoreMessage(vctx, r.push[st.K-1])
			rec.ok = err == nil
		case "seal":
			env, err := X.s.SealEnvelope(vctx, r.g, vWrap([]byte("from-X")))
			rec.ok = err == nil
			if err == nil {
				rec.env = env
				_, hdr, e2 := r.P.s.OpenEnvelopeHeaders(env, r.g)
				if e2 != nil {
					return nil, "harness: " + e2.Error()
				}
				rec.ctr = hdr.Counter
			}
		}
		rec.ja = len(r.ds.Journal)
		r.recs = append(r.recs, rec)
		if st.Op == "init" {
			if !rec.ok {
				return nil, "harness: init failed"
			}
			if msg := prepare(); msg != "" {
				return nil, msg
			}
		}
	}
	_ = prepared
	return r, ""
}

// c10Check restarts on the state after i journal entries and applies the oracle.
func c10Check(r *c10Run, i int) (id, msg string, insideCall bool, interrupted string) {
	ds := recStateAt(nil, r.ds.Journal, i)
	ds.NoBatch = r.noBatch
	X := vNewDevOn("X'", ds, r.W, 4)
	model := &ratchetModel{W: r.W, opened: map[uint64]bool{}}
	var inter *c10Rec
	initDone := false
	var keysBefore []string
	sealedBefore := map[uint64]bool{}
	for idx := range r.recs {
		rec := &r.recs[idx]
		if rec.ja <= i { // returned before the crash
			switch rec.step.Op {
			case "init":
				initDone = true
			case "keys":
				if rec.ok {
					keysBefore = rec.keys
				}
			case "register":
				if rec.ok && !model.registered {
					model.registered, model.c = true, r.annC
				}
			case "open", "reopen", "push":
				if rec.ok && rec.step.Op != "push" {
					model.opened[uint64(rec.step.K)] = true
				}
			case "seal":
				if rec.ok {
					sealedBefore[rec.ctr] = true
				}
			}
		} else if rec.jb <= i && inter == nil && rec.ja > rec.jb {
			inter = rec
			insideCall = i > rec.jb
			interrupted = rec.step.Op
		}
	}
	if !initDone {
		// crashed before the group was set up: the store must simply be usable
		if err := X.s.PutGroup(vctx, r.g); err != nil {
			return "restart-unusable", fmt.Sprintf("PutGroup after a crash during initialisation: %v", err), insideCall, interrupted
		}
		if _, err := c10Keys(X, r.g); err != nil {
			return "restart-unusable", fmt.Sprintf("keys unreadable after a crash during initialisation: %v", err), insideCall, interrupted
		}
		return "", "", insideCall, interrupted
	}
	// (d) identity
	now, err := c10Keys(X, r.g)
	if err != nil {
		return "keys-unreadable", err.Error(), insideCall, interrupted
	}
	if keysBefore != nil && strings.Join(keysBefore, ",") != strings.Join(now, ",") {
		return "identity-changed", fmt.Sprintf("keys handed out before the crash %v, after restart %v", keysBefore, now), insideCall, interrupted
	}
	// the member key P used for its announcement must still be X's (P addressed it after init returned)
	// (e) an interrupted registration can be completed
	if inter != nil && inter.step.Op == "register" && !model.registered {
		if err := X.s.RegisterChainKey(vctx, r.g, r.P.md(r.g).Device(), r.ann); err != nil {
			return "reregister-failed", fmt.Sprintf("re-registering after an interrupted registration: %v", err), insideCall, interrupted
		}
		model.registered, model.c = true, r.annC
	}
	// (b) what was openable when the interrupted call began is openable; (a) what was opened re-opens
	var must []int
	for k := 1; k <= len(r.envs); k++ {
		if model.openable(uint64(k)) {
			must = append(must, k)
		}
	}
	for _, k := range must {
		o, err := vOpen(X, r.g, r.envs[k-1], vCID(r.envs[k-1]))
		if err != nil {
			what := "openable-lost"
			if model.opened[uint64(k)] {
				what = "opened-lost"
			}
			return what, fmt.Sprintf("message %d (opened before crash=%v) cannot be opened after restart at journal index %d: %v", k, model.opened[uint64(k)], i, err), insideCall, interrupted
		}
		if !bytes.Equal(o.Payload, r.pay[k-1]) {
			return "wrong-payload", fmt.Sprintf("message %d opens to other content after restart", k), insideCall, interrupted
		}
	}
	// in-order completion of everything sealed after the registered counter, the way the message store does it (each
	// open is followed by the update of the push reference window)
	if model.registered {
		pdev := vRaw(r.P.md(r.g).Device())
		for k := int(model.c) + 1; k <= len(r.envs); k++ {
			if _, err := vOpen(X, r.g, r.envs[k-1], vCID(r.envs[k-1])); err != nil {
				return "completion-failed", fmt.Sprintf("message %d cannot be opened in order after restart at %d: %v", k, i, err), insideCall, interrupted
			}
			if err := X.s.UpdateOutOfStoreGroupReferences(vctx, pdev, uint64(k), r.g); err != nil {
				return "reference-update-failed", fmt.Sprintf("updating the push references after opening message %d (restart at %d): %v", k, i, err), insideCall, interrupted
			}
		}
		// every message of the completed session that lies strictly inside the reference window around the last
		// counter is now opened: its push payload opens too (the window was rebuilt step by step from c+1 upwards)
		const R = 4
		n := len(r.envs)
		for k := max(int(model.c)+1, n-R+1); k <= n; k++ {
			_, _, clear, _, err := X.s.OpenOutOfStoreMessage(vctx, r.push[k-1])
			if err != nil {
				return "push-unusable-after-restart", fmt.Sprintf("after restart at %d and in-order completion up to %d, the push payload of message %d (inside the reference window) does not open: %v", i, n, k, err), insideCall, interrupted
			}
			if !bytes.Equal(clear, vWrap(r.pay[k-1])) && !bytes.Equal(clear, r.pay[k-1]) {
				return "wrong-payload", fmt.Sprintf("push payload of message %d opens to other content after restart", k), insideCall, interrupted
			}
		}
	}
	// (b') X's own envelopes handed out before the stop were openable on X (its message store reads every own
	// entry back through the secret store): they still are
	for idx := range r.recs {
		if rec := &r.recs[idx]; rec.step.Op == "seal" && rec.ok && rec.ja <= i {
			o, err := vOpen(X, r.g, rec.env, vCID(rec.env))
			if err != nil {
				return "own-envelope-lost", fmt.Sprintf("X's own envelope with counter %d, handed out before the stop at journal index %d, cannot be opened by X after restart: %v", rec.ctr, i, err), insideCall, interrupted
			}
			if !bytes.Equal(o.Payload, []byte("from-X")) {
				return "wrong-payload", fmt.Sprintf("X's own envelope with counter %d opens to other content after restart", rec.ctr), insideCall, interrupted
			}
		}
	}
	// (c) envelopes sealed after restart do not share a counter with envelopes returned before the crash,
	// and the receiver opens all of them
	type sealed struct {
		ctr uint64
		env []byte
	}
	var all []sealed
	for idx := range r.recs {
		if rec := &r.recs[idx]; rec.step.Op == "seal" && rec.ok && rec.ja <= i {
			all = append(all, sealed{rec.ctr, rec.env})
		}
	}
	for n := 0; n < 2; n++ {
		env, err := X.s.SealEnvelope(vctx, r.g, vWrap([]byte("after-restart")))
		if err != nil {
			return "seal-after-restart", fmt.Sprintf("SealEnvelope after restart at %d: %v", i, err), insideCall, interrupted
		}
		_, hdr, err := r.P.s.OpenEnvelopeHeaders(env, r.g)
		if err != nil {
			return "seal-after-restart", err.Error(), insideCall, interrupted
		}
		if sealedBefore[hdr.Counter] {
			return "counter-reused-after-restart", fmt.Sprintf("envelope sealed after restart reuses counter %d of an envelope handed out before the crash", hdr.Counter), insideCall, interrupted
		}
		sealedBefore[hdr.Counter] = true
		all = append(all, sealed{hdr.Counter, env})
	}
	P2 := vNewDevOn("P'", vDSCopy(r.P.ds), 100, 4)
	for _, e := range all { // already in increasing counter order
		if _, err := vOpen(P2, r.g, e.env, vCID(e.env)); err != nil {
			return "receiver-cannot-open", fmt.Sprintf("the peer cannot open X's envelope with counter %d (restart at %d): %v", e.ctr, i, err), insideCall, interrupted
		}
	}
	return "", "", insideCall, interrupted
}


var c10Scripted = [][]c10Step{
	{{Op: "init"}, {Op: "keys"}, {Op: "seal"}, {Op: "seal"}, {Op: "seal"}},
	{{Op: "init"}, {Op: "keys"}, {Op: "register"}, {Op: "open", K: 1}, {Op: "open", K: 2}, {Op: "open", K: 3}},
	{{Op: "init"}, {Op: "register"}, {Op: "open", K: 2}, {Op: "open", K: 1}, {Op: "open", K: 3}, {Op: "reopen", K: 2}},
	{{Op: "init"}, {Op: "register"}, {Op: "register"}, {Op: "open", K: 1}, {Op: "seal"}, {Op: "reopen", K: 1}},
	{{Op: "init"}, {Op: "register"}, {Op: "push", K: 1}, {Op: "open", K: 1}, {Op: "push", K: 1}, {Op: "push", K: 2}},
	{{Op: "init"}, {Op: "keys"}, {Op: "register"}, {Op: "seal"}, {Op: "open", K: 3}, {Op: "open", K: 1}, {Op: "seal"}, {Op: "open", K: 2}},
}

func c10RunAll(t *testing.T, acct *vacct.Acct, test string, kind, W int, noBatch bool, nMsgs, annAfter int, steps []c10Step, onFail func(string)) bool {
	r, hmsg := c10Execute(kind, W, noBatch, nMsgs, annAfter, steps)
	if r == nil {
		onFail(hmsg)
		return false
	}
	var ops []string
	for _, s := range steps {
		if s.K > 0 {
			ops = append(ops, fmt.Sprintf("%s(%d)", s.Op, s.K))
		} else {
			ops = append(ops, s.Op)
		}
	}
	wl := strings.Join(ops, ",")
	for i := 0; i <= len(r.ds.Journal); i++ {
		id, msg, inside, inter := c10Check(r, i)
		acct.Case(inside, fmt.Sprintf("%d|%d|%v|%d|%d|%s|%d", kind, W, noBatch, nMsgs, annAfter, wl, i), func() any {
			return map[string]any{"kind": vKindNames[kind], "window": W, "non_batching": noBatch, "workload": ops, "journal_len": len(r.ds.Journal), "crash_index": i, "interrupted_call": inter}
		}, "crash-points", lbl(inside, "crash-inside/"+inter), lbl(noBatch, "non-batching-datastore"))
		if id != "" {
			var j []string
			for _, e := range r.ds.Journal[:i] {
				ks := []string{}
				for _, op := range e.Ops {
					ks = append(ks, op.Key)
				}
				if len(ks) > 3 {
					ks = append(ks[:3], fmt.Sprintf("...(+%d)", len(e.Ops)-3))
				}
				j = append(j, e.Kind+":"+strings.Join(ks, "|"))
			}
			if len(j) > 12 {
				j = j[len(j)-12:]
			}
			acct.Violation(id+"/during-"+inter, test, map[string]any{"kind": vKindNames[kind], "window": W, "non_batching": noBatch, "peer_messages": nMsgs, "announcement_after": annAfter,
				"workload": steps, "crash_index": i, "journal_tail_before_crash": j, "msg": msg})
			onFail(fmt.Sprintf("%s (during %s): %s [workload %s, crash index %d of %d, last writes %v]", id, inter, msg, wl, i, len(r.ds.Journal), j))
			return false
		}
	}
	return true
}

func TestVerif_C10_Scripted(t *testing.T) {
	acct := vacct.Get("C10")
	shard, nshards := vacct.Shard()
	n := 0
	for kind := 0; kind < 3; kind++ {
		for _, W := range []int{2, 5} {
			for _, nb := range []bool{false, true} {
				for wi, steps := range c10Scripted {
					n++
					if n%nshards != shard {
						continue
					}
					ok := c10RunAll(t, acct, "TestVerif_C10_Scripted", kind, W, nb, 3, wi%2, steps, func(m string) { t.Errorf("C10: %s", m) })
					if !ok {
						return
					}
				}
			}
		}
	}
	acct.SetExhaustive(true)
}

func TestVerif_C10_Random(t *testing.T) {
	acct := vacct.Get("C10")
	vacct.RapidCheck(t, vacct.N(40, 30000), func(rt *rapid.T) {
		kind := rapid.IntRange(0, 2).Draw(rt, "kind")
		W := rapid.SampledFrom([]int{2, 5, 100}).Draw(rt, "W")
		nb := rapid.IntRange(0, 3).Draw(rt, "nobatch") == 0
		nMsgs := rapid.IntRange(1, 6).Draw(rt, "msgs")
		annAfter := rapid.IntRange(0, min(2, nMsgs)).Draw(rt, "annAfter")
		steps := []c10Step{{Op: "init"}}
		n := rapid.IntRange(2, 10).Draw(rt, "n")
		for i := 0; i < n; i++ {
			op := rapid.SampledFrom([]string{"keys", "register", "open", "open", "open", "reopen", "push", "seal", "seal"}).Draw(rt, "op")
			st := c10Step{Op: op}
			if op == "open" || op == "reopen" || op == "push" {
				st.K = rapid.IntRange(1, nMsgs).Draw(rt, "k")
			}
			steps = append(steps, st)
		}
		c10RunAll(t, acct, "TestVerif_C10_Random", kind, W, nb, nMsgs, annAfter, steps, func(m string) { rt.Fatalf("C10: %s", m) })
	})
}

var _ crypto.PubKey
