//go:build verif

package secretstore

import (
	"bytes"
	"context"
	"fmt"
	"strings"
	"testing"

	"pgregory.net/rapid"

	"berty.tech/weshnet/v2/internal/vacct"
)

// C09 with a transient read failure on the sending device: between two bursts of sends, one call that touches the
// sender's own chain-key record (sharing the key with a member, recording the group again, a send) meets a datastore
// read that fails once or a few times; writes keep working. The call may report the error. Whatever it reports, the
// envelopes handed out before and after still carry pairwise distinct, gap-free, increasing counters, the stored
// counter never decreases, and a receiver that took the key before the first burst opens all of them.
func TestVerif_C09_TransientReadFailure(t *testing.T) {
	acct := vacct.Get("C09")
	vacct.RapidCheck(t, vacct.N(120, 12000), func(rt *rapid.T) {
		kind := rapid.SampledFrom([]int{vKindMulti, vKindAccount, vKindContact}).Draw(rt, "kind")
		pre := rapid.IntRange(0, 2).Draw(rt, "pre")
		w := c09NewWorld([]int{kind}, pre)
		g := w.groups[0]
		dec := c09WatchCounters(w.ds)
		var sent []c09Sent
		var errs []string
		send := func(n int, tag string) {
			for i := 0; i < n; i++ {
				p := []byte(fmt.Sprintf("%s-%d", tag, i))
				env, err := w.S.s.SealEnvelope(vctx, g, vWrap(p))
				if err != nil {
					errs = append(errs, err.Error())
					continue
				}
				sent = append(sent, c09Sent{0, env, p})
			}
		}
		send(rapid.IntRange(1, 5).Draw(rt, "first"), "first")
		call := rapid.SampledFrom([]string{"share", "share", "putgroup", "seal", "seal-given-up", "seal-given-up"}).Draw(rt, "call")
		failFrom := rapid.IntRange(1, 4).Draw(rt, "failFrom") // the n-th read of a chain-key record during the call ...
		failCount := rapid.IntRange(1, 3).Draw(rt, "failCount") // ... and how many reads in a row fail
		seen, fired := 0, 0
		w.ds.FailGet = func(key string) bool {
			if !strings.Contains(key, dsNamespaceChainKeyForDeviceOnGroup) {
				return false
			}
			seen++
			if seen >= failFrom && seen < failFrom+failCount {
				fired++
				return true
			}
			return false
		}
		var callErr error
		givenUp := false
		switch call {
		case "seal-given-up":
			// no storage failure: the caller of one send gives up (its context is cancelled) while the send is at its n-th
			// datastore access. The send may still hand out its envelope, or report an error and hand out nothing - and
			// then it has not used up a counter.
			w.ds.FailGet = nil
			ctx, cancel := context.WithCancel(vctx)
			at, seenOps := rapid.IntRange(1, 8).Draw(rt, "cancelAt"), 0
			w.ds.Hook = func(op, key string) {
				seenOps++
				if seenOps == at {
					givenUp = true
					cancel()
				}
			}
			env, err := w.S.s.SealEnvelope(ctx, g, vWrap([]byte("given-up")))
			w.ds.Hook = nil
			cancel()
			callErr = err
			if err == nil {
				sent = append(sent, c09Sent{0, env, []byte("given-up")})
			}
		case "share":
			_, callErr = w.S.s.GetShareableChainKey(vctx, g, w.R.md(g).Member())
		case "putgroup":
			callErr = w.S.s.PutGroup(vctx, g)
		case "seal":
			env, err := w.S.s.SealEnvelope(vctx, g, vWrap([]byte("during-the-outage")))
			callErr = err
			if err == nil {
				sent = append(sent, c09Sent{0, env, []byte("during-the-outage")})
			}
		}
		w.ds.FailGet = nil
		send(rapid.IntRange(1, 5).Draw(rt, "second"), "second")
		desc := map[string]any{"kind": vKindNames[kind], "pre": pre, "call_during_the_outage": call, "first_failing_read": failFrom, "failing_reads": failCount, "reads_failed": fired, "caller_gave_up_during_the_call": givenUp, "call_reported_error": callErr != nil, "envelopes": len(sent)}
		if len(errs) > 0 {
			acct.Violation("read-fault/seal-error", "TestVerif_C09_TransientReadFailure", map[string]any{"scenario": desc, "errors": errs})
			rt.Fatalf("C09 read-fault/seal-error: SealEnvelope fails although the datastore works again: %v (%v)", errs, desc)
		}
		if id, msg := c09Judge(w, sent, *dec); id != "" {
			acct.Violation("read-fault/"+id, "TestVerif_C09_TransientReadFailure", map[string]any{"scenario": desc, "msg": msg})
			rt.Fatalf("C09 read-fault/%s: %s (%v)", id, msg, desc)
		}
		acct.Case(fired > 0 || givenUp, fmt.Sprintf("rf|%d|%d|%s|%d|%d|%d", kind, pre, call, failFrom, failCount, len(sent)), func() any { return desc }, "read-fault", lbl(fired > 0, "read-fault/fired"), lbl(fired > 0 && call == "share", "read-fault/fired-while-sharing-the-key"), lbl(givenUp, "read-fault/caller-gave-up-during-a-send"))
	})
}

// "each message key/nonce pair protects at most one payload" across devices: two devices of a group seal the same
// payloads under the same counters; were their key streams the same, the sealed payloads would be byte-identical.
func TestVerif_C09_DevicesDoNotShareKeyStreams(t *testing.T) {
	acct := vacct.Get("C09")
	vacct.RapidCheck(t, vacct.N(30, 3000), func(rt *rapid.T) {
		kind := rapid.SampledFrom([]int{vKindMulti, vKindAccount, vKindContact}).Draw(rt, "kind")
		w := c09NewWorld([]int{kind}, 0)
		g := w.groups[0]
		n := rapid.IntRange(1, 4).Draw(rt, "n")
		size := rapid.SampledFrom([]int{0, 1, 17, 300}).Draw(rt, "size")
		for i := 0; i < n; i++ {
			p := vWrap(bytes.Repeat([]byte{byte(i + 1)}, size))
			var boxes [][]byte
			var ctrs []uint64
			for _, d := range []*vDev{w.S, w.R} {
				envBytes, err := d.s.SealEnvelope(vctx, g, p)
				if err != nil {
					rt.Fatalf("harness: %v", err)
				}
				env, hdr, err := d.s.OpenEnvelopeHeaders(envBytes, g)
				if err != nil {
					rt.Fatalf("harness: %v", err)
				}
				boxes, ctrs = append(boxes, env.Message), append(ctrs, hdr.Counter)
			}
			if ctrs[0] == ctrs[1] && bytes.Equal(boxes[0], boxes[1]) {
				desc := map[string]any{"kind": vKindNames[kind], "counter": ctrs[0], "payload_bytes": len(p)}
				acct.Violation("key-stream-shared-across-devices", "TestVerif_C09_DevicesDoNotShareKeyStreams", desc)
				rt.Fatalf("C09 key-stream-shared-across-devices: two devices of the group sealed the same payload under counter %d to identical bytes: they use the same message key and nonce (%v)", ctrs[0], desc)
			}
		}
		acct.Case(true, fmt.Sprintf("ks|%d|%d|%d", kind, n, size), func() any {
			return map[string]any{"kind": "two-devices-same-counters", "group": vKindNames[kind], "messages_each": n, "payload_bytes": size}
		}, "two-devices-same-counters")
	})
}
