//go:build verif

package secretstore

import (
	"context"
	"crypto/sha256"
	"fmt"
	"io"
	"os"
	"sync"
	"testing"

	"github.com/ipfs/go-cid"
	"github.com/ipfs/go-datastore"
	dsq "github.com/ipfs/go-datastore/query"
	dssync "github.com/ipfs/go-datastore/sync"
	"github.com/libp2p/go-libp2p/core/crypto"
	mh "github.com/multiformats/go-multihash"
	"golang.org/x/crypto/hkdf"
	"golang.org/x/crypto/nacl/secretbox"
	"google.golang.org/protobuf/proto"

	"berty.tech/weshnet/v2/internal/vacct"
	"berty.tech/weshnet/v2/pkg/protocoltypes"
)

func TestMain(m *testing.M) { os.Exit(vacct.Main(m)) }

var vctx = context.Background()

// ---- world: stores, groups, chain-key exchange (DESIGN.md 3.1)

type vDev struct {
	name  string
	s     *secretStore
	ds    datastore.Datastore
	accPK crypto.PubKey
}

func vNewDevOn(name string, ds datastore.Datastore, window, refs int) *vDev {
	s, err := newSecretStore(ds, &NewSecretStoreOptions{PreComputedKeysCount: window, PrecomputeOutOfStoreGroupRefsCount: refs})
	if err != nil {
		panic(err)
	}
	return &vDev{name: name, s: s, ds: ds}
}

func vNewDev(name string, window, refs int) *vDev {
	return vNewDevOn(name, dssync.MutexWrap(datastore.NewMapDatastore()), window, refs)
}

// vSecondDevice creates another device of the same account (imported keys).
func vSecondDevice(name string, first *vDev, window, refs int) *vDev {
	a, b, err := first.s.ExportAccountKeysForBackup()
	if err != nil {
		panic(err)
	}
	d := vNewDev(name, window, refs)
	if err := d.s.ImportAccountKeys(a, b); err != nil {
		panic(err)
	}
	return d
}

func (d *vDev) account() crypto.PubKey {
	if d.accPK == nil {
		sk, err := d.s.GetAccountPrivateKey()
		if err != nil {
			panic(err)
		}
		d.accPK = sk.GetPublic()
	}
	return d.accPK
}

func (d *vDev) md(g *protocoltypes.Group) *ownMemberDevice {
	m, err := d.s.deviceKeystore.memberDeviceForGroup(g)
	if err != nil {
		panic(err)
	}
	return m
}

func vRaw(k crypto.PubKey) []byte {
	b, err := k.Raw()
	if err != nil {
		panic(err)
	}
	return b
}

func vGroupPK(g *protocoltypes.Group) crypto.PubKey {
	pk, err := g.GetPubKey()
	if err != nil {
		panic(err)
	}
	return pk
}

// vShare makes `to` register the chain key of `from` for group g, as the
// metadata store does when it sees the announcement.
func vShare(g *protocoltypes.Group, from, to *vDev) error {
	enc, err := from.s.GetShareableChainKey(vctx, g, to.md(g).Member())
	if err != nil {
		return fmt.Errorf("GetShareableChainKey: %w", err)
	}
	return to.s.RegisterChainKey(vctx, g, from.md(g).Device(), enc)
}

// group kinds
const (
	vKindAccount = iota
	vKindContact
	vKindMulti
)

var vKindNames = []string{"account", "contact", "multimember"}

// vGroupWorld builds sender S, receiver R and a third member M (where the
// group type allows one) for a group of the given kind.
type vGroupWorld struct {
	kind    int
	g       *protocoltypes.Group
	S, R, M *vDev // M may be nil (contact groups have two members only)
}

func vNewGroupWorld(kind, window, refs int) *vGroupWorld {
	w := &vGroupWorld{kind: kind}
	switch kind {
	case vKindAccount:
		w.S = vNewDev("S", window, refs)
		w.R = vSecondDevice("R", w.S, window, refs)
		w.M = vSecondDevice("M", w.S, window, refs)
		g, _, err := w.S.s.GetGroupForAccount()
		if err != nil {
			panic(err)
		}
		w.g = g
	case vKindContact:
		w.S = vNewDev("S", window, refs)
		w.R = vNewDev("R", window, refs)
		// a second device of the receiver's account is the only possible third party
		w.M = vSecondDevice("M", w.R, window, refs)
		g, err := w.S.s.GetGroupForContact(w.R.account())
		if err != nil {
			panic(err)
		}
		w.g = g
	default:
		w.S = vNewDev("S", window, refs)
		w.R = vNewDev("R", window, refs)
		w.M = vNewDev("M", window, refs)
		g, _, err := protocoltypes.NewGroupMultiMember()
		if err != nil {
			panic(err)
		}
		w.g = g
	}
	for _, d := range []*vDev{w.S, w.R, w.M} {
		if d != nil {
			if err := d.s.PutGroup(vctx, w.g); err != nil {
				panic(err)
			}
		}
	}
	return w
}

// ---- envelopes

func vCID(b []byte) cid.Cid {
	h, err := mh.Sum(b, mh.SHA2_256, -1)
	if err != nil {
		panic(err)
	}
	return cid.NewCidV1(cid.Raw, h)
}

func vWrap(payload []byte) []byte {
	b, err := proto.Marshal(&protocoltypes.EncryptedMessage{Plaintext: payload})
	if err != nil {
		panic(err)
	}
	return b
}

func vSeal(d *vDev, g *protocoltypes.Group, payload []byte) []byte {
	env, err := d.s.SealEnvelope(vctx, g, vWrap(payload))
	if err != nil {
		panic(fmt.Errorf("SealEnvelope: %w", err))
	}
	return env
}

type vOpened struct {
	Device  []byte
	Counter uint64
	Payload []byte
}

// vOpen runs the two calls the message store makes for a log entry.
func vOpen(d *vDev, g *protocoltypes.Group, envBytes []byte, id cid.Cid) (*vOpened, error) {
	env, hdr, err := d.s.OpenEnvelopeHeaders(envBytes, g)
	if err != nil {
		return nil, err
	}
	msg, err := d.s.OpenEnvelopePayload(vctx, env, hdr, vGroupPK(g), d.md(g).Device(), id)
	if err != nil {
		return nil, err
	}
	return &vOpened{Device: hdr.DevicePk, Counter: hdr.Counter, Payload: msg.GetPlaintext()}, nil
}

// ---- independent crypto framing (written from the protocol description)

// vChainStep is one step of the symmetric ratchet: HKDF-SHA256 of the chain
// key with the group id as info; first 32 bytes = next chain key, next 32 =
// message key.
func vChainStep(chainKey, groupID []byte) (next []byte, mk [32]byte) {
	prk := hkdf.Extract(sha256.New, chainKey, nil)
	r := hkdf.Expand(sha256.New, prk, groupID)
	next = make([]byte, 32)
	if _, err := io.ReadFull(r, next); err != nil {
		panic(err)
	}
	if _, err := io.ReadFull(r, mk[:]); err != nil {
		panic(err)
	}
	return
}

// vMessageKeyAt derives the message key of counter k from a chain key at counter c (k > c).
func vMessageKeyAt(chainKey []byte, c, k uint64, groupID []byte) [32]byte {
	var mk [32]byte
	ck := chainKey
	for i := c; i < k; i++ {
		ck, mk = vChainStep(ck, groupID)
	}
	return mk
}

func vCounterNonce(k uint64) *[24]byte {
	var n [24]byte
	for i := 0; i < 8; i++ {
		n[7-i] = byte(k >> (8 * i))
	}
	return &n
}

// vBuildEnvelope assembles an envelope from parts the way the protocol
// describes it: headers boxed under the group secret with the given nonce.
func vBuildEnvelope(g *protocoltypes.Group, hdr *protocoltypes.MessageHeaders, sealedPayload []byte, nonce [24]byte) []byte {
	hb, err := proto.Marshal(hdr)
	if err != nil {
		panic(err)
	}
	eh := secretbox.Seal(nil, hb, &nonce, g.GetSharedSecret())
	b, err := proto.Marshal(&protocoltypes.MessageEnvelope{MessageHeaders: eh, Message: sealedPayload, Nonce: nonce[:]})
	if err != nil {
		panic(err)
	}
	return b
}

func vSealPayloadWithKey(mk [32]byte, k uint64, wrapped []byte) []byte {
	return secretbox.Seal(nil, wrapped, vCounterNonce(k), &mk)
}

func vDSCopy(src datastore.Datastore) datastore.Datastore {
	dst := dssync.MutexWrap(datastore.NewMapDatastore())
	vDSCopyInto(src, dst)
	return dst
}

func vDSCopyInto(src, dst datastore.Datastore) {
	res, err := src.Query(vctx, dsq.Query{})
	if err != nil {
		panic(err)
	}
	defer res.Close()
	for e := range res.Next() {
		if e.Error != nil {
			panic(e.Error)
		}
		v := append([]byte(nil), e.Value...)
		if err := dst.Put(vctx, datastore.NewKey(e.Key), v); err != nil {
			panic(err)
		}
	}
}

// ---- recording datastore (DESIGN.md 3.8)

type recOp struct {
	Key   string
	Value []byte // nil = delete
}

type recEntry struct {
	Seq  int
	Kind string // put | delete | batch
	Ops  []recOp
}

// recDS journals every mutation, applies batches atomically (as badger does)
// and calls Hook before every operation.
type recDS struct {
	mu      sync.Mutex
	m       map[string][]byte
	Journal []recEntry
	Hook    func(op string, key string)
	PutHook func(key string, value []byte)
	NoBatch bool // behave as a datastore without batching support
	FailPut func(key string) bool // a direct put for which this returns true fails (nothing is written)
	FailGet func(key string) bool // a read (get / has) for which this returns true fails with an I/O error
	FailCommit func(keys []string) bool // a batch commit for which this returns true fails (nothing of the batch is written)
}

func newRecDS() *recDS { return &recDS{m: map[string][]byte{}} }

func (r *recDS) hook(op, key string) {
	if r.Hook != nil {
		r.Hook(op, key)
	}
}

func (r *recDS) Get(_ context.Context, key datastore.Key) ([]byte, error) {
	r.hook("get", key.String())
	if r.FailGet != nil && r.FailGet(key.String()) {
		return nil, fmt.Errorf("injected datastore read failure (i/o timeout)")
	}
	r.mu.Lock()
	defer r.mu.Unlock()
	v, ok := r.m[key.String()]
	if !ok {
		return nil, datastore.ErrNotFound
	}
	return append([]byte(nil), v...), nil
}

func (r *recDS) Has(_ context.Context, key datastore.Key) (bool, error) {
	r.hook("has", key.String())
	if r.FailGet != nil && r.FailGet(key.String()) {
		return false, fmt.Errorf("injected datastore read failure (i/o timeout)")
	}
	r.mu.Lock()
	defer r.mu.Unlock()
	_, ok := r.m[key.String()]
	return ok, nil
}

func (r *recDS) GetSize(_ context.Context, key datastore.Key) (int, error) {
	r.hook("getsize", key.String())
	r.mu.Lock()
	defer r.mu.Unlock()
	v, ok := r.m[key.String()]
	if !ok {
		return -1, datastore.ErrNotFound
	}
	return len(v), nil
}

func (r *recDS) Query(_ context.Context, q dsq.Query) (dsq.Results, error) {
	r.hook("query", q.Prefix)
	r.mu.Lock()
	var es []dsq.Entry
	for k, v := range r.m {
		es = append(es, dsq.Entry{Key: k, Value: append([]byte(nil), v...), Size: len(v)})
	}
	r.mu.Unlock()
	return dsq.NaiveQueryApply(q, dsq.ResultsWithEntries(q, es)), nil
}

func (r *recDS) Put(_ context.Context, key datastore.Key, value []byte) error {
	r.hook("put", key.String())
	if r.PutHook != nil {
		r.PutHook(key.String(), value)
	}
	if r.FailPut != nil && r.FailPut(key.String()) {
		return fmt.Errorf("injected datastore write failure")
	}
	r.mu.Lock()
	defer r.mu.Unlock()
	v := append([]byte(nil), value...)
	r.m[key.String()] = v
	r.Journal = append(r.Journal, recEntry{Seq: len(r.Journal), Kind: "put", Ops: []recOp{{key.String(), v}}})
	return nil
}

func (r *recDS) Delete(_ context.Context, key datastore.Key) error {
	r.hook("delete", key.String())
	r.mu.Lock()
	defer r.mu.Unlock()
	delete(r.m, key.String())
	r.Journal = append(r.Journal, recEntry{Seq: len(r.Journal), Kind: "delete", Ops: []recOp{{key.String(), nil}}})
	return nil
}

func (r *recDS) Sync(context.Context, datastore.Key) error { return nil }
func (r *recDS) Close() error                              { return nil }

type recBatch struct {
	r   *recDS
	ops []recOp
}

func (r *recDS) Batch(context.Context) (datastore.Batch, error) {
	if r.NoBatch {
		return nil, datastore.ErrBatchUnsupported
	}
	return &recBatch{r: r}, nil
}

func (b *recBatch) Put(_ context.Context, key datastore.Key, value []byte) error {
	b.ops = append(b.ops, recOp{key.String(), append([]byte(nil), value...)})
	return nil
}

func (b *recBatch) Delete(_ context.Context, key datastore.Key) error {
	b.ops = append(b.ops, recOp{key.String(), nil})
	return nil
}

func (b *recBatch) Commit(context.Context) error {
	b.r.hook("commit", "")
	if b.r.FailCommit != nil {
		var keys []string
		for _, op := range b.ops {
			keys = append(keys, op.Key)
		}
		if b.r.FailCommit(keys) {
			b.ops = nil
			return fmt.Errorf("injected datastore failure: batch commit refused")
		}
	}
	b.r.mu.Lock()
	defer b.r.mu.Unlock()
	for _, op := range b.ops {
		if op.Value == nil {
			delete(b.r.m, op.Key)
		} else {
			b.r.m[op.Key] = op.Value
		}
	}
	b.r.Journal = append(b.r.Journal, recEntry{Seq: len(b.r.Journal), Kind: "batch", Ops: b.ops})
	b.ops = nil
	return nil
}

// StateAt materialises the datastore content after the first i journal entries
// on top of the base content.
func recStateAt(base map[string][]byte, journal []recEntry, i int) *recDS {
	n := newRecDS()
	for k, v := range base {
		n.m[k] = append([]byte(nil), v...)
	}
	for _, e := range journal[:i] {
		for _, op := range e.Ops {
			if op.Value == nil {
				delete(n.m, op.Key)
			} else {
				n.m[op.Key] = append([]byte(nil), op.Value...)
			}
		}
	}
	return n
}

func (r *recDS) snapshot() map[string][]byte {
	r.mu.Lock()
	defer r.mu.Unlock()
	c := make(map[string][]byte, len(r.m))
	for k, v := range r.m {
		c[k] = append([]byte(nil), v...)
	}
	return c
}
