//go:build verif

package secretstore

import (
	"bytes"
	crand "crypto/rand"
	"fmt"
	"sort"
	"strings"
	"testing"

	"github.com/libp2p/go-libp2p/core/crypto"
	"google.golang.org/protobuf/proto"
	"pgregory.net/rapid"

	"berty.tech/weshnet/v2/internal/vacct"
	"berty.tech/weshnet/v2/pkg/protocoltypes"
)

// C01: sealed group messages open to the original payload or are rejected.

var c01Sizes = []int{0, 1, 2, 15, 16, 17, 31, 32, 33, 255, 256, 4095, 4096, 4097, 65535, 65536}

type c01Msg struct {
	env     []byte
	payload []byte
	counter uint64
	hdr     *protocoltypes.MessageHeaders // clear headers (insider can read them)
	menv    *protocoltypes.MessageEnvelope
}

type c01Mutant struct {
	label    string
	env      []byte
	decrypts bool // built with the right message key: only the signature check stands between it and delivery
}

func c01Payload(rt *rapid.T, label string) []byte {
	var n int
	if rapid.IntRange(0, 3).Draw(rt, label+"-pick") == 0 {
		n = rapid.IntRange(0, 65536).Draw(rt, label+"-len")
	} else {
		n = rapid.SampledFrom(c01Sizes).Draw(rt, label+"-size")
	}
	b := make([]byte, n)
	seed := rapid.Uint32().Draw(rt, label+"-seed")
	x := seed | 1
	for i := range b {
		x ^= x << 13
		x ^= x >> 17
		x ^= x << 5
		b[i] = byte(x)
	}
	return b
}

func c01Flip(b []byte, bit int) []byte {
	c := append([]byte(nil), b...)
	c[bit/8] ^= 1 << uint(bit%8)
	return c
}

func TestVerif_C01_Envelopes(t *testing.T) {
	acct := vacct.Get("C01")
	vacct.RapidCheck(t, vacct.N(120, 12000), func(rt *rapid.T) {
		kind := rapid.IntRange(0, 2).Draw(rt, "kind")
		// the window always covers the n+1 <= 6 counters used here (the window rule itself is C02)
		window := rapid.SampledFrom([]int{8, 100}).Draw(rt, "window")
		w := vNewGroupWorld(kind, window, 8)
		g, gid := w.g, w.g.GetPublicKey()
		// S sends; R receives; M is the insider and also a second honest sender
		for _, pair := range [][2]*vDev{{w.S, w.R}, {w.S, w.M}, {w.M, w.R}} {
			if err := vShare(g, pair[0], pair[1]); err != nil {
				rt.Fatalf("harness: share chain key: %v", err)
			}
		}
		// a second group of another kind in which S and R are members too (class c)
		var g2 *protocoltypes.Group
		if kind == vKindMulti {
			g2, _, _ = protocoltypes.NewGroupMultiMember()
		} else if kind == vKindContact {
			g2, _, _ = protocoltypes.NewGroupMultiMember()
		} else {
			g2, _, _ = protocoltypes.NewGroupMultiMember()
		}
		for _, d := range []*vDev{w.S, w.R} {
			if err := d.s.PutGroup(vctx, g2); err != nil {
				rt.Fatalf("harness: put g2: %v", err)
			}
		}
		if err := vShare(g2, w.S, w.R); err != nil {
			rt.Fatalf("harness: share g2: %v", err)
		}

		sDev := vRaw(w.S.md(g).Device())
		mDev := vRaw(w.M.md(g).Device())
		// the insider's copy of S's chain key, obtained the legitimate way
		encForM, _ := w.S.s.GetShareableChainKey(vctx, g, w.M.md(g).Member())
		sCK, err := decryptDeviceChainKey(encForM, g, w.M.md(g).member, w.S.md(g).Device())
		if err != nil {
			rt.Fatalf("harness: insider cannot read the chain key: %v", err)
		}
		c0 := sCK.Counter

		n := rapid.IntRange(1, 5).Draw(rt, "n")
		var msgs []*c01Msg
		for i := 0; i < n; i++ {
			p := c01Payload(rt, fmt.Sprintf("p%d", i))
			env := vSeal(w.S, g, p)
			me, hdr, err := w.M.s.OpenEnvelopeHeaders(env, g)
			if err != nil {
				rt.Fatalf("harness: insider cannot read headers: %v", err)
			}
			msgs = append(msgs, &c01Msg{env: env, payload: p, counter: c0 + uint64(i) + 1, hdr: hdr, menv: me})
		}
		mEnv := vSeal(w.M, g, []byte("from the other device"))
		_, mHdr, _ := w.R.s.OpenEnvelopeHeaders(mEnv, g)

		var trace []string
		fail := func(id, f string, a ...any) {
			msg := fmt.Sprintf(f, a...)
			acct.Violation(id, "TestVerif_C01_Envelopes", map[string]any{"kind": vKindNames[kind], "window": window, "trace": trace, "msg": msg})
			rt.Fatalf("%s: %s\n%s", id, msg, strings.Join(trace, "\n"))
		}
		// what was handed to the application stays what it was: every delivered payload is kept and compared again at
		// the end of the session (after forgeries and further opens went through the same store)
		type kept struct {
			got, snap []byte
			what      string
		}
		var delivered []kept
		honest := func(d *vDev, m *c01Msg, when string) {
			o, err := vOpen(d, g, m.env, vCID(m.env))
			if err == nil {
				delivered = append(delivered, kept{o.Payload, append([]byte(nil), o.Payload...), fmt.Sprintf("#%d opened at %s %s", m.counter, d.name, when)})
			}
			trace = append(trace, fmt.Sprintf("honest open of #%d (len %d) at %s %s -> err=%v", m.counter, len(m.payload), d.name, when, err))
			if err != nil {
				fail("honest-rejected/"+when, "genuine envelope counter %d (payload %d bytes) rejected at %s: %v", m.counter, len(m.payload), d.name, err)
			}
			if !bytes.Equal(o.Payload, m.payload) {
				fail("honest-wrong-payload", "genuine envelope counter %d opened to different content", m.counter)
			}
			if !bytes.Equal(o.Device, sDev) || o.Counter != m.counter {
				fail("honest-wrong-attribution", "genuine envelope attributed to device %x counter %d, sealed by %x counter %d", o.Device, o.Counter, sDev, m.counter)
			}
		}

		// some genuine messages are opened before the forgeries, the others after
		openBefore := make([]bool, n)
		nonEmptyHonest := false
		for i, m := range msgs {
			openBefore[i] = rapid.Bool().Draw(rt, fmt.Sprintf("before%d", i))
			if openBefore[i] {
				honest(w.R, m, "before-forgeries")
				// the same message also reaches R outside the store (push); the cleartext handed out is the sealed unit
				if _, _, clear, _, err := w.R.s.OpenOutOfStoreMessage(vctx, c14Push(w.S, g, m.env)); err == nil {
					if !bytes.Equal(clear, vWrap(m.payload)) && !bytes.Equal(clear, m.payload) {
						fail("honest-wrong-payload", "genuine message counter %d delivered out of store with different content", m.counter)
					}
					delivered = append(delivered, kept{clear, append([]byte(nil), clear...), fmt.Sprintf("#%d delivered out of store at R before-forgeries", m.counter)})
				}
			}
			if len(m.payload) > 0 {
				nonEmptyHonest = true
			}
		}

		// ---- mutants
		var muts []c01Mutant
		target := msgs[rapid.IntRange(0, n-1).Draw(rt, "target")]
		other := msgs[rapid.IntRange(0, n-1).Draw(rt, "other")]
		nonce := func() (nn [24]byte) { _, _ = crand.Read(nn[:]); return }
		reseal := func(label string, hdr *protocoltypes.MessageHeaders, payload []byte, decrypts bool) {
			muts = append(muts, c01Mutant{label: label, env: vBuildEnvelope(g, hdr, payload, nonce()), decrypts: decrypts})
		}
		// (a) bit flips of the serialized envelope
		nbits := len(target.env) * 8
		var bits []int
		if len(target.env) <= 512 {
			for b := 0; b < nbits; b++ {
				bits = append(bits, b)
			}
		} else {
			for b := 0; b < 256*8; b++ {
				bits = append(bits, b)
			}
			for b := nbits - 64*8; b < nbits; b++ {
				bits = append(bits, b)
			}
			for i := 0; i < 256; i++ {
				bits = append(bits, rapid.IntRange(0, nbits-1).Draw(rt, "bit"))
			}
		}
		// (b) field substitutions between envelopes and re-sealed headers
		if other != target {
			sub := func(label string, h, m, nn []byte) {
				b, _ := proto.Marshal(&protocoltypes.MessageEnvelope{MessageHeaders: h, Message: m, Nonce: nn})
				muts = append(muts, c01Mutant{label: label, env: b})
			}
			sub("b/swap-message", target.menv.MessageHeaders, other.menv.Message, target.menv.Nonce)
			sub("b/swap-headers", other.menv.MessageHeaders, target.menv.Message, other.menv.Nonce)
			sub("b/swap-nonce", target.menv.MessageHeaders, target.menv.Message, other.menv.Nonce)
			reseal("b/reseal-same-device-other-counter", &protocoltypes.MessageHeaders{Counter: other.counter, DevicePk: sDev, Sig: target.hdr.Sig}, target.menv.Message, false)
			if !bytes.Equal(other.payload, target.payload) { // equal payloads have equal (deterministic) signatures: that would be the genuine content
				reseal("b/reseal-sig-from-other-message", &protocoltypes.MessageHeaders{Counter: target.counter, DevicePk: sDev, Sig: other.hdr.Sig}, target.menv.Message, true)
			}
		}
		sub2 := func(label string, h, m, nn []byte) {
			b, _ := proto.Marshal(&protocoltypes.MessageEnvelope{MessageHeaders: h, Message: m, Nonce: nn})
			muts = append(muts, c01Mutant{label: label, env: b})
		}
		sub2("b/message-from-other-sender", target.menv.MessageHeaders, func() []byte { e, _, _ := w.R.s.OpenEnvelopeHeaders(mEnv, g); return e.Message }(), target.menv.Nonce)
		sub2("b/missing-nonce", target.menv.MessageHeaders, target.menv.Message, nil)
		sub2("b/missing-headers", nil, target.menv.Message, target.menv.Nonce)
		sub2("b/missing-message", target.menv.MessageHeaders, nil, target.menv.Nonce)
		reseal("b/reseal-other-device-same-counter", &protocoltypes.MessageHeaders{Counter: target.counter, DevicePk: mDev, Sig: target.hdr.Sig}, target.menv.Message, false)
		reseal("b/reseal-other-device-its-counter", &protocoltypes.MessageHeaders{Counter: mHdr.Counter, DevicePk: mDev, Sig: target.hdr.Sig}, target.menv.Message, false)
		reseal("b/reseal-counter+1", &protocoltypes.MessageHeaders{Counter: target.counter + 1, DevicePk: sDev, Sig: target.hdr.Sig}, target.menv.Message, false)
		reseal("b/reseal-counter-0", &protocoltypes.MessageHeaders{Counter: 0, DevicePk: sDev, Sig: target.hdr.Sig}, target.menv.Message, false)
		reseal("b/reseal-empty-sig", &protocoltypes.MessageHeaders{Counter: target.counter, DevicePk: sDev}, target.menv.Message, true)
		reseal("b/reseal-truncated-sig", &protocoltypes.MessageHeaders{Counter: target.counter, DevicePk: sDev, Sig: target.hdr.Sig[:32]}, target.menv.Message, true)
		reseal("b/reseal-bad-device-key", &protocoltypes.MessageHeaders{Counter: target.counter, DevicePk: sDev[:31], Sig: target.hdr.Sig}, target.menv.Message, false)
		// (c) other group
		muts = append(muts, c01Mutant{label: "c/as-is-in-other-group", env: target.env})
		muts = append(muts, c01Mutant{label: "c/resealed-for-other-group", env: vBuildEnvelope(g2, target.hdr, target.menv.Message, nonce())})
		// (d) insider forgery: right message key, no device signing key
		forgeAt := func(label string, k uint64, sig []byte, payload []byte) {
			mk := vMessageKeyAt(sCK.ChainKey, c0, k, gid)
			wrapped := vWrap(payload)
			muts = append(muts, c01Mutant{label: label, decrypts: true,
				env: vBuildEnvelope(g, &protocoltypes.MessageHeaders{Counter: k, DevicePk: sDev, Sig: sig}, vSealPayloadWithKey(mk, k, wrapped), nonce())})
		}
		forged := []byte("FORGED: the sender never wrote this")
		insiderSig, _ := w.M.md(g).device.Sign(vWrap(forged))
		memberSig, _ := w.M.md(g).member.Sign(vWrap(forged))
		rnd := make([]byte, 64)
		_, _ = crand.Read(rnd)
		future := c0 + uint64(n) + 1 // not sealed yet by S
		for _, k := range []uint64{target.counter, future} {
			tag := "sealed-counter"
			if k == future {
				tag = "future-counter"
			}
			forgeAt("d/insider-own-device-sig/"+tag, k, insiderSig, forged)
			forgeAt("d/insider-member-sig/"+tag, k, memberSig, forged)
			forgeAt("d/random-sig/"+tag, k, rnd, forged)
			forgeAt("d/copied-genuine-sig/"+tag, k, target.hdr.Sig, forged)
			forgeAt("d/empty-sig/"+tag, k, nil, forged)
		}
		// same payload as the genuine one but re-encrypted by the insider with a signature it cannot make
		forgeAt("d/genuine-payload-insider-sig", target.counter, func() []byte { s, _ := w.M.md(g).device.Sign(vWrap(target.payload)); return s }(), target.payload)

		present := func(label string, env []byte, grp *protocoltypes.Group, times int) {
			id := vCID(env)
			for a := 1; a <= times; a++ {
				o, err := vOpen(w.R, grp, env, id)
				if err == nil {
					trace = append(trace, fmt.Sprintf("mutant %s attempt %d ACCEPTED as device %x counter %d payload %q", label, a, o.Device, o.Counter, trunc(o.Payload, 40)))
					class := label
					if i := strings.Index(label, "/"); i > 0 {
						class = label[:i]
						if class == "a" {
							label = "a/bitflip"
						}
					}
					which := "first-presentation"
					if a > 1 {
						which = "re-presentation"
					}
					fail("forgery-accepted/"+label+"/"+which, "envelope not produced by the sender was opened on attempt %d (class %s): device %x counter %d payload %q", a, class, o.Device, o.Counter, trunc(o.Payload, 60))
				}
			}
		}
		classes := map[string]bool{}
		decrypting := 0
		for _, b := range bits {
			present(fmt.Sprintf("a/bit%d", b), c01Flip(target.env, b), g, 1)
		}
		classes["a"] = true
		// a few flips are presented twice
		for i := 0; i < 8 && i < len(bits); i++ {
			b := bits[(i*7919)%len(bits)]
			present(fmt.Sprintf("a/bit%d", b), c01Flip(target.env, b), g, 2)
		}
		for _, m := range muts {
			grp := g
			if strings.HasPrefix(m.label, "c/") {
				grp = g2
			}
			trace = append(trace, "mutant "+m.label)
			present(m.label, m.env, grp, 3)
			classes[m.label[:1]] = true
			if m.decrypts {
				decrypting++
			}
		}
		// (f) a forgery attributed to the OPENING device itself: the insider also holds the receiver's chain key (every
		// member was sent it); the receiver has sealed and read back messages of its own, then an envelope naming its
		// device at its next counters arrives, sealed by the insider
		if err := vShare(g, w.R, w.M); err == nil {
			encR, _ := w.R.s.GetShareableChainKey(vctx, g, w.M.md(g).Member())
			if rCK, err := decryptDeviceChainKey(encR, g, w.M.md(g).member, w.R.md(g).Device()); err == nil {
				rDev := vRaw(w.R.md(g).Device())
				own := vSeal(w.R, g, []byte("the receiver's own message"))
				if _, err := vOpen(w.R, g, own, vCID(own)); err != nil {
					fail("honest-rejected/own-message", "the receiver cannot read back its own message: %v", err)
				}
				for _, k := range []uint64{rCK.Counter + 1, rCK.Counter + 2} { // the one just sealed, and the next one
					mk := vMessageKeyAt(rCK.ChainKey, rCK.Counter, k, gid)
					fenv := vBuildEnvelope(g, &protocoltypes.MessageHeaders{Counter: k, DevicePk: rDev, Sig: insiderSig}, vSealPayloadWithKey(mk, k, vWrap(forged)), nonce())
					present(fmt.Sprintf("f/attributed-to-the-opening-device/counter+%d", k-rCK.Counter), fenv, g, 2)
				}
				classes["f"] = true
				decrypting++
				// its own next message still round-trips
				own2 := vSeal(w.R, g, []byte("second own message"))
				if o, err := vOpen(w.R, g, own2, vCID(own2)); err != nil || !bytes.Equal(o.Payload, []byte("second own message")) {
					fail("honest-rejected/own-message", "after forgeries naming its own device the receiver cannot read back its next own message: %v", err)
				}
			}
		}
		// (e) the insider first relays a genuine message of the sender outside the store (push), announcing it under the
		// content identifier of an entry it forged for the same counter; then the forged entry arrives through the store
		for i, m := range msgs {
			if openBefore[i] && rapid.Bool().Draw(rt, "e-skip-opened") {
				continue
			}
			mk := vMessageKeyAt(sCK.ChainKey, c0, m.counter, gid)
			fenv := vBuildEnvelope(g, &protocoltypes.MessageHeaders{Counter: m.counter, DevicePk: sDev, Sig: insiderSig}, vSealPayloadWithKey(mk, m.counter, vWrap(forged)), nonce())
			if oos, err := w.M.s.SealOutOfStoreMessageEnvelope(vCID(fenv), m.menv, m.hdr, g); err == nil {
				b, _ := proto.Marshal(oos)
				_, _, _, _, perr := w.R.s.OpenOutOfStoreMessage(vctx, b)
				trace = append(trace, fmt.Sprintf("push of genuine #%d announced under the identifier of a forged entry -> err=%v", m.counter, perr))
			}
			present("e/forged-entry-announced-by-push", fenv, g, 2)
			classes["e"] = true
			decrypting++
			break
		}
		// a rejected forgery neither consumes nor corrupts the genuine message
		for i, m := range msgs {
			if openBefore[i] {
				honest(w.R, m, "reopen-after-forgeries")
			} else {
				honest(w.R, m, "first-open-after-forgeries")
			}
		}
		// (g) every genuine message has now been received through the store. The insider sends a push that cites the
		// content identifier of such an entry (a field the sealer of a push chooses freely) but carries another payload,
		// encrypted with the right message key and signed with a key of its own
		for _, m := range msgs {
			mk := vMessageKeyAt(sCK.ChainKey, c0, m.counter, gid)
			fhdr := &protocoltypes.MessageHeaders{Counter: m.counter, DevicePk: sDev, Sig: insiderSig}
			fme := &protocoltypes.MessageEnvelope{Message: vSealPayloadWithKey(mk, m.counter, vWrap(forged))}
			oos, err := w.M.s.SealOutOfStoreMessageEnvelope(vCID(m.env), fme, fhdr, g)
			if err != nil {
				break
			}
			b, _ := proto.Marshal(oos)
			_, _, clear, _, perr := w.R.s.OpenOutOfStoreMessage(vctx, b)
			trace = append(trace, fmt.Sprintf("forged push citing the identifier of received entry #%d -> err=%v", m.counter, perr))
			if perr == nil {
				fail("forgery-accepted/g/forged-push-citing-a-received-entry", "a push payload forged by a fellow member (right message key, its own signature) that cites the content identifier of an entry already received through the store was opened: %q attributed to the sender at counter %d", trunc(clear, 40), m.counter)
			}
			classes["g"] = true
			decrypting++
			break
		}
		// the message S seals next (the counter the insider forged ahead of) still opens
		nextP := []byte("next genuine message")
		nextEnv := vSeal(w.S, g, nextP)
		honest(w.R, &c01Msg{env: nextEnv, payload: nextP, counter: future}, "future-counter-after-forgery")
		honest(w.M, target, "at-third-member")
		for _, k := range delivered {
			if !bytes.Equal(k.got, k.snap) {
				fail("delivered-payload-changed", "the payload handed out for %s changed afterwards (%d bytes; first difference at byte %d)", k.what, len(k.snap), func() int {
					for i := range k.snap {
						if i >= len(k.got) || k.got[i] != k.snap[i] {
							return i
						}
					}
					return -1
				}())
			}
		}

		var cl []string
		for c := range classes {
			cl = append(cl, c)
		}
		sort.Strings(cl)
		bucket := 0
		for _, s := range c01Sizes {
			if len(target.payload) >= s {
				bucket = s
			}
		}
		nt := nonEmptyHonest && decrypting > 0
		acct.Case(nt, fmt.Sprintf("%d|%d|%d|%s|%d|%d", kind, window, bucket, strings.Join(cl, ""), n, len(bits)), func() any {
			return map[string]any{"kind": vKindNames[kind], "window": window, "messages": n, "target_payload_len": len(target.payload), "bitflips": len(bits),
				"mutants": len(muts), "decrypting_mutants": decrypting, "classes": cl}
		}, "envelopes", "kind/"+vKindNames[kind], lbl(len(target.payload) >= 4096, "payload>=4KiB"), lbl(len(target.payload) == 0, "payload-empty"))
		acct.LabelN("mutants-presented", int64(len(bits)+len(muts)))
		acct.LabelN("mutants-decrypting-to-signature-check", int64(decrypting))
	})
}

func trunc(b []byte, n int) []byte {
	if len(b) > n {
		return b[:n]
	}
	return b
}

func lbl(b bool, s string) string {
	if b {
		return s
	}
	return "-"
}

var _ crypto.PubKey
