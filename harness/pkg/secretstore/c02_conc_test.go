//go:build verif

package secretstore

import (
	"bytes"
	"fmt"
	"strings"
	"testing"

	"pgregory.net/rapid"

	"berty.tech/weshnet/v2/internal/vacct"
	"berty.tech/weshnet/v2/internal/vsched"
	"berty.tech/weshnet/v2/pkg/protocoltypes"
)

// C02 under overlapping arrivals ("whatever the ... interleaving in which envelopes arrive"): several tasks open
// envelopes of one sender at the same time (with duplicates) while another registers the announcement. An attempt made
// while things are in flight may fail; afterwards, retried in order, every message sealed after the registered counter
// opens to its payload, re-opens succeed, and messages sealed before it never open.
// (runs in the unit whose secret_store_messages.go is instrumented with schedule points)

type c02cScenario struct {
	W       int     `json:"window"`
	N       int     `json:"n"`        // messages sealed
	C       int     `json:"c"`        // the announcement is taken after this many messages
	RegTask bool    `json:"reg_task"` // the registration is one of the overlapping tasks (else done before)
	ReReg   bool    `json:"rereg"`    // a second task re-delivers the announcement meanwhile
	Openers [][]int `json:"openers"`  // per task: message numbers attempted, in this order
}

func c02cRun(t *testing.T, sc c02cScenario, choices []int) vsched.Outcome {
	var out vsched.Outcome
	var R *vDev
	var snd *c02Sender
	var g *protocoltypes.Group
	type res struct {
		k  int
		ok bool
		p  []byte
	}
	var results []res
	var regErrs []string
	out.Res = vsched.Run(t, vsched.Options{Choices: choices, MaxSteps: 8000}, func(s *vsched.Sched) {
		ds := newRecDS()
		R = vNewDevOn("R", ds, sc.W, 8)
		S := vNewDev("S", sc.W, 8)
		g, _, _ = protocoltypes.NewGroupMultiMember()
		_ = R.s.PutGroup(vctx, g)
		_ = S.s.PutGroup(vctx, g)
		snd = c02Setup(g, S, R, sc.N)
		sdev := S.md(g).Device()
		register := func() {
			if err := R.s.RegisterChainKey(vctx, g, sdev, snd.anns[uint64(sc.C)]); err != nil {
				regErrs = append(regErrs, err.Error())
			}
		}
		if !sc.RegTask {
			register()
		}
		ds.Hook = func(op, key string) {
			if strings.Contains(key, namespaceDeviceKeystore) {
				return
			}
			vsched.Yield("ds:" + op)
		}
		if sc.RegTask {
			s.Go("register", register)
		}
		if sc.ReReg {
			s.Go("re-register", register)
		}
		for ti, ks := range sc.Openers {
			s.Go(fmt.Sprintf("opener%d", ti), func() {
				for _, k := range ks {
					o, err := vOpen(R, g, snd.envs[k-1], vCID(snd.envs[k-1]))
					r := res{k: k, ok: err == nil}
					if err == nil {
						r.p = o.Payload
					}
					results = append(results, r)
				}
			})
		}
		s.Cleanup = func() { ds.Hook = nil }
	})
	out.Standard()
	if len(regErrs) > 0 {
		out.Fail("register-error", "RegisterChainKey failed under an overlapping schedule: %v", regErrs)
	}
	for _, st := range out.Res.Terminal {
		if st.State != "done" && out.Violation == "" {
			out.Fail("task-stuck", "task did not finish: %+v", st)
		}
	}
	if out.Violation != "" {
		return out
	}
	for _, r := range results {
		if r.ok && r.k <= sc.C {
			out.Fail("unopenable-accepted", "message %d, sealed before the registered counter %d, opened", r.k, sc.C)
			return out
		}
		if r.ok && !bytes.Equal(r.p, snd.payloads[r.k-1]) {
			out.Fail("wrong-payload", "message %d opened to other content while other opens were in flight", r.k)
			return out
		}
	}
	// the window rule right after the overlapping phase: with m distinct messages opened, counter c + W + m is openable
	openedSet := map[int]bool{}
	for _, r := range results {
		if r.ok {
			openedSet[r.k] = true
		}
	}
	if top := sc.C + sc.W + len(openedSet); top <= sc.N && !openedSet[top] && len(openedSet) > 0 {
		if _, err := vOpen(R, g, snd.envs[top-1], vCID(snd.envs[top-1])); err != nil {
			out.Fail("openable-rejected", "registered at %d with window %d, %d distinct messages were opened by overlapping tasks, so message %d is openable, but it fails: %v", sc.C, sc.W, len(openedSet), top, err)
			return out
		}
		out.Labels = append(out.Labels, "concurrent/window-top-attempted")
	}
	// retried in order: everything after c opens (twice), nothing before does
	for pass := 0; pass < 2; pass++ {
		for k := sc.C + 1; k <= sc.N; k++ {
			o, err := vOpen(R, g, snd.envs[k-1], vCID(snd.envs[k-1]))
			if err != nil {
				out.Fail("openable-rejected", "after overlapping arrivals, message %d (registered at %d, window %d) retried in order does not open (pass %d): %v", k, sc.C, sc.W, pass, err)
				return out
			}
			if !bytes.Equal(o.Payload, snd.payloads[k-1]) || o.Counter != uint64(k) {
				out.Fail("wrong-payload", "message %d opens to other content / counter %d", k, o.Counter)
				return out
			}
		}
	}
	for k := 1; k <= sc.C; k++ {
		if _, err := vOpen(R, g, snd.envs[k-1], vCID(snd.envs[k-1])); err == nil {
			out.Fail("unopenable-accepted", "message %d, sealed before the registered counter %d, opens", k, sc.C)
			return out
		}
	}
	for _, st := range out.Res.Trace {
		if strings.HasSuffix(st.Point, "/wait") {
			out.NonTrivial = true
		}
	}
	if out.NonTrivial {
		out.Labels = append(out.Labels, "concurrent/contended-lock")
	}
	return out
}

func TestVerifCtl_C02_Concurrent(t *testing.T) {
	e := &vsched.Explorer[c02cScenario]{PID: "C02", Prefix: "concurrent", Test: "TestVerifCtl_C02_Concurrent", Run: c02cRun}
	if p := vacct.ReplayPath(); p != "" {
		e.Replay(t, p)
		return
	}
	scs := []c02cScenario{
		{W: 2, N: 4, C: 0, Openers: [][]int{{1, 2}, {2, 3}}},
		{W: 1, N: 3, C: 1, RegTask: true, Openers: [][]int{{2}, {2, 3}}},
		{W: 2, N: 4, C: 0, ReReg: true, Openers: [][]int{{1, 3}, {2}}},
		{W: 1, N: 4, C: 0, Openers: [][]int{{1}, {1, 2}}},
		// the same announcement delivered twice at once (the metadata event handler and the replay of the log at
		// activation both register what they see) while a message is opened
		{W: 1, N: 4, C: 1, RegTask: true, ReReg: true, Openers: [][]int{{2}}},
	}
	maxRuns, maxPre := 8000, 1
	if vacct.Thorough() {
		scs = append(scs, c02cScenario{W: 3, N: 6, C: 1, RegTask: true, ReReg: true, Openers: [][]int{{2, 3, 4}, {4, 2}}}, c02cScenario{W: 1, N: 4, C: 0, Openers: [][]int{{1}, {1}, {2}}})
		maxRuns, maxPre = 40000, 3
	}
	shard, nshards := vacct.Shard()
	for i, sc := range scs {
		if i%nshards == shard {
			e.DFS(t, sc, maxPre, maxRuns)
		}
	}
}

func TestVerifCtl_C02_ConcurrentRandom(t *testing.T) {
	e := &vsched.Explorer[c02cScenario]{PID: "C02", Prefix: "concurrent", Test: "TestVerifCtl_C02_ConcurrentRandom", Run: c02cRun}
	if p := vacct.ReplayPath(); p != "" {
		e.Replay(t, p)
		return
	}
	e.Random(t, vacct.N(100, 8000), func(rt *rapid.T) c02cScenario {
		sc := c02cScenario{W: rapid.IntRange(1, 3).Draw(rt, "W"), N: rapid.IntRange(3, 7).Draw(rt, "N"), RegTask: rapid.Bool().Draw(rt, "regtask"), ReReg: rapid.IntRange(0, 2).Draw(rt, "rereg") == 0}
		sc.C = rapid.IntRange(0, min(2, sc.N-1)).Draw(rt, "c")
		for i, n := 0, rapid.IntRange(2, 3).Draw(rt, "openers"); i < n; i++ {
			sc.Openers = append(sc.Openers, rapid.SliceOfN(rapid.IntRange(1, sc.N), 1, 3).Draw(rt, "ks"))
		}
		return sc
	}, 400)
}
