//go:build verif

package secretstore

import (
	"bytes"
	"fmt"
	"strings"
	"testing"

	"pgregory.net/rapid"

	"berty.tech/weshnet/v2/internal/vacct"
	"berty.tech/weshnet/v2/pkg/protocoltypes"
)

// C05 with a transient storage failure on the recipient: one write (put or batch commit) fails once while the
// announcement is registered. The registration may report the error and be repeated (the announcement is delivered
// again at the next activation); in the end "registering it makes the sender's subsequent messages openable" holds.
func TestVerif_C05_TransientWriteFailure(t *testing.T) {
	acct := vacct.Get("C05")
	vacct.RapidCheck(t, vacct.N(150, 15000), func(rt *rapid.T) {
		window := rapid.SampledFrom([]int{2, 5, 100}).Draw(rt, "window")
		S := vNewDev("S", window, 4)
		ds := newRecDS()
		ds.NoBatch = rapid.IntRange(0, 3).Draw(rt, "nobatch") == 0
		R := vNewDevOn("R", ds, window, 4)
		g, _, _ := protocoltypes.NewGroupMultiMember()
		_ = S.s.PutGroup(vctx, g)
		_ = R.s.PutGroup(vctx, g)
		pre := rapid.IntRange(0, 3).Draw(rt, "pre")
		for i := 0; i < pre; i++ {
			vSeal(S, g, []byte("before the announcement"))
		}
		enc, err := S.s.GetShareableChainKey(vctx, g, R.md(g).Member())
		if err != nil {
			rt.Fatalf("harness: %v", err)
		}
		var envs, pays [][]byte
		for i := 0; i < 3; i++ {
			p := []byte(fmt.Sprintf("after-the-announcement-%d", i))
			envs, pays = append(envs, vSeal(S, g, p)), append(pays, p)
		}
		failAt := rapid.IntRange(1, 4).Draw(rt, "failAt")
		reads := rapid.IntRange(0, 2).Draw(rt, "reads") == 0
		// with read failures the announcement may also be a re-delivery: registered before, one message already opened
		redelivery := reads && rapid.Bool().Draw(rt, "redelivery")
		if reads {
			failAt = rapid.IntRange(1, 6).Draw(rt, "failAtRead")
		}
		seen, fired := 0, false
		hit := func() bool {
			seen++
			if seen == failAt && !fired {
				fired = true
				return true
			}
			return false
		}
		sdev := S.md(g).Device()
		if redelivery {
			if err := R.s.RegisterChainKey(vctx, g, sdev, enc); err != nil {
				rt.Fatalf("harness: %v", err)
			}
			if o, err := vOpen(R, g, envs[0], vCID(envs[0])); err != nil || !bytes.Equal(o.Payload, pays[0]) {
				rt.Fatalf("harness: first message after a clean registration: %v", err)
			}
		}
		if reads {
			ds.FailGet = func(key string) bool {
				for _, ns := range []string{dsNamespaceChainKeyForDeviceOnGroup, dsNamespacePrecomputedMessageKeys, dsNamespaceMessageKeyForCIDs, dsNamespaceGroupDatastore} {
					if strings.Contains(key, ns) {
						return hit()
					}
				}
				return false
			}
		} else {
			ds.FailPut = func(string) bool { return hit() }
			ds.FailCommit = func([]string) bool { return hit() }
		}
		err1 := R.s.RegisterChainKey(vctx, g, sdev, enc)
		ds.FailPut, ds.FailCommit, ds.FailGet = nil, nil, nil
		desc := map[string]any{"window": window, "non_batching": ds.NoBatch, "messages_before_announcement": pre, "failing_access": failAt, "failing_access_is_a_read": reads, "announcement_is_a_redelivery": redelivery,
			"fault_fired": fired, "first_registration_failed": err1 != nil}
		pfx := "write-fault/"
		if reads {
			pfx = "read-fault/"
		}
		fail := func(id, f string, a ...any) {
			msg := fmt.Sprintf(f, a...)
			acct.Violation(pfx+id, "TestVerif_C05_TransientWriteFailure", map[string]any{"case": desc, "msg": msg})
			rt.Fatalf("C05 %s%s: %s (%v)", pfx, id, msg, desc)
		}
		if err1 != nil && !fired {
			fail("recipient-cannot-open", "registration failed without an injected failure: %v", err1)
		}
		// the announcement is delivered again (live event, then catch-up at the next activation)
		if err := R.s.RegisterChainKey(vctx, g, sdev, enc); err != nil {
			fail("recipient-cannot-open", "registering the announcement again after a transient storage failure fails: %v", err)
		}
		for i, env := range envs {
			o, err := vOpen(R, g, env, vCID(env))
			if err != nil {
				fail("announced-key-not-usable", "one storage access failed once while the announcement was registered (first call returned error: %v); now the sender counts as registered but its message %d sealed after the announcement cannot be opened: %v", err1 != nil, i+1, err)
			}
			if !bytes.Equal(o.Payload, pays[i]) {
				fail("wrong-payload", "message %d opens to other content", i+1)
			}
		}
		acct.Case(fired, fmt.Sprintf("c05wf|%d|%v|%d|%d|%v|%v", window, ds.NoBatch, pre, failAt, reads, redelivery), func() any { return desc }, "write-fault", lbl(fired && !reads, "write-fault/fired"),
			lbl(fired && reads, "read-fault/fired"), lbl(fired && redelivery, "read-fault/fired-during-redelivery"), lbl(fired && err1 == nil, "write-fault/first-call-reported-success"))
	})
}
