//go:build verif

package tinder

import (
	"context"
	"fmt"
	"os"
	"sort"
	"testing"
	"time"

	"github.com/libp2p/go-libp2p/core/peer"
	"pgregory.net/rapid"

	"berty.tech/weshnet/v2/internal/vacct"
	"berty.tech/weshnet/v2/internal/vsched"
)

func TestMain(m *testing.M) { os.Exit(vacct.Main(m)) }

// C16, discovery peer cache: waiters call WaitForPeerUpdate in a loop while an
// updater registers (distinct) peers on topics.

type c16CacheOp struct {
	Topic int `json:"topic"`
	Peer  int `json:"peer"`
}

type c16CacheScenario struct {
	WaiterTopics []int        `json:"waiter_topics"` // topic each waiter follows
	Ops          []c16CacheOp `json:"ops"`
	Cancel       bool         `json:"cancel"`
	Readers      []int        `json:"readers,omitempty"` // topic each reader lists (GetPeersForTopics, GetPeers) meanwhile
}

func c16PeerID(i int) peer.ID { return peer.ID(fmt.Sprintf("12D3KooW-verif-peer-%02d", i)) }

func c16CacheRun(t *testing.T, sc c16CacheScenario, choices []int) vsched.Outcome {
	var out vsched.Outcome
	var c *peersCache
	nw := len(sc.WaiterTopics)
	views := make([]PeersUpdate, nw)
	exact := ""
	cancelled := false
	out.Res = vsched.Run(t, vsched.Options{Choices: choices, MaxSteps: 1200}, func(s *vsched.Sched) {
		c = newPeerCache()
		ctxs := make([]context.Context, nw)
		cancels := make([]context.CancelFunc, nw)
		for i := range ctxs {
			ctxs[i], cancels[i] = context.WithCancel(context.Background())
		}
		for i, tp := range sc.WaiterTopics {
			views[i] = PeersUpdate{}
			topic := fmt.Sprintf("topic%d", tp)
			s.Go(fmt.Sprintf("waiter%d", i), func() {
				for {
					before := map[peer.ID]time.Time{}
					for k, v := range views[i] {
						before[k] = v
					}
					updated, ok := c.WaitForPeerUpdate(ctxs[i], topic, views[i])
					if !ok {
						return
					}
					// exactness: the returned peers are exactly those whose entry changed
					var changed []string
					for k, v := range views[i] {
						if b, had := before[k]; !had || !b.Equal(v) {
							changed = append(changed, string(k))
						}
					}
					var got []string
					for _, p := range updated {
						got = append(got, string(p))
					}
					sort.Strings(changed)
					sort.Strings(got)
					if fmt.Sprint(changed) != fmt.Sprint(got) && exact == "" {
						exact = fmt.Sprintf("waiter%d: returned %v but entries changed for %v", i, got, changed)
					}
					if len(updated) == 0 && exact == "" {
						exact = fmt.Sprintf("waiter%d: returned ok with no updated peer", i)
					}
				}
			})
		}
		for i, tp := range sc.Readers {
			topic := fmt.Sprintf("topic%d", tp)
			s.Go(fmt.Sprintf("reader%d", i), func() {
				prev := map[peer.ID]bool{}
				for round := 0; round < 2; round++ {
					now := map[peer.ID]bool{}
					for _, ai := range c.GetPeersForTopics(topic) {
						registered := false
						for _, op := range sc.Ops {
							if op.Topic == tp && c16PeerID(op.Peer) == ai.ID {
								registered = true
							}
						}
						if (!registered || now[ai.ID]) && exact == "" {
							exact = fmt.Sprintf("reader%d: listing of %s holds %q (registered on it: %v, already listed: %v)", i, topic, ai.ID, registered, now[ai.ID])
						}
						now[ai.ID] = true
					}
					for id := range prev {
						if !now[id] && exact == "" {
							exact = fmt.Sprintf("reader%d: peer %q listed on %s, then no longer listed (nothing removes peers here)", i, id, topic)
						}
					}
					prev = now
					for _, ai := range c.GetPeers(c16PeerID(1)) {
						if ai.ID != "" && ai.ID != c16PeerID(1) && exact == "" {
							exact = fmt.Sprintf("reader%d: GetPeers(peer 1) returned %q", i, ai.ID)
						}
					}
				}
			})
		}
		s.Go("updater", func() {
			for _, op := range sc.Ops {
				c.UpdatePeer(fmt.Sprintf("topic%d", op.Topic), peer.AddrInfo{ID: c16PeerID(op.Peer)})
			}
		})
		if sc.Cancel {
			s.Go("canceller", func() {
				vsched.Yield("h:cancel")
				cancelled = true
				cancels[0]()
			})
		}
		s.Cleanup = func() {
			for _, cf := range cancels {
				cf()
			}
		}
	})
	out.Standard()
	if exact != "" {
		out.Fail("inexact-update", "%s", exact)
	}
	if st := out.Res.Status("updater"); st != nil && st.State != "done" {
		out.Fail("updater-stuck", "updater did not finish: %+v", *st)
	}
	for i := range sc.Readers {
		if st := out.Res.Status(fmt.Sprintf("reader%d", i)); st != nil && st.State != "done" {
			out.Fail("reader-stuck", "reader%d did not finish: %+v", i, *st)
		}
	}
	if len(sc.Readers) > 0 {
		out.Labels = append(out.Labels, "peercache/with-reader")
	}
	slept := false
	for i, tp := range sc.WaiterTopics {
		st := out.Res.Status(fmt.Sprintf("waiter%d", i))
		if st == nil || st.State != "blocked" {
			continue
		}
		slept = true
		if tu, ok := c.topics[fmt.Sprintf("topic%d", tp)]; ok {
			for p, at := range tu.peerUpdate {
				if seen, ok := views[i][p]; !ok || at.After(seen) {
					out.Fail("missed-update", "waiter%d asleep at %s without having seen peer %s of its topic", i, st.Point, p)
				}
			}
		}
		if i == 0 && cancelled {
			out.Fail("cancel-ignored", "waiter0 still asleep at %s after cancellation", st.Point)
		}
	}
	out.NonTrivial = slept && c16CacheUpdateInWindow(out.Res)
	if out.NonTrivial {
		out.Labels = append(out.Labels, "peercache/update-between-check-and-sleep")
	}
	if sc.Cancel {
		out.Labels = append(out.Labels, "peercache/with-cancel")
	}
	return out
}

func c16CacheUpdateInWindow(r *vsched.Result) bool {
	lastW := map[string]int{}
	for i, st := range r.Trace {
		if len(st.G) >= 6 && st.G[:6] == "waiter" {
			if j, ok := lastW[st.G]; ok && len(st.Point) > 7 && st.Point[len(st.Point)-7:] == ":select" {
				for k := j + 1; k < i; k++ {
					if r.Trace[k].G == "updater" {
						return true
					}
				}
			}
			lastW[st.G] = i
		}
	}
	return false
}

func TestVerif_C16_PeerCache(t *testing.T) {
	e := &vsched.Explorer[c16CacheScenario]{PID: "C16", Prefix: "peercache", Test: "TestVerif_C16_PeerCache", Run: c16CacheRun}
	if p := vacct.ReplayPath(); p != "" {
		e.Replay(t, p)
		return
	}
	scs := []c16CacheScenario{
		{WaiterTopics: []int{0}, Ops: []c16CacheOp{{0, 1}}},
		{WaiterTopics: []int{0}, Ops: []c16CacheOp{{0, 1}, {0, 2}}},
		{WaiterTopics: []int{0}, Ops: []c16CacheOp{{1, 1}, {0, 2}}},
		{WaiterTopics: []int{0}, Ops: []c16CacheOp{{0, 1}}, Cancel: true},
		{WaiterTopics: []int{0, 1}, Ops: []c16CacheOp{{0, 1}, {1, 1}}},
		{WaiterTopics: []int{0}, Ops: []c16CacheOp{{0, 1}, {0, 2}}, Readers: []int{0}},
	}
	maxRuns, maxPre := 5000, 3
	if vacct.Thorough() {
		scs = append(scs, c16CacheScenario{WaiterTopics: []int{0, 0}, Ops: []c16CacheOp{{0, 1}, {0, 2}, {0, 3}}},
			c16CacheScenario{WaiterTopics: []int{0, 1}, Ops: []c16CacheOp{{0, 1}, {1, 2}, {0, 3}}, Cancel: true},
			c16CacheScenario{WaiterTopics: []int{0}, Ops: []c16CacheOp{{0, 1}, {1, 2}, {0, 3}}, Readers: []int{0, 1}})
		maxRuns, maxPre = 300000, 6
	}
	shard, nshards := vacct.Shard()
	for i, sc := range scs {
		if i%nshards == shard {
			e.DFS(t, sc, maxPre, maxRuns)
		}
	}
}

func TestVerif_C16_PeerCacheRandom(t *testing.T) {
	e := &vsched.Explorer[c16CacheScenario]{PID: "C16", Prefix: "peercache", Test: "TestVerif_C16_PeerCacheRandom", Run: c16CacheRun}
	if p := vacct.ReplayPath(); p != "" {
		e.Replay(t, p)
		return
	}
	e.Random(t, vacct.N(400, 40000), func(rt *rapid.T) c16CacheScenario {
		sc := c16CacheScenario{WaiterTopics: rapid.SliceOfN(rapid.IntRange(0, 1), 1, 2).Draw(rt, "wt"), Cancel: rapid.Bool().Draw(rt, "cancel")}
		n := rapid.IntRange(1, 4).Draw(rt, "nops")
		for i := 0; i < n; i++ {
			// distinct peers: under the fake clock equal timestamps would hide a second update of the same peer
			sc.Ops = append(sc.Ops, c16CacheOp{Topic: rapid.IntRange(0, 1).Draw(rt, "topic"), Peer: i + 1})
		}
		sc.Readers = rapid.SliceOfN(rapid.IntRange(0, 1), 0, 1).Draw(rt, "readers")
		return sc
	}, 250)
}
