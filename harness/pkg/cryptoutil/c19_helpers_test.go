//go:build verif

package cryptoutil

import (
	crand "crypto/rand"
	"fmt"
	"os"
	"runtime"
	"strings"
	"testing"

	"github.com/libp2p/go-libp2p/core/crypto"
	"pgregory.net/rapid"

	"berty.tech/weshnet/v2/internal/vacct"
)

func TestMain(m *testing.M) { os.Exit(vacct.Main(m)) }

// C19, helper half: functions exposed to applications for decoding untrusted bytes return errors, never panic.

func c19Safe(name string, f func()) (panicked bool, msg, site string) {
	defer func() {
		if p := recover(); p != nil {
			panicked, msg = true, fmt.Sprint(p)
			pcs := make([]uintptr, 32)
			n := runtime.Callers(3, pcs)
			fr := runtime.CallersFrames(pcs[:n])
			for {
				f, more := fr.Next()
				if strings.Contains(f.Function, "berty.tech/weshnet/v2") && !strings.Contains(f.File, "zz_verif_") {
					site = f.Function[strings.LastIndex(f.Function, "/")+1:]
					break
				}
				if !more {
					break
				}
			}
		}
	}()
	f()
	return
}

func TestVerif_C19_CryptoHelpers(t *testing.T) {
	acct := vacct.Get("C19")
	rsa, _, _ := crypto.GenerateRSAKeyPair(2048, crand.Reader)
	secp, _, _ := crypto.GenerateSecp256k1Key(crand.Reader)
	ed, _, _ := crypto.GenerateEd25519Key(crand.Reader)
	keys := []crypto.PrivKey{rsa, secp, ed}
	vacct.RapidCheck(t, vacct.N(3000, 1500000), func(rt *rapid.T) {
		size := rapid.SampledFrom([]int{0, 1, 11, 12, 13, 15, 16, 17, 23, 24, 25, 27, 28, 29, 31, 32, 33, 64, 200}).Draw(rt, "size")
		data := rapid.SliceOfN(rapid.Byte(), size, size).Draw(rt, "data")
		keyLen := rapid.SampledFrom([]int{0, 1, 15, 16, 24, 31, 32, 33}).Draw(rt, "keylen")
		key := rapid.SliceOfN(rapid.Byte(), keyLen, keyLen).Draw(rt, "key")
		k := keys[rapid.IntRange(0, len(keys)-1).Draw(rt, "k")]
		k2 := keys[rapid.IntRange(0, len(keys)-1).Draw(rt, "k2")] // (never draw inside a recovered call)
		calls := map[string]func(){
			"AESGCMDecrypt": func() { _, _ = AESGCMDecrypt(key, data) },
			"AESGCMEncrypt": func() {
				c, err := AESGCMEncrypt(key, data)
				if err == nil {
					// round trip where the key is usable
					p, err := AESGCMDecrypt(key, c)
					if err != nil || string(p) != string(data) {
						panic(fmt.Sprintf("AESGCM round trip broken: %v", err))
					}
				}
			},
			"KeySliceToArray":            func() { _, _ = KeySliceToArray(data) },
			"NonceSliceToArray":          func() { _, _ = NonceSliceToArray(data) },
			"EdwardsToMontgomeryPub":     func() { _, _ = EdwardsToMontgomeryPub(k.GetPublic()) },
			"EdwardsToMontgomeryPriv":    func() { _, _ = EdwardsToMontgomeryPriv(k) },
			"EdwardsToMontgomery":        func() { _, _, _ = EdwardsToMontgomery(k, k2.GetPublic()) },
			"SeedFromEd25519PrivateKey":  func() { _, _ = SeedFromEd25519PrivateKey(k) },
			"ConcatAndHashSha256":        func() { _ = ConcatAndHashSha256(data, key, nil) },
			"EdwardsToMontgomeryPub/raw": func() { pk, err := crypto.UnmarshalEd25519PublicKey(data); if err == nil { _, _ = EdwardsToMontgomeryPub(pk) } },
		}
		for name, f := range calls {
			if p, msg, site := c19Safe(name, f); p {
				if site == "" {
					site = name
				}
				acct.Violation("helper-panic/"+name+"/"+site, "TestVerif_C19_CryptoHelpers", map[string]any{"helper": name, "data_len": len(data), "key_len": len(key), "key_type": k.Type().String(), "panic": msg, "data_hex": fmt.Sprintf("%x", data)})
				rt.Fatalf("C19: %s panicked (data %d bytes, key %d bytes): %s", name, len(data), len(key), msg)
			}
		}
		acct.Case(true, fmt.Sprintf("%d|%d|%x", len(data), len(key), data[:min(8, len(data))]), func() any {
			return map[string]any{"kind": "crypto-helpers", "data_len": len(data), "key_len": len(key), "key_type": k.Type().String()}
		}, "helpers", fmt.Sprintf("helpers/data-len=%d", len(data)))
	})
}
