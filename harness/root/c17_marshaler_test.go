//go:build verif

package weshnet

import (
	crand "crypto/rand"
	"fmt"
	"strings"
	"testing"
	"testing/synctest"
	"time"

	"github.com/libp2p/go-libp2p/core/crypto"
	"github.com/libp2p/go-libp2p/core/peer"
	"pgregory.net/rapid"

	"berty.tech/go-ipfs-log/enc"
	"berty.tech/go-orbit-db/iface"
	"berty.tech/weshnet/v2/internal/vacct"
	"berty.tech/weshnet/v2/pkg/rendezvous"
	"berty.tech/weshnet/v2/pkg/secretstore"
)

// C17 through the head-exchange marshaler: what one peer marshals in the current period the other, having resolved
// the topic in that period too, unmarshals to the same store address - whenever each of them registered.

func TestVerif_C17_Marshaler(t *testing.T) {
	acct := vacct.Get("C17")
	vacct.RapidCheck(t, vacct.N(150, 60000), func(rt *rapid.T) {
		interval := rapid.SampledFrom([]time.Duration{time.Second, 2 * time.Second, time.Minute, time.Hour}).Draw(rt, "interval")
		type step struct {
			kind  string
			peer  int
			delta time.Duration
		}
		var steps []step
		n := rapid.IntRange(3, 14).Draw(rt, "n")
		for i := 0; i < n; i++ {
			k := rapid.SampledFrom([]string{"advance", "advance", "exchange", "exchange", "marshal", "marshal", "late-register", "own-previous", "own-previous"}).Draw(rt, "kind")
			st := step{kind: k, peer: rapid.IntRange(0, 1).Draw(rt, "peer")}
			if k == "advance" {
				switch rapid.IntRange(0, 3).Draw(rt, "dk") {
				case 0:
					st.delta = time.Duration(rapid.Int64Range(1, int64(interval)/2).Draw(rt, "d"))
				case 1:
					st.delta = interval
				case 2:
					st.delta = time.Duration(rapid.IntRange(2, 4).Draw(rt, "k")) * interval
				default:
					st.delta = interval + time.Duration(rapid.Int64Range(0, int64(interval)/2).Draw(rt, "d2"))
				}
			}
			steps = append(steps, st)
		}
		var trace []string
		violation, msg := "", ""
		crossed, exchanged, ownPrevious := false, false, false
		synctest.Test(t, func(t *testing.T) {
			g, _, _ := NewGroupMultiMember()
			topic := "/orbitdb/verif-store-address"
			linkKey, _ := g.GetLinkKeyArray()
			sk, err := enc.NewSecretbox(linkKey[:])
			if err != nil {
				t.Fatalf("harness: %v", err)
			}
			type side struct {
				mm         *OrbitDBMessageMarshaler
				ri         *rendezvous.RotationInterval
				registered bool
				period     time.Time // period of the last resolve
				last, prev []byte    // the payloads of the last resolve and of the last resolve of the period before the rotation
				rotatedAt  time.Time // when a resolve first found a new period
			}
			mk := func(id string) *side {
				ss, _ := secretstore.NewInMemSecretStore(nil)
				_ = ss.PutGroup(vCtx, g)
				ri := rendezvous.NewRotationInterval(interval)
				_, ppk, _ := crypto.GenerateEd25519Key(crand.Reader)
				pid, err := peer.IDFromPublicKey(ppk)
				if err != nil {
					t.Fatalf("harness: %v", err)
				}
				_ = id
				mm := NewOrbitDBMessageMarshaler(pid, ss, ri, false)
				mm.RegisterGroup(topic, g)
				mm.RegisterSharedKeyForTopic(topic, sk)
				return &side{mm: mm, ri: ri}
			}
			sides := []*side{mk("peer-a"), mk("peer-b")}
			sides[0].ri.RegisterRotation(time.Now(), topic, linkKey[:])
			sides[0].registered = true
			period := func() time.Time { return rendezvous.RoundTimePeriod(time.Now(), interval) }
			resolve := func(s *side) ([]byte, error) {
				b, err := s.mm.Marshal(&iface.MessageExchangeHeads{Address: topic})
				if err == nil {
					if !s.period.IsZero() && !s.period.Equal(period()) {
						crossed = true
						s.prev, s.rotatedAt = s.last, time.Now()
					}
					s.period, s.last = period(), b
				}
				return b, err
			}
			for _, st := range steps {
				if violation != "" {
					break
				}
				s, o := sides[st.peer], sides[1-st.peer]
				trace = append(trace, fmt.Sprintf("t=%s %s(p%d,%v)", time.Now().UTC().Format("15:04:05.000"), st.kind, st.peer, st.delta))
				switch st.kind {
				case "advance":
					time.Sleep(st.delta)
					synctest.Wait()
				case "late-register":
					if !s.registered {
						s.ri.RegisterRotation(time.Now(), topic, linkKey[:])
						s.registered = true
					}
				case "marshal":
					if !s.registered {
						continue
					}
					if _, err := resolve(s); err != nil {
						violation, msg = "marshal-refused", fmt.Sprintf("Marshal for a registered topic failed: %v", err)
					}
				case "own-previous":
					// a heads message the peer marshalled itself in the period before its last rotation (in flight across the
					// boundary, or echoed back) is still accepted by it during the grace period
					if !s.registered {
						continue
					}
					if s.prev == nil || !s.period.Equal(period()) || time.Since(s.rotatedAt) > rendezvous.RotationGracePeriod {
						// make it so: resolve, cross one boundary, resolve again
						if _, err := resolve(s); err != nil {
							violation, msg = "marshal-refused", fmt.Sprintf("Marshal for a registered topic failed: %v", err)
							continue
						}
						time.Sleep(interval)
						synctest.Wait()
						if _, err := resolve(s); err != nil {
							violation, msg = "marshal-refused", fmt.Sprintf("Marshal for a registered topic failed: %v", err)
							continue
						}
					}
					if s.prev == nil || !s.period.Equal(period()) || time.Since(s.rotatedAt) > rendezvous.RotationGracePeriod {
						continue
					}
					ownPrevious = true
					var out iface.MessageExchangeHeads
					if err := s.mm.Unmarshal(s.prev, &out); err != nil {
						violation, msg = "own-previous-refused", fmt.Sprintf("a heads message carrying the peer's own previous rotation value was refused %v after its rotation: %v", time.Since(s.rotatedAt), err)
					} else if out.Address != topic {
						violation, msg = "own-previous-wrong-topic", fmt.Sprintf("heads message mapped to %q", out.Address)
					}
				case "exchange":
					if !s.registered || !o.registered {
						continue
					}
					// both resolve in the current period, then each sends its heads message to the other
					pa, err1 := resolve(s)
					pb, err2 := resolve(o)
					if err1 != nil || err2 != nil {
						violation, msg = "marshal-refused", fmt.Sprintf("Marshal failed: %v / %v", err1, err2)
						continue
					}
					exchanged = true
					for _, x := range []struct {
						to      *side
						payload []byte
					}{{o, pa}, {s, pb}} {
						var out iface.MessageExchangeHeads
						if err := x.to.mm.Unmarshal(x.payload, &out); err != nil {
							violation, msg = "peer-heads-refused", fmt.Sprintf("a heads message marshalled by the peer in the current period was refused: %v", err)
						} else if out.Address != topic {
							violation, msg = "peer-heads-wrong-topic", fmt.Sprintf("heads message mapped to %q", out.Address)
						}
					}
				}
			}
			time.Sleep(3 * 24 * time.Hour)
			time.Sleep(2 * interval)
			synctest.Wait()
		})
		acct.Case(crossed && exchanged, fmt.Sprintf("mm|%v|%s", interval, strings.Join(trace, ";")), func() any {
			return map[string]any{"kind": "marshaler-history", "interval": interval.String(), "ops": trace}
		}, "marshaler", lbl07(crossed, "marshaler/across-deadline"), lbl07(exchanged, "marshaler/exchange"), lbl07(ownPrevious, "marshaler/own-previous-in-grace"))
		if violation != "" {
			acct.Violation("marshaler/"+violation, "TestVerif_C17_Marshaler", map[string]any{"interval": interval.String(), "trace": trace, "msg": msg})
			rt.Fatalf("C17 %s: %s\n%s", violation, msg, strings.Join(trace, "\n"))
		}
	})
}
