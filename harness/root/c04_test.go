//go:build verif

package weshnet

import (
	crand "crypto/rand"
	"encoding/json"
	"fmt"
	"os"
	"sort"
	"strings"
	"testing"

	"github.com/libp2p/go-libp2p/core/crypto"
	"pgregory.net/rapid"

	ipfslog "berty.tech/go-ipfs-log"
	"berty.tech/weshnet/v2/internal/vacct"
	"berty.tech/weshnet/v2/pkg/protocoltypes"
)

// C04: group state depends only on the set of log entries (convergence, restart).

type c04Op struct {
	W    int    `json:"w"`              // writer device 0 or 1
	Kind string `json:"kind"`           // enqueue sent incoming discard accept block unblock enable disable refreset join leave cred meta xsync
	C    int    `json:"c,omitempty"`    // contact / invitation index
	Meta int    `json:"meta,omitempty"` // metadata variant: 0 = none, 1.. = bytes
	Seed int    `json:"seed,omitempty"` // 0 = fixed seed of the contact, 1 = absent (incoming only)
}

func (o c04Op) String() string {
	s := fmt.Sprintf("w%d:%s", o.W, o.Kind)
	switch o.Kind {
	case "enqueue", "incoming":
		return fmt.Sprintf("%s(c%d,meta%d,seed%d)", s, o.C, o.Meta, o.Seed)
	case "sent", "discard", "accept", "block", "unblock", "join", "leave":
		return fmt.Sprintf("%s(%d)", s, o.C)
	}
	return s
}

type c04Fixture struct {
	contacts []crypto.PubKey
	seeds    [][]byte
	invites  []*protocoltypes.Group
}

func c04NewFixture() *c04Fixture {
	f := &c04Fixture{}
	for i := 0; i < 3; i++ {
		_, pk, _ := crypto.GenerateEd25519Key(crand.Reader)
		f.contacts = append(f.contacts, pk)
		seed := make([]byte, 32)
		_, _ = crand.Read(seed)
		f.seeds = append(f.seeds, seed)
	}
	for i := 0; i < 2; i++ {
		g, _, _ := NewGroupMultiMember()
		f.invites = append(f.invites, g)
	}
	return f
}

// c04Apply performs one operation on a writer's account metadata store. It reports whether an entry was appended.
func c04Apply(gc *GroupContext, f *c04Fixture, op c04Op) (appended bool, err error) {
	m := gc.MetadataStore()
	before := m.OpLog().Len()
	var meta []byte
	if op.Meta > 0 {
		meta = []byte(fmt.Sprintf("meta-%d", op.Meta))
	}
	switch op.Kind {
	case "enqueue":
		_, err = m.ContactRequestOutgoingEnqueue(vCtx, &protocoltypes.ShareableContact{Pk: vRawPK(f.contacts[op.C]), PublicRendezvousSeed: f.seeds[op.C], Metadata: meta}, []byte(fmt.Sprintf("own-%d", op.Meta)))
	case "sent":
		_, err = m.ContactRequestOutgoingSent(vCtx, f.contacts[op.C])
	case "incoming":
		sc := &protocoltypes.ShareableContact{Pk: vRawPK(f.contacts[op.C]), PublicRendezvousSeed: f.seeds[op.C], Metadata: meta}
		if op.Seed == 1 {
			sc.PublicRendezvousSeed = nil
		}
		_, err = m.ContactRequestIncomingReceived(vCtx, sc)
	case "discard":
		_, err = m.ContactRequestIncomingDiscard(vCtx, f.contacts[op.C])
	case "accept":
		_, err = m.ContactRequestIncomingAccept(vCtx, f.contacts[op.C])
	case "block":
		_, err = m.ContactBlock(vCtx, f.contacts[op.C])
	case "unblock":
		_, err = m.ContactUnblock(vCtx, f.contacts[op.C])
	case "enable":
		_, err = m.ContactRequestEnable(vCtx)
	case "disable":
		_, err = m.ContactRequestDisable(vCtx)
	case "refreset":
		_, err = m.ContactRequestReferenceReset(vCtx)
	case "join":
		_, err = m.GroupJoin(vCtx, f.invites[op.C%len(f.invites)])
	case "leave":
		pk, _ := f.invites[op.C%len(f.invites)].GetPubKey()
		_, err = m.GroupLeave(vCtx, pk)
	case "cred":
		_, err = m.SendAccountVerifiedCredentialAdded(vCtx, &protocoltypes.AccountVerifiedCredentialRegistered{Issuer: fmt.Sprintf("issuer-%d", op.C), Identifier: "id", SignedIdentityPublicKey: []byte("k"), RegistrationDate: 1, ExpirationDate: int64(100 + op.C)})
	case "meta":
		_, err = m.SendAppMetadata(vCtx, []byte(fmt.Sprintf("app-%d", op.Meta)))
	}
	return m.OpLog().Len() > before, err
}

func c04GenOp(rt *rapid.T, writers int) c04Op {
	op := c04Op{W: rapid.IntRange(0, writers-1).Draw(rt, "w")}
	op.Kind = rapid.SampledFrom([]string{"enqueue", "enqueue", "sent", "incoming", "incoming", "discard", "accept", "block", "unblock",
		"enable", "disable", "refreset", "join", "leave", "cred", "meta"}).Draw(rt, "kind")
	op.C = rapid.IntRange(0, 1).Draw(rt, "c")
	if op.Kind == "enqueue" || op.Kind == "incoming" || op.Kind == "meta" {
		op.Meta = rapid.IntRange(0, 2).Draw(rt, "meta")
	}
	if op.Kind == "incoming" {
		op.Seed = rapid.IntRange(0, 1).Draw(rt, "seed")
	}
	return op
}

// subjects touched by an op (for the "same subject" labels)
func (o c04Op) subject() string {
	switch o.Kind {
	case "enqueue", "sent", "incoming", "discard", "accept", "block", "unblock":
		return fmt.Sprintf("contact%d", o.C)
	case "enable", "disable":
		return "switch"
	case "refreset":
		return "seed"
	case "join", "leave":
		return fmt.Sprintf("group%d", o.C%2)
	}
	return ""
}

type c04Result struct {
	violation, msg string
	harness        string
	labels         map[string]bool
	trace          []string
}

// harnessFail records a problem of the harness itself (never a violation)
func (r *c04Result) harnessFail(f string, a ...any) {
	if r.harness == "" {
		r.harness = fmt.Sprintf(f, a...)
	}
}

func (r *c04Result) fail(id, f string, a ...any) {
	if r.violation == "" {
		r.violation, r.msg = id, fmt.Sprintf(f, a...)
	}
}

func c04Diff(a, b string) string {
	la, lb := strings.Split(a, "\n"), strings.Split(b, "\n")
	var out []string
	for i := 0; i < len(la) || i < len(lb); i++ {
		x, y := "", ""
		if i < len(la) {
			x = la[i]
		}
		if i < len(lb) {
			y = lb[i]
		}
		if x != y {
			out = append(out, fmt.Sprintf("  - %s\n  + %s", x, y))
		}
	}
	if len(out) > 6 {
		out = out[:6]
	}
	return strings.Join(out, "\n")
}

// c04Run executes one history with one delivery plan (batch boundaries as a bit mask over the entries of writer 0's log
// in its linearised order) and applies the four oracles.
func c04Run(t *testing.T, ops []c04Op, planMask uint64, reopenAt int, extraReindex int) *c04Result {
	res := &c04Result{labels: map[string]bool{}}
	f := c04NewFixture()
	w0 := vNewReplica(t, "W0", nil)
	defer func() { w0.close() }()
	g := w0.accountGroup(t)
	writers := []*vReplica{w0}
	gcs := []*GroupContext{w0.open(t, g)}
	two := false
	for _, op := range ops {
		if op.W == 1 {
			two = true
		}
	}
	if two {
		w1 := vNewReplica(t, "W1", w0)
		defer func() { w1.close() }()
		writers = append(writers, w1)
		gcs = append(gcs, w1.open(t, g))
	}
	// the writers
	var prefixDump []string // dump of writer 0 after each of its entries (single-writer histories)
	prefixDump = append(prefixDump, vDumpGroupState(gcs[0]))
	lastSubject := map[int]string{}
	var applied []c04Op // the operations that appended an entry, in write order
	for i, op := range ops {
		if op.Kind == "xsync" {
			if !two {
				continue
			}
			// exchange heads both ways
			for _, pair := range [][2]int{{0, 1}, {1, 0}} {
				src, dst := gcs[pair[0]], gcs[pair[1]]
				for _, h := range src.MetadataStore().OpLog().Heads().Slice() {
					if err := vDeliverMeta(dst, src, h); err != nil {
						res.harnessFail( "sync failed: %v", err)
						return res
					}
				}
			}
			res.trace = append(res.trace, "xsync")
			continue
		}
		app, err := c04Apply(gcs[op.W], f, op)
		res.trace = append(res.trace, fmt.Sprintf("%s -> appended=%v err=%v", op, app, err != nil))
		if app {
			applied = append(applied, op)
		}
		if app && !two {
			prefixDump = append(prefixDump, vDumpGroupState(gcs[0]))
		}
		if app {
			if s := op.subject(); s != "" && lastSubject[op.W] == s {
				res.labels["consecutive-same-subject"] = true
			}
			lastSubject[op.W] = op.subject()
		}
		if reopenAt == i+1 {
			// close and reopen writer 0 in the middle of the history
			before := vDumpGroupState(gcs[0])
			_ = gcs[0].Close()
			w0.close()
			w0 = vReopenReplica(t, w0)
			writers[0] = w0
			gcs[0] = w0.open(t, g)
			after := vDumpGroupState(gcs[0])
			res.labels["reopen-mid-history"] = true
			if before != after {
				res.fail("restart-changes-state", "state differs after closing and reopening the group (after %d operations):\n%s", i+1, c04Diff(before, after))
				return res
			}
		}
	}
	if two {
		// final exchange so that both writers hold the same set
		for round := 0; round < 2; round++ {
			for _, pair := range [][2]int{{0, 1}, {1, 0}} {
				src, dst := gcs[pair[0]], gcs[pair[1]]
				for _, h := range src.MetadataStore().OpLog().Heads().Slice() {
					if err := vDeliverMeta(dst, src, h); err != nil {
						res.harnessFail( "sync failed: %v", err)
						return res
					}
				}
			}
		}
		if vCIDSet(gcs[0].MetadataStore().OpLog()) != vCIDSet(gcs[1].MetadataStore().OpLog()) {
			res.harnessFail( "writers do not hold the same entries after exchanging heads")
			return res
		}
		res.labels["two-writers"] = true
		d0, d1 := vDumpGroupState(gcs[0]), vDumpGroupState(gcs[1])
		if d0 != d1 {
			res.fail("replicas-diverge/two-writers", "two devices holding the same %d entries report different state:\n%s", gcs[0].MetadataStore().OpLog().Len(), c04Diff(d0, d1))
			return res
		}
	}
	log0 := gcs[0].MetadataStore().OpLog()
	entries := vEntries(log0)
	n := len(entries)
	final := vDumpGroupState(gcs[0])
	// (4) idempotence of re-indexing
	for k := 0; k < extraReindex; k++ {
		if err := gcs[0].MetadataStore().Index().UpdateIndex(log0, nil); err != nil {
			res.fail("reindex-error", "UpdateIndex: %v", err)
			return res
		}
		if d := vDumpGroupState(gcs[0]); d != final {
			res.fail("reindex-changes-state", "re-indexing the same log (%d entries) changed the state (pass %d):\n%s", n, k+1, c04Diff(final, d))
			return res
		}
	}
	// (2) restart of the writer at the end
	_ = gcs[0].Close()
	w0.close()
	w0 = vReopenReplica(t, w0)
	writers[0] = w0
	gcs[0] = w0.open(t, g)
	if d := vDumpGroupState(gcs[0]); d != final {
		res.fail("restart-changes-state", "state differs after closing and reopening the group (%d entries):\n%s", n, c04Diff(final, d))
		return res
	}
	res.labels["reopen-at-end"] = true
	if n == 0 {
		return res
	}
	// (1) delivery to a read-only replica in batches, and to a fresh replica in one batch
	r := vNewReplica(t, "R", writers[0])
	defer r.close()
	rgc := r.open(t, g)
	pos := 0
	for i := 0; i < n; i++ {
		last := i == n-1
		if !last && planMask&(1<<uint(i)) == 0 {
			continue
		}
		if i-pos+1 >= 2 {
			res.labels["batch>=2"] = true
			subj := map[string]int{}
			for _, e := range entries[pos : i+1] {
				_ = e
			}
			_ = subj
		}
		if err := vDeliverMeta(rgc, gcs[0], entries[i]); err != nil {
			res.harnessFail( "delivery failed: %v", err)
			return res
		}
		pos = i + 1
		if !two {
			if got := rgc.MetadataStore().OpLog().Len(); got != pos {
				res.harnessFail( "replica holds %d entries after delivering up to %d", got, pos)
				return res
			}
			if d := vDumpGroupState(rgc); d != prefixDump[pos] {
				res.fail("replicas-diverge/batched-delivery", "replica that received entries 1..%d in batches (plan %b) differs from the writer when it held the same entries:\n%s", pos, planMask, c04Diff(prefixDump[pos], d))
				return res
			}
		}
	}
	// concurrent branches: the last entry does not dominate the other heads
	for _, h := range gcs[0].MetadataStore().OpLog().Heads().Slice() {
		if err := vDeliverMeta(rgc, gcs[0], h); err != nil {
			res.harnessFail("delivery failed: %v", err)
			return res
		}
	}
	if vCIDSet(rgc.MetadataStore().OpLog()) != vCIDSet(gcs[0].MetadataStore().OpLog()) {
		res.harnessFail( "replica does not hold the writer's entries after the plan")
		return res
	}
	if d := vDumpGroupState(rgc); d != final {
		res.fail("replicas-diverge/batched-delivery", "replica holding the same %d entries (plan %b) differs from the writer:\n%s", n, planMask, c04Diff(final, d))
		return res
	}
	r2 := vNewReplica(t, "R2", writers[0])
	defer r2.close()
	r2gc := r2.open(t, g)
	for _, h := range gcs[0].MetadataStore().OpLog().Heads().Slice() {
		if err := vDeliverMeta(r2gc, gcs[0], h); err != nil {
			res.harnessFail( "delivery failed: %v", err)
			return res
		}
	}
	if n >= 2 {
		res.labels["one-batch-replica"] = true
	}
	if d := vDumpGroupState(r2gc); d != final {
		res.fail("replicas-diverge/one-batch", "fresh replica that received all %d entries in one batch differs from the writer:\n%s", n, c04Diff(final, d))
		return res
	}
	// restart of the replica
	_ = rgc.Close()
	r.close()
	r = vReopenReplica(t, r)
	rgc = r.open(t, g)
	if d := vDumpGroupState(rgc); d != final {
		res.fail("restart-changes-state/replica", "replica state differs after reopen:\n%s", c04Diff(final, d))
		return res
	}
	// (3) reference model for totally ordered histories
	if !two {
		want := c04Model(f, applied)
		got := c04ModelView(final)
		if want != got {
			res.fail("differs-from-reference", "state is not the result of applying the events in log order, latest event per subject winning:\n%s", c04Diff(want, got))
		}
	}
	return res
}

// ---- reference model (written from the statement and DESIGN.md appendix A)

type c04Contact struct {
	state      protocoltypes.ContactState
	seed, meta []byte
}

func c04Model(f *c04Fixture, applied []c04Op) string {
	contacts := map[int]*c04Contact{}
	enabled := false
	joined := map[int]bool{}
	var creds []string
	for _, op := range applied {
		var meta []byte
		if op.Meta > 0 {
			meta = []byte(fmt.Sprintf("meta-%d", op.Meta))
		}
		c := contacts[op.C]
		touch := func(st protocoltypes.ContactState) *c04Contact {
			if c == nil {
				c = &c04Contact{}
				contacts[op.C] = c
			}
			c.state = st
			return c
		}
		switch op.Kind {
		case "enqueue":
			// on Received/Removed/Discarded the store turns the call into "sent" (implicit path)
			if c != nil && (c.state == protocoltypes.ContactState_ContactStateReceived || c.state == protocoltypes.ContactState_ContactStateRemoved || c.state == protocoltypes.ContactState_ContactStateDiscarded) {
				touch(protocoltypes.ContactState_ContactStateAdded)
				break
			}
			touch(protocoltypes.ContactState_ContactStateToRequest)
			// latest Enqueued/Received event carrying a value wins for seed and metadata
			c.seed = f.seeds[op.C]
			if len(meta) > 0 {
				c.meta = meta
			}
		case "sent":
			touch(protocoltypes.ContactState_ContactStateAdded)
		case "incoming":
			if c != nil && c.state == protocoltypes.ContactState_ContactStateToRequest {
				touch(protocoltypes.ContactState_ContactStateAdded)
				break
			}
			touch(protocoltypes.ContactState_ContactStateReceived)
			if op.Seed == 0 {
				c.seed = f.seeds[op.C]
			}
			if len(meta) > 0 {
				c.meta = meta
			}
		case "discard":
			touch(protocoltypes.ContactState_ContactStateDiscarded)
		case "accept":
			touch(protocoltypes.ContactState_ContactStateAdded)
		case "block":
			touch(protocoltypes.ContactState_ContactStateBlocked)
		case "unblock":
			touch(protocoltypes.ContactState_ContactStateRemoved)
		case "enable":
			enabled = true
		case "disable":
			enabled = false
		case "join":
			joined[op.C%2] = true
		case "leave":
			joined[op.C%2] = false
		case "cred":
			creds = append(creds, fmt.Sprintf("issuer-%d|id|k|%d", op.C, 100+op.C))
		}
	}
	var lines []string
	for i, c := range contacts {
		lines = append(lines, fmt.Sprintf("contact pk=%x state=%v seed=%x meta=%x", vRawPK(f.contacts[i]), c.state, c.seed, c.meta))
	}
	sort.Strings(lines)
	var gs []string
	for i, j := range joined {
		if j {
			gs = append(gs, fmt.Sprintf("%x", f.invites[i].PublicKey))
		}
	}
	sort.Strings(gs)
	sort.Strings(creds)
	return strings.Join(lines, "\n") + fmt.Sprintf("\nenabled=%v\njoined-groups=%v\ncredentials=%v\n", enabled, gs, creds)
}

// c04ModelView extracts from a dump the lines the reference model speaks about.
func c04ModelView(dump string) string {
	var contacts []string
	var enabled, groups, creds string
	for _, l := range strings.Split(dump, "\n") {
		switch {
		case strings.HasPrefix(l, "contact pk="):
			contacts = append(contacts, l)
		case strings.HasPrefix(l, "contact-requests enabled="):
			enabled = strings.Fields(strings.TrimPrefix(l, "contact-requests "))[0]
		case strings.HasPrefix(l, "joined-groups="):
			groups = l
		case strings.HasPrefix(l, "credentials="):
			creds = l
		}
	}
	sort.Strings(contacts)
	return strings.Join(contacts, "\n") + "\n" + enabled + "\n" + groups + "\n" + creds + "\n"
}

func c04Report(acct *vacct.Acct, test string, ops []c04Op, plan uint64, reopenAt, reidx int, res *c04Result) {
	// several root causes can show on one history: key the identity on the first failing oracle only
	acct.Violation(res.violation, test, map[string]any{"ops": ops, "plan_mask": plan, "reopen_at": reopenAt, "extra_reindex": reidx, "trace": res.trace, "msg": res.msg})
}

func c04Account(acct *vacct.Acct, kind string, ops []c04Op, plan uint64, res *c04Result) {
	var labels []string
	for l := range res.labels {
		labels = append(labels, l)
	}
	nt := res.labels["batch>=2"] || res.labels["two-writers"]
	b, _ := json.Marshal(ops)
	acct.Case(nt, fmt.Sprintf("%s|%d", b, plan), func() any { return map[string]any{"kind": kind, "ops": res.trace, "plan_mask": plan} }, append(labels, kind)...)
}

// exhaustive plans for short single-writer histories, random histories beyond
func TestVerif_C04_SingleWriter(t *testing.T) {
	acct := vacct.Get("C04")
	if p := vacct.ReplayPath(); p != "" {
		c04Replay(t, p)
		return
	}
	vacct.RapidCheck(t, vacct.N(25, 5000), func(rt *rapid.T) {
		n := rapid.IntRange(2, 6).Draw(rt, "n")
		var ops []c04Op
		for i := 0; i < n; i++ {
			ops = append(ops, c04GenOp(rt, 1))
		}
		reopenAt := rapid.IntRange(0, n).Draw(rt, "reopenAt")
		reidx := rapid.IntRange(0, 3).Draw(rt, "reindex")
		// every composition of the history into batches when it is short, a generated plan otherwise
		var plans []uint64
		if n <= 4 {
			for m := uint64(0); m < 1<<uint(n-1); m++ {
				plans = append(plans, m)
			}
		} else {
			plans = append(plans, 0, rapid.Uint64Range(0, 1<<uint(n-1)-1).Draw(rt, "plan"))
		}
		for _, plan := range plans {
			res := c04Run(t, ops, plan, reopenAt, reidx)
			if res.harness != "" {
				rt.Fatalf("harness: %s", res.harness)
			}
			c04Account(acct, "single-writer", ops, plan, res)
			if res.violation != "" {
				c04Report(acct, "TestVerif_C04_SingleWriter", ops, plan, reopenAt, reidx, res)
				rt.Fatalf("C04 %s: %s\n%s", res.violation, res.msg, strings.Join(res.trace, "\n"))
			}
		}
	})
}

func TestVerif_C04_TwoWriters(t *testing.T) {
	acct := vacct.Get("C04")
	if p := vacct.ReplayPath(); p != "" {
		c04Replay(t, p)
		return
	}
	// scripted first: two devices write about one subject with different values; one of them goes on without having
	// seen the other's entry, so that a later delivery inserts an entry between entries that were indexed before
	scripted := [][]c04Op{
		{{W: 0, Kind: "enqueue", C: 0, Meta: 1}, {Kind: "xsync"}, {W: 1, Kind: "enqueue", C: 0, Meta: 2}, {W: 0, Kind: "enable"}, {W: 0, Kind: "enqueue", C: 0, Meta: 0}},
		{{W: 0, Kind: "incoming", C: 1, Meta: 1}, {Kind: "xsync"}, {W: 1, Kind: "incoming", C: 1, Meta: 2}, {W: 0, Kind: "disable"}, {W: 0, Kind: "incoming", C: 1, Meta: 0, Seed: 1}},
		{{W: 0, Kind: "join", C: 0}, {Kind: "xsync"}, {W: 1, Kind: "leave", C: 0}, {W: 0, Kind: "refreset"}, {W: 0, Kind: "enqueue", C: 0, Meta: 2}, {W: 1, Kind: "enqueue", C: 0, Meta: 1}},
	}
	if shard, _ := vacct.Shard(); shard == 0 {
		for _, ops := range scripted {
			for _, plan := range []uint64{0, 1, 2, 3, 6, 255} {
				res := c04Run(t, ops, plan, 0, 1)
				if res.harness != "" {
					t.Fatalf("harness: %s", res.harness)
				}
				c04Account(acct, "two-writers", ops, plan, res)
				acct.Label("two-writers/scripted")
				if res.violation != "" {
					c04Report(acct, "TestVerif_C04_TwoWriters", ops, plan, 0, 1, res)
					t.Fatalf("C04 %s: %s\n%s", res.violation, res.msg, strings.Join(res.trace, "\n"))
				}
			}
		}
	}
	vacct.RapidCheck(t, vacct.N(25, 5000), func(rt *rapid.T) {
		n := rapid.IntRange(2, 7).Draw(rt, "n")
		var ops []c04Op
		for i := 0; i < n; i++ {
			if rapid.IntRange(0, 4).Draw(rt, "x") == 0 {
				ops = append(ops, c04Op{Kind: "xsync"})
			}
			ops = append(ops, c04GenOp(rt, 2))
		}
		plan := rapid.Uint64Range(0, 255).Draw(rt, "plan")
		res := c04Run(t, ops, plan, 0, rapid.IntRange(0, 2).Draw(rt, "reindex"))
		if res.harness != "" {
			rt.Fatalf("harness: %s", res.harness)
		}
		c04Account(acct, "two-writers", ops, plan, res)
		if res.violation != "" {
			c04Report(acct, "TestVerif_C04_TwoWriters", ops, plan, 0, 0, res)
			rt.Fatalf("C04 %s: %s\n%s", res.violation, res.msg, strings.Join(res.trace, "\n"))
		}
	})
}

func c04Replay(t *testing.T, path string) {
	b, err := os.ReadFile(path)
	if err != nil {
		t.Fatal(err)
	}
	var doc struct {
		Detail struct {
			Ops      []c04Op `json:"ops"`
			Plan     uint64  `json:"plan_mask"`
			ReopenAt int     `json:"reopen_at"`
			Reidx    int     `json:"extra_reindex"`
		} `json:"detail"`
	}
	if err := json.Unmarshal(b, &doc); err != nil {
		t.Fatal(err)
	}
	res := c04Run(t, doc.Detail.Ops, doc.Detail.Plan, doc.Detail.ReopenAt, doc.Detail.Reidx)
	if res.violation != "" {
		c04Report(vacct.Get("C04"), "TestVerif_C04_SingleWriter", doc.Detail.Ops, doc.Detail.Plan, doc.Detail.ReopenAt, doc.Detail.Reidx, res)
		t.Errorf("replayed: C04 %s: %s\n%s", res.violation, res.msg, strings.Join(res.trace, "\n"))
	}
}

var _ ipfslog.Entry

// bounded-exhaustive tier: every sequence (with repetitions) of the operations about ONE subject, up to a small length:
// "the latest event about a subject wins" is decided by such chains (join, leave, join again; enable, disable, reset...)
func TestVerif_C04_SubjectChains(t *testing.T) {
	acct := vacct.Get("C04")
	if vacct.ReplayPath() != "" {
		return
	}
	alphabets := map[string][]c04Op{
		"group":  {{Kind: "join"}, {Kind: "leave"}},
		"switch": {{Kind: "enable"}, {Kind: "disable"}, {Kind: "refreset"}},
	}
	maxLen := map[string]int{"group": 4, "switch": 3}
	if vacct.Thorough() {
		alphabets["contact"] = []c04Op{{Kind: "enqueue", Meta: 1}, {Kind: "enqueue", Meta: 2}, {Kind: "sent"}, {Kind: "incoming", Meta: 1}, {Kind: "discard"}, {Kind: "accept"}, {Kind: "block"}, {Kind: "unblock"}}
		maxLen = map[string]int{"group": 6, "switch": 5, "contact": 4}
	}
	shard, nshards := vacct.Shard()
	idx := 0
	for _, subj := range []string{"group", "switch", "contact"} {
		alpha := alphabets[subj]
		if len(alpha) == 0 {
			continue
		}
		for l := 2; l <= maxLen[subj]; l++ {
			total := 1
			for i := 0; i < l; i++ {
				total *= len(alpha)
			}
			for code := 0; code < total; code++ {
				idx++
				if idx%nshards != shard {
					continue
				}
				ops := make([]c04Op, l)
				for i, c := 0, code; i < l; i, c = i+1, c/len(alpha) {
					ops[i] = alpha[c%len(alpha)]
				}
				// two delivery plans: entry by entry, and one batch
				for _, plan := range []uint64{0, 1<<uint(l-1) - 1} {
					res := c04Run(t, ops, plan, l, 1)
					if res.harness != "" {
						t.Fatalf("harness: %s", res.harness)
					}
					c04Account(acct, "subject-chain/"+subj, ops, plan, res)
					if res.violation != "" {
						c04Report(acct, "TestVerif_C04_SubjectChains", ops, plan, l, 1, res)
						t.Fatalf("C04 %s: %s\n%s", res.violation, res.msg, strings.Join(res.trace, "\n"))
					}
				}
			}
		}
	}
	acct.Label("subject-chains")
}
