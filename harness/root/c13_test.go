//go:build verif

package weshnet

import (
	"bytes"
	"errors"
	"fmt"
	"strings"
	"testing"
	"time"

	"github.com/ipfs/go-cid"
	"pgregory.net/rapid"

	ipfslog "berty.tech/go-ipfs-log"
	"berty.tech/weshnet/v2/internal/vacct"
	"berty.tech/weshnet/v2/pkg/errcode"
	"berty.tech/weshnet/v2/pkg/protocoltypes"
	"berty.tech/weshnet/v2/pkg/secretstore"
)

// C13: event listings follow log order and honour since/until/reverse exactly.

type c13Lister func(since, until []byte, reverse bool) ([]string, error)

func c13MetaLister(gc *GroupContext) c13Lister {
	return func(since, until []byte, reverse bool) ([]string, error) {
		ch, err := gc.MetadataStore().ListEvents(vCtx, since, until, reverse)
		if err != nil {
			return nil, err
		}
		var out []string
		for e := range ch {
			_, c, err := cid.CidFromBytes(e.EventContext.Id)
			if err != nil {
				return nil, fmt.Errorf("harness: bad event id: %w", err)
			}
			out = append(out, c.String())
		}
		return out, nil
	}
}

func c13MsgLister(gc *GroupContext) c13Lister {
	return func(since, until []byte, reverse bool) ([]string, error) {
		ch, err := gc.MessageStore().ListEvents(vCtx, since, until, reverse)
		if err != nil {
			return nil, err
		}
		var out []string
		for e := range ch {
			_, c, err := cid.CidFromBytes(e.EventContext.Id)
			if err != nil {
				return nil, fmt.Errorf("harness: bad event id: %w", err)
			}
			out = append(out, c.String())
		}
		return out, nil
	}
}

// c13CheckCube runs every (since, until, reverse) over the entries plus unknown identifiers.
// order = expected oldest-first identifiers. It returns a violation (id, msg) or "".
func c13CheckCube(list c13Lister, order []cid.Cid, what string, count func(nontrivial bool, key string)) (string, string) {
	n := len(order)
	unknown := [][]byte{cid.NewCidV1(cid.Raw, []byte("\x12\x20aaaaaaaaaaaaaaaaaaaaaaaaaaaaaaaa")).Bytes(), []byte("not-a-cid")}
	type bound struct {
		idx   int // -1 none, 0..n-1 entry, -2 unknown
		bytes []byte
		name  string
	}
	var bounds []bound
	bounds = append(bounds, bound{-1, nil, "none"})
	for i, c := range order {
		bounds = append(bounds, bound{i, c.Bytes(), fmt.Sprintf("#%d", i)})
	}
	bounds = append(bounds, bound{-2, unknown[0], "unknown-cid"}, bound{-2, unknown[1], "malformed"})
	for _, s := range bounds {
		for _, u := range bounds {
			for _, rev := range []bool{false, true} {
				var got []string
				var err error
				var pan any
				func() {
					defer func() { pan = recover() }()
					got, err = list(s.bytes, u.bytes, rev)
				}()
				if pan != nil {
					return "listing-panicked", fmt.Sprintf("%s since=%s until=%s reverse=%v on %d entries: panic: %v", what, s.name, u.name, rev, n, pan)
				}
				desc := fmt.Sprintf("%s since=%s until=%s reverse=%v on %d entries", what, s.name, u.name, rev, n)
				if errors.Is(err, errC13Harness) {
					return "harness", desc + ": " + err.Error()
				}
				wantErr := s.idx == -2 || u.idx == -2
				lo, hi := 0, n-1
				if s.idx >= 0 {
					lo = s.idx
				}
				if u.idx >= 0 {
					hi = u.idx
				}
				if !wantErr && lo > hi && n > 0 {
					wantErr = true
				}
				count(s.idx >= 0 && u.idx >= 0 && n >= 3, desc)
				if wantErr {
					if err == nil {
						return "invalid-range-accepted", fmt.Sprintf("%s: expected an invalid-range error, got %d events", desc, len(got))
					}
					if !errcode.Is(err, errcode.ErrCode_ErrInvalidRange) {
						return "wrong-error", fmt.Sprintf("%s: expected ErrInvalidRange, got %v", desc, err)
					}
					continue
				}
				if err != nil {
					return "valid-range-refused", fmt.Sprintf("%s: %v", desc, err)
				}
				var want []string
				for i := lo; i <= hi && i < n; i++ {
					want = append(want, order[i].String())
				}
				if rev {
					for i, j := 0, len(want)-1; i < j; i, j = i+1, j-1 {
						want[i], want[j] = want[j], want[i]
					}
				}
				if strings.Join(got, ",") != strings.Join(want, ",") {
					idx := func(l []string) []int {
						var r []int
						for _, s := range l {
							p := -1
							for i, c := range order {
								if c.String() == s {
									p = i
								}
							}
							r = append(r, p)
						}
						return r
					}
					return "wrong-listing", fmt.Sprintf("%s: listed entries (by write position) %v, expected %v", desc, idx(got), idx(want))
				}
			}
		}
	}
	return "", ""
}

type c13World struct {
	w, r   *vReplica
	g      *protocoltypes.Group
	wgc    *GroupContext
	rgc    *GroupContext
	metaW  []cid.Cid // in write order
	msgW   []cid.Cid
}

func c13Setup(t *testing.T) *c13World { return c13SetupOpts(t, nil) }

func c13SetupOpts(t *testing.T, ssOpts *secretstore.NewSecretStoreOptions) *c13World {
	x := &c13World{}
	x.w = vNewReplicaOpts(t, "W", nil, ssOpts)
	x.r = vNewReplicaOpts(t, "R", nil, ssOpts)
	g, _, err := NewGroupMultiMember()
	if err != nil {
		t.Fatalf("harness: %v", err)
	}
	x.g = g
	x.wgc = x.w.open(t, g)
	x.rgc = x.r.open(t, g)
	// R learns W's chain key so that it can list W's messages (no activation: nobody writes but the harness)
	enc, err := x.w.ss.GetShareableChainKey(vCtx, g, x.rgc.MemberPubKey())
	if err != nil {
		t.Fatalf("harness: %v", err)
	}
	if err := x.r.ss.RegisterChainKey(vCtx, g, x.wgc.DevicePubKey(), enc); err != nil {
		t.Fatalf("harness: %v", err)
	}
	return x
}

func (x *c13World) close() {
	_ = x.wgc.Close()
	_ = x.rgc.Close()
	x.w.close()
	x.r.close()
}

func TestVerif_C13_Listings(t *testing.T) {
	acct := vacct.Get("C13")
	vacct.RapidCheck(t, vacct.N(14, 3000), func(rt *rapid.T) {
		x := c13Setup(t)
		defer x.close()
		n := rapid.IntRange(0, 12).Draw(rt, "n")
		mode := rapid.SampledFrom([]string{"one-batch", "entry-by-entry", "mixed"}).Draw(rt, "mode")
		for i := 0; i < n; i++ {
			op, err := x.wgc.MetadataStore().SendAppMetadata(vCtx, []byte(fmt.Sprintf("meta-%d", i)))
			if err != nil {
				rt.Fatalf("harness: %v", err)
			}
			x.metaW = append(x.metaW, op.GetEntry().GetHash())
			op2, err := x.wgc.MessageStore().AddMessage(vCtx, []byte(fmt.Sprintf("msg-%d", i)))
			if err != nil {
				rt.Fatalf("harness: %v", err)
			}
			x.msgW = append(x.msgW, op2.GetEntry().GetHash())
		}
		// delivery to the replica
		deliver := func(dst vSyncable, l ipfslog.Log) {
			es := vEntries(l)
			switch mode {
			case "one-batch":
				for _, h := range l.Heads().Slice() {
					if err := vSync(dst, h); err != nil {
						rt.Fatalf("harness: %v", err)
					}
				}
			case "entry-by-entry":
				for _, e := range es {
					if err := vSync(dst, e); err != nil {
						rt.Fatalf("harness: %v", err)
					}
				}
			default:
				for i := 0; i < len(es); i++ {
					if i == len(es)-1 || rapid.Bool().Draw(rt, "cut") {
						if err := vSync(dst, es[i]); err != nil {
							rt.Fatalf("harness: %v", err)
						}
					}
				}
			}
		}
		deliver(x.rgc.MetadataStore(), x.wgc.MetadataStore().OpLog())
		deliver(x.rgc.MessageStore(), x.wgc.MessageStore().OpLog())
		if x.rgc.MetadataStore().OpLog().Len() != n || x.rgc.MessageStore().OpLog().Len() != n {
			rt.Fatalf("harness: replica holds %d/%d entries, expected %d", x.rgc.MetadataStore().OpLog().Len(), x.rgc.MessageStore().OpLog().Len(), n)
		}
		listings := 0
		count := func(nt bool, key string) {
			listings++
			acct.Case(nt, fmt.Sprintf("%d|%s|%s", n, mode, key), func() any { return map[string]any{"kind": "listing", "entries": n, "replica_delivery": mode, "query": key} }, "listing",
				lbl07(nt, "listing/both-bounds-n>=3"))
		}
		for _, c := range []struct {
			what string
			l    c13Lister
			ord  []cid.Cid
		}{
			{"metadata/writer", c13MetaLister(x.wgc), x.metaW},
			{"messages/writer", c13MsgLister(x.wgc), x.msgW},
			{"metadata/replica-" + mode, c13MetaLister(x.rgc), x.metaW},
			{"messages/replica-" + mode, c13MsgLister(x.rgc), x.msgW},
		} {
			if id, msg := c13CheckCube(c.l, c.ord, c.what, count); id != "" {
				where := strings.Split(c.what, "-")[0]
				acct.Violation(id+"/"+where, "TestVerif_C13_Listings", map[string]any{"entries": n, "replica_delivery": mode, "msg": msg})
				rt.Fatalf("C13 %s: %s", id, msg)
			}
		}
		acct.Label("logs")
		if n >= 2 && mode != "entry-by-entry" {
			acct.Label("logs/replica-batch>=2")
		}
		if n == 0 {
			acct.Label("logs/empty")
		}
	})
}

// two writers: any linear extension of the causal order, the same on every replica
func TestVerif_C13_TwoWriters(t *testing.T) {
	acct := vacct.Get("C13")
	vacct.RapidCheck(t, vacct.N(10, 2000), func(rt *rapid.T) {
		a := vNewReplica(t, "A", nil)
		b := vNewReplica(t, "B", nil)
		c := vNewReplica(t, "C", nil)
		defer a.close()
		defer b.close()
		defer c.close()
		g, _, _ := NewGroupMultiMember()
		gcs := []*GroupContext{a.open(t, g), b.open(t, g), c.open(t, g)}
		// causal order bookkeeping: entry -> set of entries it was written after
		type ent struct {
			id   cid.Cid
			deps map[string]bool
		}
		var all []ent
		seen := []map[string]bool{{}, {}}
		n := rapid.IntRange(2, 8).Draw(rt, "n")
		for i := 0; i < n; i++ {
			w := rapid.IntRange(0, 1).Draw(rt, "w")
			if rapid.IntRange(0, 2).Draw(rt, "sync") == 0 {
				for _, pair := range [][2]int{{0, 1}, {1, 0}} {
					for _, h := range gcs[pair[0]].MetadataStore().OpLog().Heads().Slice() {
						if err := vDeliverMeta(gcs[pair[1]], gcs[pair[0]], h); err != nil {
							rt.Fatalf("harness: %v", err)
						}
					}
				}
				for k := range seen[0] {
					seen[1][k] = true
				}
				for k := range seen[1] {
					seen[0][k] = true
				}
			}
			op, err := gcs[w].MetadataStore().SendAppMetadata(vCtx, []byte(fmt.Sprintf("w%d-%d", w, i)))
			if err != nil {
				rt.Fatalf("harness: %v", err)
			}
			deps := map[string]bool{}
			for k := range seen[w] {
				deps[k] = true
			}
			id := op.GetEntry().GetHash()
			all = append(all, ent{id, deps})
			seen[w][id.String()] = true
		}
		// everybody gets everything; C in one go
		for round := 0; round < 2; round++ {
			for _, pair := range [][2]int{{0, 1}, {1, 0}, {0, 2}, {1, 2}} {
				for _, h := range gcs[pair[0]].MetadataStore().OpLog().Heads().Slice() {
					if err := vDeliverMeta(gcs[pair[1]], gcs[pair[0]], h); err != nil {
						rt.Fatalf("harness: %v", err)
					}
				}
			}
		}
		var lists [][]string
		for i, gc := range gcs {
			if gc.MetadataStore().OpLog().Len() != n {
				rt.Fatalf("harness: replica %d holds %d of %d entries", i, gc.MetadataStore().OpLog().Len(), n)
			}
			l, err := c13MetaLister(gc)(nil, nil, false)
			if err != nil {
				acct.Violation("valid-range-refused/two-writers", "TestVerif_C13_TwoWriters", map[string]any{"err": err.Error()})
				rt.Fatalf("C13: full listing refused: %v", err)
			}
			lists = append(lists, l)
		}
		pos := map[string]int{}
		for i, s := range lists[0] {
			pos[s] = i
		}
		concurrent := false
		for _, e := range all {
			p, ok := pos[e.id.String()]
			if !ok || len(lists[0]) != n {
				acct.Violation("wrong-listing/two-writers", "TestVerif_C13_TwoWriters", map[string]any{"msg": "listing is not a permutation of the log", "listed": len(lists[0]), "entries": n})
				rt.Fatalf("C13: listing is not a permutation of the log")
			}
			for d := range e.deps {
				if pos[d] > p {
					acct.Violation("not-causal/two-writers", "TestVerif_C13_TwoWriters", map[string]any{"msg": "an entry is listed before an entry it was written after"})
					rt.Fatalf("C13: listing violates causal order")
				}
			}
			for _, o := range all {
				if o.id != e.id && !e.deps[o.id.String()] && !o.deps[e.id.String()] {
					concurrent = true
				}
			}
		}
		for i := 1; i < len(lists); i++ {
			if strings.Join(lists[i], ",") != strings.Join(lists[0], ",") {
				acct.Violation("replicas-list-differently/two-writers", "TestVerif_C13_TwoWriters", map[string]any{"msg": "replicas holding the same entries list them in different orders", "a": lists[0], "other": lists[i]})
				rt.Fatalf("C13: replica %d lists the same %d entries in another order", i, n)
			}
		}
		// every (since, until, reverse) over the merged log: the contiguous inclusive range of the full listing's
		// order, also when the bounds are entries of concurrent branches
		var order []cid.Cid
		for _, s := range lists[0] {
			c, err := cid.Decode(s)
			if err != nil {
				rt.Fatalf("harness: %v", err)
			}
			order = append(order, c)
		}
		for i, gc := range []*GroupContext{gcs[0], gcs[2]} {
			if id, msg := c13CheckCube(c13MetaLister(gc), order, fmt.Sprintf("metadata of two writers (replica %d)", i*2), func(bool, string) {}); id != "" {
				if id == "harness" {
					rt.Fatalf("harness: %s", msg)
				}
				acct.Violation(id+"/two-writers", "TestVerif_C13_TwoWriters", map[string]any{"msg": msg, "entries": n, "concurrent_pair": concurrent})
				rt.Fatalf("C13 %s/two-writers: %s", id, msg)
			}
		}
		acct.Case(concurrent, fmt.Sprintf("tw|%v", lists[0]), func() any { return map[string]any{"kind": "two-writers", "entries": n, "concurrent_pair": concurrent} }, "two-writers", lbl07(concurrent, "two-writers/concurrent-pair"))
	})
}

var (
	_ = bytes.Equal
	_ = time.Second
)
