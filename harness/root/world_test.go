//go:build verif

package weshnet

import (
	"context"
	"encoding/hex"
	"fmt"
	"sort"
	"strings"
	"sync"
	"sync/atomic"
	"testing"
	"time"

	"github.com/ipfs/go-cid"
	datastore "github.com/ipfs/go-datastore"
	dssync "github.com/ipfs/go-datastore/sync"
	"github.com/libp2p/go-libp2p/core/crypto"
	"github.com/libp2p/go-libp2p/core/event"
	mocknet "github.com/libp2p/go-libp2p/p2p/net/mock"
	"go.uber.org/zap"

	ipfslog "berty.tech/go-ipfs-log"
	orbitdb "berty.tech/go-orbit-db"
	"berty.tech/go-orbit-db/stores"
	"berty.tech/weshnet/v2/pkg/ipfsutil"
	"berty.tech/weshnet/v2/pkg/protocoltypes"
	"berty.tech/weshnet/v2/pkg/secretstore"
	"berty.tech/weshnet/v2/pkg/tinder"
)

// ---- replica world (DESIGN.md 3.1): one mock IPFS node shared by several
// WeshOrbitDB instances; entries move between replicas only when the harness
// calls Sync with a head.

var (
	vNodeOnce sync.Once
	vNode     ipfsutil.CoreAPIMock
	vCtx      = context.Background()
)

func vSharedNode(t testing.TB) ipfsutil.CoreAPIMock {
	vNodeOnce.Do(func() {
		mn := mocknet.New()
		vNode = ipfsutil.TestingCoreAPIUsingMockNet(vCtx, t, &ipfsutil.TestingAPIOpts{
			Logger:          zap.NewNop(),
			Mocknet:         mn,
			DiscoveryServer: tinder.NewMockDriverServer(),
		})
	})
	return vNode
}

type vReplica struct {
	name string
	db   *WeshOrbitDB
	ss   secretstore.SecretStore
	ds   datastore.Batching
}

// vFaultDS is the datastore under a replica's secret store and OrbitDB: reads for which FailGet answers true fail
// with an I/O error (a transient outage of the storage; writes keep working).
type vFaultDS struct {
	datastore.Batching
	failGet atomic.Pointer[func(key string) bool]
}

func (f *vFaultDS) failing(k datastore.Key) bool {
	fn := f.failGet.Load()
	return fn != nil && (*fn)(k.String())
}

func (f *vFaultDS) Get(ctx context.Context, k datastore.Key) ([]byte, error) {
	if f.failing(k) {
		return nil, fmt.Errorf("injected datastore read failure (i/o timeout)")
	}
	return f.Batching.Get(ctx, k)
}

func (f *vFaultDS) Has(ctx context.Context, k datastore.Key) (bool, error) {
	if f.failing(k) {
		return false, fmt.Errorf("injected datastore read failure (i/o timeout)")
	}
	return f.Batching.Has(ctx, k)
}

func (f *vFaultDS) GetSize(ctx context.Context, k datastore.Key) (int, error) {
	if f.failing(k) {
		return 0, fmt.Errorf("injected datastore read failure (i/o timeout)")
	}
	return f.Batching.GetSize(ctx, k)
}

// failReads makes the replica's storage fail the reads selected by fn (nil: the outage is over).
func (r *vReplica) failReads(fn func(key string) bool) {
	if f, ok := r.ds.(*vFaultDS); ok {
		if fn == nil {
			f.failGet.Store(nil)
		} else {
			f.failGet.Store(&fn)
		}
	}
}

// vNewReplica opens an OrbitDB on the shared node with its own datastore and
// secret store. from != nil: a second device of the same account.
func vNewReplica(t testing.TB, name string, from *vReplica) *vReplica {
	return vNewReplicaOpts(t, name, from, nil)
}

// vNewReplicaOpts: the same with secret store options (small key / reference windows)
func vNewReplicaOpts(t testing.TB, name string, from *vReplica, ssOpts *secretstore.NewSecretStoreOptions) *vReplica {
	return vNewReplicaOn(t, name, from, ssOpts, false)
}

// vNewFaultyReplica: a replica whose storage can be made to fail reads (failReads)
func vNewFaultyReplica(t testing.TB, name string, from *vReplica) *vReplica {
	return vNewReplicaOn(t, name, from, nil, true)
}

func vNewReplicaOn(t testing.TB, name string, from *vReplica, ssOpts *secretstore.NewSecretStoreOptions, faulty bool) *vReplica {
	var ds datastore.Batching = dssync.MutexWrap(datastore.NewMapDatastore())
	if faulty {
		ds = &vFaultDS{Batching: ds}
	}
	if ssOpts != nil {
		// NewSecretStore fills the defaults (among them the keystore) into the options it is given: never share them
		ssOpts = &secretstore.NewSecretStoreOptions{PreComputedKeysCount: ssOpts.PreComputedKeysCount, PrecomputeOutOfStoreGroupRefsCount: ssOpts.PrecomputeOutOfStoreGroupRefsCount}
	}
	ss, err := secretstore.NewSecretStore(ds, ssOpts)
	if err != nil {
		t.Fatalf("harness: secret store: %v", err)
	}
	if from != nil {
		a, b, err := from.ss.ExportAccountKeysForBackup()
		if err != nil {
			t.Fatalf("harness: export: %v", err)
		}
		if err := ss.ImportAccountKeys(a, b); err != nil {
			t.Fatalf("harness: import: %v", err)
		}
	}
	return vReopenReplica(t, &vReplica{name: name, ss: ss, ds: ds})
}

// vReopenReplica builds a fresh OrbitDB over the replica's datastore (restart).
func vReopenReplica(t testing.TB, r *vReplica) *vReplica {
	db, err := NewWeshOrbitDB(vCtx, vSharedNode(t).API(), &NewOrbitDBOptions{
		NewOrbitDBOptions: orbitdb.NewOrbitDBOptions{Logger: zap.NewNop()},
		Datastore:         r.ds,
		SecretStore:       r.ss,
	})
	if err != nil {
		t.Fatalf("harness: orbitdb: %v", err)
	}
	return &vReplica{name: r.name, db: db, ss: r.ss, ds: r.ds}
}

func (r *vReplica) open(t testing.TB, g *protocoltypes.Group) *GroupContext {
	gc, err := r.db.OpenGroup(vCtx, g, nil)
	if err != nil {
		t.Fatalf("harness: OpenGroup on %s: %v", r.name, err)
	}
	return gc
}

func (r *vReplica) close() {
	_ = r.db.Close()
}

func (r *vReplica) accountGroup(t testing.TB) *protocoltypes.Group {
	g, _, err := r.ss.GetGroupForAccount()
	if err != nil {
		t.Fatalf("harness: account group: %v", err)
	}
	return g
}

// vEntries returns the entries of a log in the log's own linearised order (oldest first).
func vEntries(l ipfslog.Log) []ipfslog.Entry { return l.Values().Slice() }

func vCIDSet(l ipfslog.Log) string {
	var s []string
	for _, e := range l.GetEntries().Slice() {
		s = append(s, e.GetHash().String())
	}
	sort.Strings(s)
	return strings.Join(s, ",")
}

// vDeliver hands dst the entry `head` of src's metadata log: dst fetches the causally closed set
// of entries below it that it lacks, as one batch.
func vDeliverMeta(dst, src *GroupContext, head ipfslog.Entry) error {
	return vSync(dst.MetadataStore(), head)
}

func vDeliverMsg(dst, src *GroupContext, head ipfslog.Entry) error {
	return vSync(dst.MessageStore(), head)
}

type vSyncable interface {
	OpLog() ipfslog.Log
	EventBus() event.Bus
	Sync(ctx context.Context, heads []ipfslog.Entry) error
}

// vSync is synchronous: Sync only queues the head on the replicator; the store has joined the
// fetched entries and re-indexed when it emits EventReplicated.
func vSync(st vSyncable, head ipfslog.Entry) error {
	if _, ok := st.OpLog().Get(head.GetHash()); ok {
		return nil
	}
	sub, err := st.EventBus().Subscribe(new(stores.EventReplicated))
	if err != nil {
		return err
	}
	defer sub.Close()
	if err := st.Sync(vCtx, []ipfslog.Entry{head}); err != nil {
		return err
	}
	deadline := time.After(20 * time.Second)
	for {
		select {
		case <-sub.Out():
			if _, ok := st.OpLog().Get(head.GetHash()); ok {
				return nil
			}
		case <-deadline:
			return fmt.Errorf("harness: no EventReplicated within 20s for head %s", head.GetHash())
		}
	}
}

// ---- canonical state dump (DESIGN.md 3.3)

func vHexKeys(ks []crypto.PubKey) []string {
	var out []string
	for _, k := range ks {
		b, err := k.Raw()
		if err != nil {
			out = append(out, "ERR:"+err.Error())
			continue
		}
		out = append(out, hex.EncodeToString(b))
	}
	sort.Strings(out)
	return out
}

var vContactStates = []protocoltypes.ContactState{
	protocoltypes.ContactState_ContactStateUndefined, protocoltypes.ContactState_ContactStateToRequest, protocoltypes.ContactState_ContactStateReceived,
	protocoltypes.ContactState_ContactStateAdded, protocoltypes.ContactState_ContactStateRemoved, protocoltypes.ContactState_ContactStateDiscarded,
	protocoltypes.ContactState_ContactStateBlocked,
}

// vDumpGroupState renders every public getter the properties list, sorted and deterministic.
func vDumpGroupState(gc *GroupContext) string {
	m := gc.MetadataStore()
	var b strings.Builder
	fmt.Fprintf(&b, "members=%v\n", vHexKeys(m.ListMembers()))
	fmt.Fprintf(&b, "devices=%v\n", vHexKeys(m.ListDevices()))
	fmt.Fprintf(&b, "admins=%v\n", vHexKeys(m.ListAdmins())) // a multiset: its length matters
	var mds []string
	for _, mem := range m.ListMembers() {
		devs, err := m.GetDevicesForMember(mem)
		mds = append(mds, fmt.Sprintf("member-devices %s=%v err=%v", vHexKeys([]crypto.PubKey{mem})[0][:8], vHexKeys(devs), err != nil))
	}
	sort.Strings(mds)
	b.WriteString(strings.Join(mds, "\n") + "\n")
	var cs []string
	for _, c := range m.ListContacts() {
		cs = append(cs, fmt.Sprintf("contact pk=%x state=%v seed=%x meta=%x", c.contact.Pk, c.state, c.contact.PublicRendezvousSeed, c.contact.Metadata))
	}
	sort.Strings(cs)
	b.WriteString(strings.Join(cs, "\n") + "\n")
	for _, st := range vContactStates {
		var l []string
		for _, c := range m.ListContactsByStatus(st) {
			l = append(l, fmt.Sprintf("%x/seed=%x/meta=%x", c.Pk, c.PublicRendezvousSeed, c.Metadata))
		}
		sort.Strings(l)
		fmt.Fprintf(&b, "by-status %v=%v\n", st, l)
	}
	en, ref := m.GetIncomingContactRequestsStatus()
	if ref != nil {
		fmt.Fprintf(&b, "contact-requests enabled=%v seed=%x\n", en, ref.PublicRendezvousSeed)
	} else {
		fmt.Fprintf(&b, "contact-requests enabled=%v ref=nil\n", en)
	}
	var gs []string
	for _, g := range m.ListMultiMemberGroups() {
		gs = append(gs, hex.EncodeToString(g.PublicKey))
	}
	sort.Strings(gs)
	fmt.Fprintf(&b, "joined-groups=%v\n", gs)
	var vcs []string
	for _, vc := range m.ListVerifiedCredentials() {
		vcs = append(vcs, fmt.Sprintf("%s|%s|%s|%d", vc.Issuer, vc.Identifier, vc.SignedIdentityPublicKey, vc.ExpirationDate))
	}
	sort.Strings(vcs)
	fmt.Fprintf(&b, "credentials=%v\n", vcs)
	if idx, ok := m.Index().(*metadataStoreIndex); ok {
		idx.lock.RLock()
		fmt.Fprintf(&b, "alias own-sent=%v other=%x\n", idx.ownAliasKeySent, idx.otherAliasKey)
		var ks []string
		for k, c := range idx.contactsFromGroupPK {
			ks = append(ks, fmt.Sprintf("%x->%x", []byte(k)[:6], c.contact.Pk))
		}
		sort.Strings(ks)
		fmt.Fprintf(&b, "contacts-by-group=%v\n", ks)
		var rm []string
		for k, v := range idx.contactRequestMetadata {
			rm = append(rm, fmt.Sprintf("%x=%x", []byte(k)[:6], v))
		}
		sort.Strings(rm)
		fmt.Fprintf(&b, "own-request-metadata=%v\n", rm)
		idx.lock.RUnlock()
	}
	return b.String()
}

func vRawPK(k crypto.PubKey) []byte {
	b, err := k.Raw()
	if err != nil {
		panic(err)
	}
	return b
}

var _ = cid.Undef

func vNewReplicaSecretStore(t testing.TB) secretstore.SecretStore {
	ss, err := secretstore.NewInMemSecretStore(nil)
	if err != nil {
		t.Fatalf("harness: %v", err)
	}
	return ss
}

// vWaitQuiet waits until the observed quantity (log lengths...) stopped changing for `quiet`, at most `limit`.
// A freshly started protocol service writes its own announcements into the account group: checks that count appended
// entries must start only after that is over.
func vWaitQuiet(observe func() int, quiet, limit time.Duration) {
	last, since := -1, time.Now()
	for deadline := time.Now().Add(limit); time.Now().Before(deadline); time.Sleep(20 * time.Millisecond) {
		if v := observe(); v != last {
			last, since = v, time.Now()
		} else if time.Since(since) > quiet {
			return
		}
	}
}
