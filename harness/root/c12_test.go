//go:build verif

package weshnet

import (
	"bytes"
	crand "crypto/rand"
	"fmt"
	"testing"

	"github.com/libp2p/go-libp2p/core/crypto"
	"google.golang.org/protobuf/proto"
	"pgregory.net/rapid"

	"berty.tech/weshnet/v2/internal/vacct"
	"berty.tech/weshnet/v2/pkg/protocoltypes"
	"berty.tech/weshnet/v2/pkg/secretstore"
)

// C12: invitations are self-authenticating; replication descriptors cannot read.

type c12Mutant struct {
	label  string
	g      *protocoltypes.Group
	parses bool // still a 32-byte key and a 64-byte signature: only the signature / type check rejects it
}

func c12Mutants(rt *rapid.T, inv, other *protocoltypes.Group, acc, contact *protocoltypes.Group) []c12Mutant {
	var ms []c12Mutant
	cp := func() *protocoltypes.Group { return proto.Clone(inv).(*protocoltypes.Group) }
	flip := func(field string, get func(*protocoltypes.Group) *[]byte) {
		n := len(*get(inv)) * 8
		for b := 0; b < n; b++ {
			g := cp()
			p := get(g)
			*p = append([]byte(nil), *p...)
			(*p)[b/8] ^= 1 << uint(b%8)
			ms = append(ms, c12Mutant{"bit-flip/" + field, g, true})
		}
	}
	flip("public_key", func(g *protocoltypes.Group) *[]byte { return &g.PublicKey })
	flip("secret", func(g *protocoltypes.Group) *[]byte { return &g.Secret })
	flip("secret_sig", func(g *protocoltypes.Group) *[]byte { return &g.SecretSig })
	edit := func(label string, parses bool, f func(g *protocoltypes.Group)) {
		g := cp()
		f(g)
		ms = append(ms, c12Mutant{label, g, parses})
	}
	for _, fld := range []string{"public_key", "secret", "secret_sig"} {
		get := func(g *protocoltypes.Group) *[]byte {
			switch fld {
			case "public_key":
				return &g.PublicKey
			case "secret":
				return &g.Secret
			}
			return &g.SecretSig
		}
		edit("removed/"+fld, false, func(g *protocoltypes.Group) { *get(g) = nil })
		edit("emptied/"+fld, false, func(g *protocoltypes.Group) { *get(g) = []byte{} })
		edit("truncated/"+fld, false, func(g *protocoltypes.Group) { p := get(g); *p = (*p)[:len(*p)-1] })
		edit("extended/"+fld, false, func(g *protocoltypes.Group) { p := get(g); *p = append(append([]byte(nil), *p...), 0) })
		edit("from-other-invitation/"+fld, true, func(g *protocoltypes.Group) {
			switch fld {
			case "public_key":
				g.PublicKey = other.PublicKey
			case "secret":
				g.Secret = other.Secret
			default:
				g.SecretSig = other.SecretSig
			}
		})
	}
	for _, gt := range []int32{0, 1, 2, 4, 5, 100, -1, 1<<31 - 1} {
		if protocoltypes.GroupType(gt) == protocoltypes.GroupType_GroupTypeMultiMember {
			continue
		}
		edit(fmt.Sprintf("group-type=%d", gt), true, func(g *protocoltypes.Group) { g.GroupType = protocoltypes.GroupType(gt) })
	}
	ms = append(ms, c12Mutant{"account-group-as-invitation", acc, false}, c12Mutant{"contact-group-as-invitation", contact, false})
	// self-signed group of another type: a valid signature, but not a multi-member group
	sk, pk, _ := crypto.GenerateEd25519Key(crand.Reader)
	sec := make([]byte, 32)
	_, _ = crand.Read(sec)
	sig, _ := sk.Sign(sec)
	for _, gt := range []protocoltypes.GroupType{protocoltypes.GroupType_GroupTypeAccount, protocoltypes.GroupType_GroupTypeContact, protocoltypes.GroupType_GroupTypeUndefined} {
		ms = append(ms, c12Mutant{"well-signed-" + gt.String(), &protocoltypes.Group{PublicKey: vRawPK(pk), Secret: sec, SecretSig: sig, GroupType: gt}, true})
	}
	// the same through the serialized form
	b, _ := proto.Marshal(inv)
	for i := 0; i < 32; i++ {
		b2 := append([]byte(nil), b...)
		bit := rapid.IntRange(0, len(b2)*8-1).Draw(rt, "sbit")
		b2[bit/8] ^= 1 << uint(bit%8)
		g := &protocoltypes.Group{}
		if err := proto.Unmarshal(b2, g); err != nil {
			continue
		}
		if proto.Equal(g, inv) {
			continue
		}
		// flips that only touch fields outside the invitation (link key material) are not alterations of
		// identifier, secret, signature or type
		if bytes.Equal(g.PublicKey, inv.PublicKey) && bytes.Equal(g.Secret, inv.Secret) && bytes.Equal(g.SecretSig, inv.SecretSig) && g.GroupType == inv.GroupType {
			continue
		}
		ms = append(ms, c12Mutant{"serialized-bit-flip", g, false})
	}
	return ms
}

func TestVerif_C12_Invitations(t *testing.T) {
	acct := vacct.Get("C12")
	vacct.RapidCheck(t, vacct.N(3, 600), func(rt *rapid.T) {
		w := vNewReplica(t, "W", nil)
		defer w.close()
		acc := w.accountGroup(t)
		gc := w.open(t, acc)
		defer gc.Close()
		m := gc.MetadataStore()
		inv, _, _ := NewGroupMultiMember()
		other, _, _ := NewGroupMultiMember()
		_, cpk, _ := crypto.GenerateEd25519Key(crand.Reader)
		contact, err := w.ss.GetGroupForContact(cpk)
		if err != nil {
			rt.Fatalf("harness: %v", err)
		}
		fail := func(id, f string, a ...any) {
			msg := fmt.Sprintf(f, a...)
			acct.Violation(id, "TestVerif_C12_Invitations", map[string]any{"msg": msg})
			rt.Fatalf("C12 %s: %s", id, msg)
		}
		joined := func() int { return len(m.ListMultiMemberGroups()) }
		for _, mu := range c12Mutants(rt, inv, other, acc, contact) {
			before, jb := m.OpLog().Len(), joined()
			_, err := m.GroupJoin(vCtx, mu.g)
			kind := mu.label
			if err == nil {
				fail("altered-invitation-accepted/"+kind, "joining with an altered invitation (%s) succeeded", mu.label)
			}
			if m.OpLog().Len() != before || joined() != jb {
				fail("refused-join-appended/"+kind, "refused join (%s) appended %d entries / changed the joined groups", mu.label, m.OpLog().Len()-before)
			}
			acct.Case(mu.parses, mu.label+fmt.Sprintf("|%x", mu.g.GetPublicKey()[:min(4, len(mu.g.GetPublicKey()))]), func() any {
				return map[string]any{"kind": "invitation-mutant", "mutation": mu.label}
			}, "mutant", lbl07(mu.parses, "mutant/rejected-by-signature-or-type-only"))
		}
		// the untouched invitation joins once
		before := m.OpLog().Len()
		if _, err := m.GroupJoin(vCtx, inv); err != nil {
			fail("valid-invitation-refused", "joining with the untouched invitation failed: %v", err)
		}
		if m.OpLog().Len() != before+1 || joined() != 1 {
			fail("valid-join-not-recorded", "join appended %d entries, %d groups joined", m.OpLog().Len()-before, joined())
		}
		if _, err := m.GroupJoin(vCtx, inv); err == nil {
			fail("second-join-accepted", "joining the same group twice succeeded")
		}
		if m.OpLog().Len() != before+1 {
			fail("refused-join-appended/second-join", "refused second join appended an entry")
		}
		// after leaving the group an altered invitation for the same identifier is refused as before, and the genuine
		// one is accepted again
		gpk, _ := inv.GetPubKey()
		if _, err := m.GroupLeave(vCtx, gpk); err != nil {
			fail("leave-refused", "leaving the joined group failed: %v", err)
		}
		for _, mu := range c12Mutants(rt, inv, other, acc, contact) {
			if !mu.parses || rapid.IntRange(0, 9).Draw(rt, "after-leave-sample") != 0 {
				continue // a sample of the mutants that only the signature / type check can stop
			}
			before, jb := m.OpLog().Len(), joined()
			if _, err := m.GroupJoin(vCtx, mu.g); err == nil {
				fail("altered-invitation-accepted/after-leave/"+mu.label, "after the group was joined and left, joining with an altered invitation (%s) succeeded", mu.label)
			}
			if m.OpLog().Len() != before || joined() != jb {
				fail("refused-join-appended/after-leave", "refused join (%s) after a leave appended entries / changed the joined groups", mu.label)
			}
		}
		for _, f := range []func(g *protocoltypes.Group){
			func(g *protocoltypes.Group) { g.Secret = other.Secret },
			func(g *protocoltypes.Group) { g.SecretSig = nil },
			func(g *protocoltypes.Group) { g.Secret, g.SecretSig = other.Secret, other.SecretSig },
		} {
			g := proto.Clone(inv).(*protocoltypes.Group)
			f(g)
			if _, err := m.GroupJoin(vCtx, g); err == nil {
				fail("altered-invitation-accepted/after-leave", "after the group was joined and left, an invitation with a substituted secret / removed signature was accepted")
			}
		}
		if _, err := m.GroupJoin(vCtx, inv); err != nil {
			fail("valid-invitation-refused/after-leave", "re-joining with the genuine invitation after a leave failed: %v", err)
		}
		if joined() != 1 {
			fail("valid-join-not-recorded", "after join, leave, join the group is not listed as joined")
		}
		acct.Label("honest-join")
		acct.Label("join-leave-altered-rejoin")
	})
}

// in a group joined by invitation the account acts under keys derived for that group
func TestVerif_C12_Identity(t *testing.T) {
	acct := vacct.Get("C12")
	vacct.RapidCheck(t, vacct.N(6, 600), func(rt *rapid.T) {
		w := vNewReplica(t, "W", nil)
		defer w.close()
		acc := w.accountGroup(t)
		agc := w.open(t, acc)
		defer agc.Close()
		inv, _, _ := NewGroupMultiMember()
		named := rapid.Bool().Draw(rt, "named-after-contact")
		if named {
			// the invitation comes from a contact the account already knows, and the group identifier is that
			// contact's account key (its owner can sign such an invitation)
			csk, cpk, _ := crypto.GenerateEd25519Key(crand.Reader)
			if _, err := w.ss.GetGroupForContact(cpk); err != nil {
				rt.Fatalf("harness: %v", err)
			}
			sec := make([]byte, 32)
			_, _ = crand.Read(sec)
			sig, _ := csk.Sign(sec)
			inv = &protocoltypes.Group{PublicKey: vRawPK(cpk), Secret: sec, SecretSig: sig, GroupType: protocoltypes.GroupType_GroupTypeMultiMember}
		}
		if _, err := agc.MetadataStore().GroupJoin(vCtx, inv); err != nil {
			rt.Fatalf("harness: %v", err)
		}
		// the group as the account group recorded it
		var rec *protocoltypes.Group
		for _, g := range agc.MetadataStore().ListMultiMemberGroups() {
			if bytes.Equal(g.PublicKey, inv.PublicKey) {
				rec = g
			}
		}
		fail := func(id, f string, a ...any) {
			msg := fmt.Sprintf(f, a...)
			acct.Violation("identity/"+id, "TestVerif_C12_Identity", map[string]any{"msg": msg})
			rt.Fatalf("C12 %s: %s", id, msg)
		}
		if rec == nil || !proto.Equal(rec, inv) {
			fail("recorded-group-differs", "the joined group recorded in the account differs from the invitation")
		}
		gc := w.open(t, rec)
		defer gc.Close()
		if _, err := gc.MetadataStore().AddDeviceToGroup(vCtx); err != nil {
			rt.Fatalf("harness: %v", err)
		}
		accSK, _ := w.ss.GetAccountPrivateKey()
		_, accMD, _ := w.ss.GetGroupForAccount()
		derived, err := w.ss.GetOwnMemberDeviceForGroup(inv)
		if err != nil {
			rt.Fatalf("harness: %v", err)
		}
		// the keys derived for the group, as another device of the same account (fresh store, imported keys) derives them
		ka, kb, err := w.ss.ExportAccountKeysForBackup()
		if err != nil {
			rt.Fatalf("harness: %v", err)
		}
		fresh, _ := secretstore.NewInMemSecretStore(nil)
		if err := fresh.ImportAccountKeys(ka, kb); err != nil {
			rt.Fatalf("harness: %v", err)
		}
		if fm, err := fresh.GetOwnMemberDeviceForGroup(inv); err != nil || !fm.Member().Equals(derived.Member()) {
			fail("not-group-derived-keys", "the member key used in the joined group is not the one derived for that group from the account's keys (group named after a known contact: %v)", named)
		}
		evs, err := c13AllMeta(gc)
		if err != nil || len(evs) == 0 {
			rt.Fatalf("harness: no announcement in the group log: %v", err)
		}
		found := false
		for _, e := range evs {
			if e.Metadata.EventType != protocoltypes.EventType_EventTypeGroupMemberDeviceAdded {
				continue
			}
			found = true
			var ev protocoltypes.GroupMemberDeviceAdded
			if err := proto.Unmarshal(e.Event, &ev); err != nil {
				rt.Fatalf("harness: %v", err)
			}
			if !bytes.Equal(ev.MemberPk, vRawPK(derived.Member())) || !bytes.Equal(ev.DevicePk, vRawPK(derived.Device())) {
				fail("not-group-derived-keys", "the announcement in the joined group does not carry the keys derived for that group")
			}
			if bytes.Equal(ev.MemberPk, vRawPK(accSK.GetPublic())) || bytes.Equal(ev.DevicePk, vRawPK(accMD.Device())) || bytes.Equal(ev.MemberPk, vRawPK(accMD.Member())) {
				fail("account-identity-used", "the account acts under its account key / account device key in a group joined by invitation")
			}
		}
		if !found {
			rt.Fatalf("harness: no GroupMemberDeviceAdded event")
		}
		acct.Case(true, fmt.Sprintf("identity|%x", inv.PublicKey[:6]), func() any {
			return map[string]any{"kind": "joined-group-identity", "group_named_after_known_contact": named}
		}, "identity", lbl07(named, "identity/group-named-after-contact"))
	})
}

func c13AllMeta(gc *GroupContext) ([]*protocoltypes.GroupMetadataEvent, error) {
	ch, err := gc.MetadataStore().ListEvents(vCtx, nil, nil, false)
	if err != nil {
		return nil, err
	}
	var out []*protocoltypes.GroupMetadataEvent
	for e := range ch {
		out = append(out, e)
	}
	return out, nil
}

// replication descriptors: no secret, open nothing, same log addresses
func TestVerif_C12_Descriptors(t *testing.T) {
	acct := vacct.Get("C12")
	types := c03Types()
	vacct.RapidCheck(t, vacct.N(20, 12000), func(rt *rapid.T) {
		ss, err := secretstore.NewInMemSecretStore(nil)
		if err != nil {
			rt.Fatalf("harness: %v", err)
		}
		kind := rapid.IntRange(0, 2).Draw(rt, "kind")
		k := c03NewKeys()
		var g *protocoltypes.Group
		switch kind {
		case 0:
			g, _, _ = ss.GetGroupForAccount()
		case 1:
			_, cpk, _ := crypto.GenerateEd25519Key(crand.Reader)
			g, _ = ss.GetGroupForContact(cpk)
		default:
			g = k.g
		}
		k.g = g
		// the group as a member holds it: as issued, or as joined from an invitation that lost the fields which are
		// not part of what a join verifies (such an invitation is accepted, so its descriptor is in scope)
		variants := []string{"as-issued"}
		if kind == 2 {
			variants = []string{"as-issued", "link_key_sig-removed", "link_key_sig-emptied", "sign_pub-filled-in", "link_key-filled-in", "sign_pub-and-link_key-filled-in", "sign_pub-of-somebody-else"}
		}
		tried := 0
		for _, variant := range variants {
			held := g
			if kind == 2 {
				held = proto.Clone(g).(*protocoltypes.Group)
				// an invitation may spell out the optional fields every member derives (same values: still accepted)
				fillSignPub := func() {
					spk, err := g.GetSigningPubKey()
					if err != nil {
						rt.Fatalf("harness: %v", err)
					}
					held.SignPub, _ = spk.Raw()
				}
				fillLinkKey := func() {
					lk, err := g.GetLinkKeyArray()
					if err != nil {
						rt.Fatalf("harness: %v", err)
					}
					held.LinkKey = lk[:]
				}
				switch variant {
				case "link_key_sig-removed":
					held.LinkKeySig = nil
				case "link_key_sig-emptied":
					held.LinkKeySig = []byte{}
				case "sign_pub-filled-in":
					fillSignPub()
				case "link_key-filled-in":
					fillLinkKey()
				case "sign_pub-and-link_key-filled-in":
					fillSignPub()
					fillLinkKey()
				case "sign_pub-of-somebody-else":
					// no signature covers the field: such an invitation is accepted as well; whatever the member then does with
					// it, its descriptor designates the logs the member itself opens
					_, opk, _ := crypto.GenerateEd25519Key(crand.Reader)
					held.SignPub, _ = opk.Raw()
				}
				if err := held.IsValid(); err != nil {
					rt.Fatalf("harness: the %s invitation is not accepted: %v", variant, err)
				}
			}
			fail := func(id, f string, a ...any) {
				msg := fmt.Sprintf(f, a...)
				acct.Violation("descriptor/"+id, "TestVerif_C12_Descriptors", map[string]any{"group_type": g.GroupType.String(), "held_as": variant, "msg": msg})
				rt.Fatalf("C12 %s (group held %s): %s", id, variant, msg)
			}
			d, err := FilterGroupForReplication(held)
			if err != nil {
				fail("filter-error", "FilterGroupForReplication failed for a %v group: %v", g.GroupType, err)
			}
			if len(d.Secret) != 0 || len(d.SecretSig) != 0 {
				fail("secret-in-descriptor", "descriptor carries the secret or its signature")
			}
			ser, _ := proto.Marshal(d)
			for i := 0; i+8 <= len(g.Secret); i++ {
				if bytes.Contains(ser, g.Secret[i:i+8]) {
					fail("secret-in-descriptor", "the serialized descriptor contains bytes %d..%d of the group secret", i, i+8)
				}
			}
			// every metadata event type and messages of a session
			if err := ss.PutGroup(vCtx, g); err != nil {
				rt.Fatalf("harness: %v", err)
			}
			for _, et := range types {
				honest, _, _, _ := c03Build(rt, k, et)
				if _, _, err := openGroupEnvelope(g, honest); err != nil {
					continue // (only possible for the group-signed event on groups whose private key the harness does not hold)
				}
				tried++
				if _, _, err := openGroupEnvelope(d, honest); err == nil {
					fail("descriptor-opens-metadata", "the descriptor opened a %v event", et)
				}
			}
			for i := 0; i < 3; i++ {
				pl, _ := proto.Marshal(&protocoltypes.EncryptedMessage{Plaintext: []byte(fmt.Sprintf("message %d", i))})
				env, err := ss.SealEnvelope(vCtx, g, pl)
				if err != nil {
					rt.Fatalf("harness: seal: %v", err)
				}
				if _, _, err := ss.OpenEnvelopeHeaders(env, g); err != nil {
					rt.Fatalf("harness: full group cannot open headers: %v", err)
				}
				tried++
				if _, hdr, err := ss.OpenEnvelopeHeaders(env, d); err == nil {
					fail("descriptor-opens-message-headers", "the descriptor opened message headers (counter %d)", hdr.Counter)
				}
			}
			// same log addresses
			ref := g
			if variant == "sign_pub-of-somebody-else" {
				ref = held
			}
			for _, st := range []string{"wesh_group_metadata", "wesh_group_messages"} {
				a1, e1 := defaultACForGroup(ref, st)
				a2, e2 := defaultACForGroup(d, st)
				if e1 != nil || e2 != nil {
					fail("address-error", "access controller: %v / %v", e1, e2)
				}
				if a1.GetAddress().String() != a2.GetAddress().String() {
					fail("address-differs", "descriptor designates another %s log (access controller %s vs %s)", st, a2.GetAddress(), a1.GetAddress())
				}
			}
			if d.GroupIDAsString() != g.GroupIDAsString() {
				fail("address-differs", "descriptor has another group id")
			}
			l1, e1 := g.GetLinkKeyArray()
			l2, e2 := d.GetLinkKeyArray()
			if e1 != nil || e2 != nil || *l1 != *l2 {
				fail("link-key-differs", "descriptor link key differs (%v %v)", e1, e2)
			}
			p1, _ := ref.GetSigningPubKey()
			p2, e := d.GetSigningPubKey()
			if e != nil || !p1.Equals(p2) {
				fail("signing-key-differs", "descriptor names another log signing key")
			}
		}
		acct.Case(true, fmt.Sprintf("desc|%d|%x", kind, g.PublicKey[:6]), func() any {
			return map[string]any{"kind": "descriptor", "group_type": g.GroupType.String(), "held_as": variants, "envelopes_tried": tried}
		}, "descriptor", "descriptor/"+g.GroupType.String(), lbl07(kind == 2, "descriptor/joined-without-link-key-sig"), lbl07(kind == 2, "descriptor/invitation-with-optional-fields-filled-in"))
	})
}
