//go:build verif

package weshnet

import (
	"bytes"
	"fmt"
	"strings"
	"testing"
	"time"

	"github.com/ipfs/go-cid"
	"google.golang.org/protobuf/proto"
	"pgregory.net/rapid"

	ipfslog "berty.tech/go-ipfs-log"
	"berty.tech/weshnet/v2/internal/vacct"
	"berty.tech/weshnet/v2/pkg/protocoltypes"
	"berty.tech/weshnet/v2/pkg/secretstore"
)

// C14 through the stores (what OutOfStoreSeal / OutOfStoreReceive of the service do): push payloads are made by the
// writer's message store from its log entry (GetOutOfStoreMessageEnvelope) and opened by a member that also receives
// the same entries through the log, in every order.

type c14Step struct {
	Kind string `json:"kind"` // push | log
	K    int    `json:"k"`    // message number, 1-based
}

func TestVerif_C14_Stores(t *testing.T) {
	acct := vacct.Get("C14")
	vacct.RapidCheck(t, vacct.N(8, 2000), func(rt *rapid.T) {
		// small key / reference windows in most sessions, so that both slide within a few messages
		W, R := 100, 100
		var opts *secretstore.NewSecretStoreOptions
		if rapid.IntRange(0, 3).Draw(rt, "small") != 0 {
			W, R = rapid.IntRange(2, 4).Draw(rt, "W"), rapid.IntRange(2, 4).Draw(rt, "R")
			opts = &secretstore.NewSecretStoreOptions{PreComputedKeysCount: W, PrecomputeOutOfStoreGroupRefsCount: R}
		}
		x := c13SetupOpts(t, opts)
		defer x.close()
		// (the service records every group it opens in the secret store)
		if err := x.r.ss.PutGroup(vCtx, x.g); err != nil {
			rt.Fatalf("harness: %v", err)
		}
		if err := x.w.ss.PutGroup(vCtx, x.g); err != nil {
			rt.Fatalf("harness: %v", err)
		}
		n := rapid.IntRange(1, 9).Draw(rt, "n")
		var entries []ipfslog.Entry
		var payloads [][]byte
		for i := 1; i <= n; i++ {
			p := []byte(fmt.Sprintf("message-%d-%s", i, strings.Repeat("x", rapid.IntRange(0, 40).Draw(rt, "len"))))
			op, err := x.wgc.MessageStore().AddMessage(vCtx, p)
			if err != nil {
				rt.Fatalf("harness: %v", err)
			}
			entries = append(entries, op.GetEntry())
			payloads = append(payloads, p)
		}
		wdev := vRawPK(x.wgc.DevicePubKey())
		sub, err := x.rgc.MessageStore().EventBus().Subscribe(new(*protocoltypes.GroupMessageEvent))
		if err != nil {
			rt.Fatalf("harness: %v", err)
		}
		defer sub.Close()
		delivered := map[string][]byte{} // entry id -> payload handed to the application
		received := 0                    // entries 1..received were delivered to R through the log
		waitDelivered := func(upTo int) {
			deadline := time.After(30 * time.Second)
			for {
				missing := false
				for i := 0; i < upTo; i++ {
					if _, ok := delivered[entries[i].GetHash().String()]; !ok {
						missing = true
					}
				}
				if !missing {
					return
				}
				select {
				case e := <-sub.Out():
					ev := e.(*protocoltypes.GroupMessageEvent)
					_, c, _ := cid.CidFromBytes(ev.EventContext.Id)
					delivered[c.String()] = ev.Message
				case <-deadline:
					rt.Fatalf("harness: log delivery of entries 1..%d not finished within 30s", upTo)
				}
			}
		}
		var plan []c14Step
		for i, m := 0, rapid.IntRange(2, 10).Draw(rt, "steps"); i < m; i++ {
			plan = append(plan, c14Step{Kind: rapid.SampledFrom([]string{"push", "push", "log"}).Draw(rt, "kind"), K: rapid.IntRange(1, n).Draw(rt, "k")})
		}
		var trace []string
		fail := func(id, f string, a ...any) {
			msg := fmt.Sprintf(f, a...)
			acct.Violation("stores/"+id, "TestVerif_C14_Stores", map[string]any{"messages": n, "plan": trace, "msg": msg})
			rt.Fatalf("C14 %s: %s (plan %v)", id, msg, trace)
		}
		pushBeforeLog, pushAfterLog, pushTwice, refused := false, false, false, false
		last := map[int]bool{W: true} // counters one of which the reference window was last centred on (registration centres it on the counter reached by the key precomputation: c + W, here c = 0)
		pushed := map[int]int{}
		for _, st := range plan {
			trace = append(trace, fmt.Sprintf("%s(%d)", st.Kind, st.K))
			switch st.Kind {
			case "log":
				if st.K > received {
					if err := vSync(x.rgc.MessageStore(), entries[st.K-1]); err != nil {
						rt.Fatalf("harness: %v", err)
					}
					last = map[int]bool{}
					for c := received + 1; c <= st.K; c++ {
						last[c] = true // the entries of one replication batch are processed in an unspecified order
					}
					received = st.K
				}
				waitDelivered(received)
			case "push":
				env, err := x.wgc.MessageStore().GetOutOfStoreMessageEnvelope(vCtx, entries[st.K-1].GetHash())
				if err != nil {
					fail("push-not-sealed", "the writer cannot make a push payload for its message %d: %v", st.K, err)
				}
				b, _ := proto.Marshal(env)
				oos, g, clear, already, err := x.r.ss.OpenOutOfStoreMessage(vCtx, b)
				// must open: openable through the log (C02: counter <= window + number opened) and strictly inside
				// the reference window around the counter seen last
				must := st.K <= W+received
				for l := range last {
					if !(st.K+R > l && st.K < l+R) {
						must = false
					}
				}
				if err != nil {
					if must {
						fail("push-open-rejected", "push payload of message %d (received through the log: %v; key window %d, reference window %d, %d messages received, last seen among %v) does not open: %v", st.K, st.K <= received, W, R, received, last, err)
					}
					refused = true
					continue
				}
				last = map[int]bool{st.K: true}
				// (the cleartext is the sealed unit, i.e. the application payload in its EncryptedMessage wrapper)
				var wrapped protocoltypes.EncryptedMessage
				if !bytes.Equal(clear, payloads[st.K-1]) && !(proto.Unmarshal(clear, &wrapped) == nil && bytes.Equal(wrapped.Plaintext, payloads[st.K-1])) {
					fail("push-wrong-payload", "push payload of message %d opens to %q", st.K, trunc20(clear))
				}
				if g == nil || !bytes.Equal(g.PublicKey, x.g.PublicKey) {
					fail("push-wrong-group", "push payload of message %d attributed to another group", st.K)
				}
				if !bytes.Equal(oos.Cid, entries[st.K-1].GetHash().Bytes()) || !bytes.Equal(oos.DevicePk, wdev) || oos.Counter != uint64(st.K) {
					fail("push-wrong-attribution", "push payload of message %d names another entry / device / counter (%d)", st.K, oos.Counter)
				}
				if want := st.K <= received; already != want {
					fail("already-received-untruthful", "push open of message %d reports already_received=%v, delivered through the log before: %v", st.K, already, want)
				}
				if st.K <= received {
					pushAfterLog = true
				} else {
					pushBeforeLog = true
				}
				pushed[st.K]++
				if pushed[st.K] > 1 {
					pushTwice = true
				}
			}
		}
		// the log path is undisturbed: everything is delivered once the whole log arrived, with the original content
		if err := vSync(x.rgc.MessageStore(), entries[n-1]); err != nil {
			rt.Fatalf("harness: %v", err)
		}
		received = n
		waitDelivered(n)
		for i, e := range entries {
			if !bytes.Equal(delivered[e.GetHash().String()], payloads[i]) {
				fail("log-open-broken", "message %d delivered through the log with other content after push opens", i+1)
			}
		}
		nt := pushBeforeLog && pushAfterLog
		acct.Case(nt, fmt.Sprintf("stores|%d|%v", n, trace), func() any { return map[string]any{"kind": "stores-session", "messages": n, "plan": trace} },
			"stores", lbl07(opts != nil, "stores/small-windows"), lbl07(refused, "stores/push-outside-windows-refused"), lbl07(pushBeforeLog, "stores/push-before-log"), lbl07(pushAfterLog, "stores/push-after-log"), lbl07(pushTwice, "stores/push-twice"))
	})
}

func trunc20(b []byte) []byte {
	if len(b) > 20 {
		return b[:20]
	}
	return b
}
