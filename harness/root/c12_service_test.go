//go:build verif

package weshnet

import (
	"time"
	"bytes"
	crand "crypto/rand"
	"fmt"
	"testing"

	"github.com/libp2p/go-libp2p/core/crypto"
	"google.golang.org/protobuf/proto"
	"pgregory.net/rapid"

	"berty.tech/weshnet/v2/internal/vacct"
	"berty.tech/weshnet/v2/pkg/protocoltypes"
)

// C12 through the service (MultiMemberGroupJoin / ActivateGroup / GroupInfo): refused invitations leave no trace, also
// none that a later genuine join of the same group identifier would pick up; after the genuine join the account acts
// in the group under the keys derived for it.
func TestVerif_C12_Service(t *testing.T) {
	acct := vacct.Get("C12")
	vacct.RapidCheck(t, vacct.N(3, 200), func(rt *rapid.T) {
		tp, cleanup := NewTestingProtocol(vCtx, t, nil, nil)
		defer cleanup()
		svc := tp.Service.(*service)
		inv, _, _ := NewGroupMultiMember()
		other, _, _ := NewGroupMultiMember()
		accGC := svc.getAccountGroup()
		if accGC == nil {
			rt.Fatalf("harness: no account group")
		}
		accLog := accGC.MetadataStore().OpLog()
		vWaitQuiet(func() int { return accLog.Len() }, 500*time.Millisecond, 15*time.Second)
		// (the service may still write announcements of its own into the account group: only group-joined entries count)
		joins := func() int {
			evs, _ := c13AllMeta(accGC)
			n := 0
			for _, e := range evs {
				if e.Metadata.EventType == protocoltypes.EventType_EventTypeAccountGroupJoined {
					n++
				}
			}
			return n
		}
		accSK, _ := tp.SecretStore.GetAccountPrivateKey()
		_, accMD, _ := tp.SecretStore.GetGroupForAccount()
		var trace []string
		fail := func(id, f string, a ...any) {
			msg := fmt.Sprintf(f, a...)
			acct.Violation("service/"+id, "TestVerif_C12_Service", map[string]any{"trace": trace, "msg": msg})
			rt.Fatalf("C12 %s: %s (%v)", id, msg, trace)
		}
		// altered invitations for the same group identifier, each refused
		type alt struct {
			label string
			f     func(g *protocoltypes.Group)
		}
		alts := []alt{
			{"group-type=contact", func(g *protocoltypes.Group) { g.GroupType = protocoltypes.GroupType_GroupTypeContact }},
			{"group-type=account", func(g *protocoltypes.Group) { g.GroupType = protocoltypes.GroupType_GroupTypeAccount }},
			{"group-type=undefined", func(g *protocoltypes.Group) { g.GroupType = protocoltypes.GroupType_GroupTypeUndefined }},
			{"secret-replaced", func(g *protocoltypes.Group) { g.Secret = make([]byte, 32); _, _ = crand.Read(g.Secret) }},
			{"secret-and-sig-of-other-invitation", func(g *protocoltypes.Group) { g.Secret, g.SecretSig = other.Secret, other.SecretSig }},
			{"secret-sig-removed", func(g *protocoltypes.Group) { g.SecretSig = nil }},
			{"secret-bit-flip", func(g *protocoltypes.Group) {
				g.Secret = append([]byte(nil), g.Secret...)
				g.Secret[rapid.IntRange(0, 31).Draw(rt, "byte")] ^= 1 << uint(rapid.IntRange(0, 7).Draw(rt, "bit"))
			}},
		}
		nAlt := rapid.IntRange(1, 3).Draw(rt, "alterations")
		for i := 0; i < nAlt; i++ {
			a := alts[rapid.IntRange(0, len(alts)-1).Draw(rt, "alt")]
			g := proto.Clone(inv).(*protocoltypes.Group)
			a.f(g)
			before := joins()
			_, err := svc.MultiMemberGroupJoin(vCtx, &protocoltypes.MultiMemberGroupJoin_Request{Group: g})
			trace = append(trace, fmt.Sprintf("join(%s)->refused=%v", a.label, err != nil))
			if err == nil {
				fail("altered-invitation-accepted/"+a.label, "the service joined an altered invitation (%s)", a.label)
			}
			if n := joins(); n != before {
				fail("refused-join-appended/"+a.label, "refused join (%s) appended %d group-joined entries to the account log", a.label, n-before)
			}
			if len(accGC.MetadataStore().ListMultiMemberGroups()) != 0 {
				fail("refused-join-appended/"+a.label, "after a refused join (%s) the account lists a joined group", a.label)
			}
		}
		// the genuine invitation is joined, the group activated and inspected
		if _, err := svc.MultiMemberGroupJoin(vCtx, &protocoltypes.MultiMemberGroupJoin_Request{Group: inv}); err != nil {
			fail("valid-invitation-refused", "joining the genuine invitation after refused ones failed: %v", err)
		}
		trace = append(trace, "join(genuine)")
		if _, err := svc.ActivateGroup(vCtx, &protocoltypes.ActivateGroup_Request{GroupPk: inv.PublicKey}); err != nil {
			fail("joined-group-unusable", "the joined group cannot be activated: %v", err)
		}
		info, err := svc.GroupInfo(vCtx, &protocoltypes.GroupInfo_Request{GroupPk: inv.PublicKey})
		if err != nil {
			fail("joined-group-unusable", "GroupInfo of the joined group: %v", err)
		}
		if !proto.Equal(info.Group, inv) {
			fail("refused-invitation-left-trace", "the account operates the joined group as %v secret %x..., the invitation it joined says %v secret %x...", info.Group.GetGroupType(), trunc20(info.Group.GetSecret())[:4], inv.GroupType, inv.Secret[:4])
		}
		derived, err := tp.SecretStore.GetOwnMemberDeviceForGroup(inv)
		if err != nil {
			rt.Fatalf("harness: %v", err)
		}
		if !bytes.Equal(info.MemberPk, vRawPK(derived.Member())) || !bytes.Equal(info.DevicePk, vRawPK(derived.Device())) {
			fail("not-group-derived-keys", "GroupInfo reports other member/device keys than the ones derived for the group")
		}
		if bytes.Equal(info.MemberPk, vRawPK(accSK.GetPublic())) || bytes.Equal(info.DevicePk, vRawPK(accMD.Device())) || bytes.Equal(info.MemberPk, vRawPK(accMD.Member())) {
			fail("account-identity-used", "the account acts under its account identity in a group joined by invitation")
		}
		// what the account announced in the group
		gc, err := svc.GetContextGroupForID(inv.PublicKey)
		if err != nil {
			rt.Fatalf("harness: %v", err)
		}
		evs, _ := c13AllMeta(gc)
		for _, e := range evs {
			if e.Metadata.EventType != protocoltypes.EventType_EventTypeGroupMemberDeviceAdded {
				continue
			}
			var ev protocoltypes.GroupMemberDeviceAdded
			if proto.Unmarshal(e.Event, &ev) != nil {
				continue
			}
			if bytes.Equal(ev.MemberPk, vRawPK(accSK.GetPublic())) || bytes.Equal(ev.DevicePk, vRawPK(accMD.Device())) {
				fail("account-identity-used", "the account announced itself in the joined group under its account key / account device key")
			}
		}
		acct.Case(true, fmt.Sprintf("service|%v", trace), func() any { return map[string]any{"kind": "service-join", "trace": trace} }, "service-join")
	})
}

var _ crypto.PubKey
