//go:build verif

package weshnet

import (
	"bytes"
	"fmt"
	"testing"
	"time"

	"github.com/ipfs/go-cid"
	"pgregory.net/rapid"

	"berty.tech/weshnet/v2/internal/vacct"
	"berty.tech/weshnet/v2/pkg/errcode"
	"berty.tech/weshnet/v2/pkg/protocoltypes"
	"berty.tech/weshnet/v2/pkg/secretstore"
)

// C01 through real message stores: a device sends a run of messages through its own message store (which reads every
// one of its entries back, as the write-event loop does, before the next one is sent); a member that holds the
// device's chain key and keeps a small window of precomputed keys receives the entries in order and must be handed
// every payload, attributed to the sending device, with the counters the sender's headers carry.
func TestVerif_C01_MessageStores(t *testing.T) {
	acct := vacct.Get("C01")
	vacct.RapidCheck(t, vacct.N(6, 200), func(rt *rapid.T) {
		kind := rapid.SampledFrom([]string{"multimember", "contact", "account"}).Draw(rt, "kind")
		window := rapid.SampledFrom([]int{2, 3, 5}).Draw(rt, "window")
		n := rapid.IntRange(window+2, window+7).Draw(rt, "n")
		a := vNewReplica(t, "A", nil)
		defer a.close()
		opts := &secretstore.NewSecretStoreOptions{PreComputedKeysCount: window}
		var b *vReplica
		if kind == "account" {
			b = vNewReplicaOpts(t, "B", a, opts)
		} else {
			b = vNewReplicaOpts(t, "B", nil, opts)
		}
		defer b.close()
		ask, _ := a.ss.GetAccountPrivateKey()
		bsk, _ := b.ss.GetAccountPrivateKey()
		var g *protocoltypes.Group
		switch kind {
		case "contact":
			g, _ = a.ss.GetGroupForContact(bsk.GetPublic())
		case "account":
			g = a.accountGroup(t)
		default:
			g, _, _ = NewGroupMultiMember()
		}
		agc, bgc := a.open(t, g), b.open(t, g)
		defer agc.Close()
		defer bgc.Close()
		activate := func(gc *GroupContext, who string) {
			done := make(chan error, 1)
			go func() {
				switch {
				case kind == "contact" && who == "A":
					done <- gc.ActivateGroupContext(bsk.GetPublic())
				case kind == "contact":
					done <- gc.ActivateGroupContext(ask.GetPublic())
				default:
					done <- gc.ActivateGroupContext(nil)
				}
			}()
			select {
			case err := <-done:
				if err != nil {
					rt.Fatalf("harness: activation of %s: %v", who, err)
				}
			case <-time.After(30 * time.Second):
				rt.Fatalf("harness: activation of %s did not return", who)
			}
		}
		activate(agc, "A")
		if _, err := agc.MetadataStore().SendSecret(vCtx, bgc.MemberPubKey()); err != nil && !errcode.Is(err, errcode.ErrCode_ErrGroupSecretAlreadySentToMember) {
			rt.Fatalf("harness: SendSecret: %v", err)
		}
		activate(bgc, "B")
		for _, h := range agc.MetadataStore().OpLog().Heads().Slice() {
			if err := vDeliverMeta(bgc, agc, h); err != nil {
				rt.Fatalf("harness: %v", err)
			}
		}
		gpk, _ := g.GetPubKey()
		adev := agc.DevicePubKey()
		rawA := vRawPK(adev)
		for i := 0; i < 200 && !b.ss.IsChainKeyKnownForDevice(vCtx, gpk, adev); i++ {
			time.Sleep(50 * time.Millisecond)
		}
		if !b.ss.IsChainKeyKnownForDevice(vCtx, gpk, adev) {
			rt.Fatalf("harness: B never learnt A's chain key (C05 / C08 judge that)")
		}
		own, err := agc.MessageStore().EventBus().Subscribe(new(*protocoltypes.GroupMessageEvent))
		if err != nil {
			rt.Fatalf("harness: %v", err)
		}
		defer own.Close()
		sub, err := bgc.MessageStore().EventBus().Subscribe(new(*protocoltypes.GroupMessageEvent))
		if err != nil {
			rt.Fatalf("harness: %v", err)
		}
		defer sub.Close()
		desc := map[string]any{"group": kind, "receiver_key_window": window, "messages": n}
		fail := func(id, f string, args ...any) {
			msg := fmt.Sprintf(f, args...)
			acct.Violation("stores/"+id, "TestVerif_C01_MessageStores", map[string]any{"case": desc, "msg": msg})
			rt.Fatalf("C01 stores/%s: %s (%v)", id, msg, desc)
		}
		var ids []string
		payload := map[string][]byte{}
		counter := map[string]uint64{}
		for i := 0; i < n; i++ {
			p := []byte(fmt.Sprintf("message-%d", i))
			op, err := agc.MessageStore().AddMessage(vCtx, p)
			if err != nil {
				rt.Fatalf("harness: %v", err)
			}
			e := op.GetEntry()
			id := e.GetHash().String()
			ids = append(ids, id)
			payload[id] = p
			// the sender's store hands its own message to its application before the next one is sent
			deadline := time.After(20 * time.Second)
		waitOwn:
			for {
				select {
				case ev := <-own.Out():
					me := ev.(*protocoltypes.GroupMessageEvent)
					if _, c, _ := cid.CidFromBytes(me.EventContext.Id); c.String() == id {
						if !bytes.Equal(me.Message, p) || !bytes.Equal(me.Headers.DevicePk, rawA) {
							fail("own-delivery-altered", "the sender's own store hands out message %d with other content or sender", i)
						}
						counter[id] = me.Headers.Counter
						break waitOwn
					}
				case <-deadline:
					fail("honest-not-delivered", "the sender's own store never handed out its message %d", i)
				}
			}
			if err := vDeliverMsg(bgc, agc, e); err != nil {
				rt.Fatalf("harness: %v", err)
			}
		}
		got := map[string]*protocoltypes.GroupMessageEvent{}
		last, since := 0, time.Now()
		for time.Since(since) < 6*time.Second && len(got) < n {
			select {
			case ev := <-sub.Out():
				me := ev.(*protocoltypes.GroupMessageEvent)
				_, c, _ := cid.CidFromBytes(me.EventContext.Id)
				got[c.String()] = me
			case <-time.After(50 * time.Millisecond):
			}
			if len(got) != last {
				last, since = len(got), time.Now()
			}
		}
		for i, id := range ids {
			me, ok := got[id]
			if !ok {
				sz, _ := bgc.MessageStore().CacheSizeForDevicePK(rawA)
				fail("honest-not-delivered", "message %d of %d (counter %d in the sender's header), sealed by a device whose chain key the member holds and received in order, was not opened by the member (key window %d): %d delivered, %d parked", i, n, counter[id], window, len(got), sz)
			}
			if !bytes.Equal(me.Message, payload[id]) {
				fail("honest-wrong-payload", "message %d delivered with other content", i)
			}
			if !bytes.Equal(me.Headers.DevicePk, rawA) || me.Headers.Counter != counter[id] {
				fail("honest-wrong-attribution", "message %d delivered as device %x counter %d, the sender's own store says counter %d", i, me.Headers.DevicePk[:4], me.Headers.Counter, counter[id])
			}
		}
		acct.Case(true, fmt.Sprintf("c01stores|%s|%d|%d", kind, window, n), func() any { return desc }, "stores", "stores/"+kind)
	})
}
