//go:build verif

package weshnet

import (
	"archive/tar"
	ipfslog "berty.tech/go-ipfs-log"
	"bytes"
	"context"
	crand "crypto/rand"
	"encoding/base64"
	"fmt"
	"io"
	"sort"
	"strings"
	"testing"
	"testing/iotest"
	"time"

	"github.com/ipfs/go-cid"
	ds "github.com/ipfs/go-datastore"
	dsync "github.com/ipfs/go-datastore/sync"
	"github.com/libp2p/go-libp2p/core/crypto"
	mocknet "github.com/libp2p/go-libp2p/p2p/net/mock"
	"go.uber.org/zap"
	"google.golang.org/protobuf/proto"
	"pgregory.net/rapid"

	orbitdb "berty.tech/go-orbit-db"
	"berty.tech/weshnet/v2/internal/vacct"
	"berty.tech/weshnet/v2/pkg/ipfsutil"
	"berty.tech/weshnet/v2/pkg/protocoltypes"
	"berty.tech/weshnet/v2/pkg/secretstore"
	"berty.tech/weshnet/v2/pkg/tinder"
)

// C20: an account export restores to the same identity, logs and state.

type c20File struct {
	Name string
	Data []byte
}

type c20GroupSnap struct {
	group     *protocoltypes.Group
	metaCIDs  []string
	msgCIDs   []string
	metaHeads []string
	msgHeads  []string
	raw       map[string][]byte
	dump      string
}

type c20Source struct {
	big            int // size of the one large message of the history (0: none)
	files          []c20File
	keyA           []byte
	keyProof       []byte
	accPK          []byte
	groups         []*c20GroupSnap
	trace          []string
	contactGroups  int
	blockedContact bool
	forkedLog      bool
	olderFiles     []c20File // an export taken earlier in the same history
}

func c20SortedCIDs(cs []cid.Cid) []string {
	var out []string
	for _, c := range cs {
		out = append(out, c.String())
	}
	sort.Strings(out)
	return out
}

// c20BuildSource runs an account history on node A and exports it.
func c20BuildSource(t *testing.T, rt *rapid.T) *c20Source {
	src := &c20Source{}
	w := c19NewWorld(t)
	defer w.cleanup()
	svc := w.tp.Service.(*service)
	nGroups := rapid.IntRange(0, 2).Draw(rt, "groups")
	var gpks [][]byte
	for i := 0; i < nGroups; i++ {
		res := w.call("MultiMemberGroupCreate", &protocoltypes.MultiMemberGroupCreate_Request{})
		if res.errored || res.panicked {
			rt.Fatalf("harness: create group failed")
		}
		gpks = append(gpks, res.reply.(*protocoltypes.MultiMemberGroupCreate_Reply).GroupPk)
	}
	accPK := w.pools.keys[0]
	// contacts whose request was received and accepted: their contact groups are opened and written to as well
	type c20Contact struct {
		pk, gpk []byte
	}
	var contacts []c20Contact
	for i, n := 0, rapid.IntRange(0, 2).Draw(rt, "contacts"); i < n; i++ {
		_, pk, _ := crypto.GenerateEd25519Key(crand.Reader)
		seed := make([]byte, 32)
		_, _ = crand.Read(seed)
		if _, err := svc.getAccountGroup().MetadataStore().ContactRequestIncomingReceived(vCtx, &protocoltypes.ShareableContact{Pk: vRawPK(pk), PublicRendezvousSeed: seed}); err != nil {
			rt.Fatalf("harness: incoming request: %v", err)
		}
		if r := w.call("ContactRequestAccept", &protocoltypes.ContactRequestAccept_Request{ContactPk: vRawPK(pk)}); r.errored || r.panicked {
			rt.Fatalf("harness: accept failed")
		}
		r := w.call("GroupInfo", &protocoltypes.GroupInfo_Request{ContactPk: vRawPK(pk)})
		if r.errored || r.panicked || r.reply == nil {
			rt.Fatalf("harness: group info of the contact group failed")
		}
		cg := r.reply.(*protocoltypes.GroupInfo_Reply).Group.PublicKey
		if r := w.call("ActivateGroup", &protocoltypes.ActivateGroup_Request{GroupPk: cg}); r.errored || r.panicked {
			rt.Fatalf("harness: activating the contact group failed")
		}
		contacts = append(contacts, c20Contact{vRawPK(pk), cg})
		gpks = append(gpks, cg)
		src.trace = append(src.trace, "contact accepted, contact group opened")
	}
	targets := append([][]byte{accPK}, gpks...)
	nops := rapid.IntRange(1, 10).Draw(rt, "ops")
	// one message of the history makes a log entry of several hundred KiB, or of more than one MiB
	bigSize := rapid.SampledFrom([]int{0, 300 << 10, 1200 << 10, 1200 << 10}).Draw(rt, "large-message")
	olderAt := rapid.IntRange(0, nops-1).Draw(rt, "older-export-at")
	for i := 0; i < nops; i++ {
		if i == olderAt {
			// an earlier backup of the same account (the history goes on afterwards)
			vWaitQuiet(func() int {
				n := 0
				svc.lock.RLock()
				for _, gc := range svc.openedGroups {
					n += gc.metadataStore.OpLog().Len() + gc.messageStore.OpLog().Len()
				}
				svc.lock.RUnlock()
				return n
			}, 300*time.Millisecond, 10*time.Second)
			src.olderFiles = c20Export(rt, svc)
		}
		tgt := targets[rapid.IntRange(0, len(targets)-1).Draw(rt, "tgt")]
		var name string
		var req proto.Message
		switch rapid.IntRange(0, 4).Draw(rt, "op") {
		case 0:
			payload := []byte(fmt.Sprintf("message-%d", i))
			if bigSize > 0 && src.big == 0 {
				payload = append(payload, bytes.Repeat([]byte{byte(i + 1)}, bigSize)...)
				src.big = bigSize
			}
			name, req = "AppMessageSend", &protocoltypes.AppMessageSend_Request{GroupPk: tgt, Payload: payload}
		case 1:
			name, req = "AppMetadataSend", &protocoltypes.AppMetadataSend_Request{GroupPk: tgt, Payload: []byte(fmt.Sprintf("metadata-%d", i))}
		case 2:
			_, pk, _ := crypto.GenerateEd25519Key(crand.Reader)
			seed := make([]byte, 32)
			_, _ = crand.Read(seed)
			name, req = "ContactRequestSend", &protocoltypes.ContactRequestSend_Request{Contact: &protocoltypes.ShareableContact{Pk: vRawPK(pk), PublicRendezvousSeed: seed}, OwnMetadata: []byte("me")}
		case 3:
			name, req = "ContactRequestEnable", &protocoltypes.ContactRequestEnable_Request{}
		default:
			name, req = "ContactRequestResetReference", &protocoltypes.ContactRequestResetReference_Request{}
		}
		res := w.call(name, req)
		src.trace = append(src.trace, fmt.Sprintf("%s -> err=%v", name, res.errored))
	}
	if bigSize > 0 && src.big == 0 {
		res := w.call("AppMessageSend", &protocoltypes.AppMessageSend_Request{GroupPk: targets[len(targets)-1], Payload: bytes.Repeat([]byte{7}, bigSize)})
		src.trace = append(src.trace, fmt.Sprintf("AppMessageSend(%d bytes) -> err=%v", bigSize, res.errored))
		src.big = bigSize
	}
	// another member wrote to one of the multi-member groups meanwhile; its branch reaches the exporting node (entries
	// fetched, heads exchanged) but the exporter has not written on top of it: that log has two heads at export time
	if nGroups > 0 && rapid.Bool().Draw(rt, "foreign-branch") {
		gpk := gpks[0]
		gc, err := svc.GetContextGroupForID(gpk)
		if err != nil {
			rt.Fatalf("harness: %v", err)
		}
		if r := w.call("AppMessageSend", &protocoltypes.AppMessageSend_Request{GroupPk: gpk, Payload: []byte("own branch")}); r.errored || r.panicked {
			rt.Fatalf("harness: send failed")
		}
		own := gc.messageStore.OpLog().Len()
		w2 := vNewReplica(t, "W2", nil)
		defer w2.close()
		gc2 := w2.open(t, gc.Group())
		var last ipfslog.Entry
		for i := 0; i < own+2; i++ {
			op, err := gc2.MessageStore().AddMessage(vCtx, []byte(fmt.Sprintf("other member %d", i)))
			if err != nil {
				rt.Fatalf("harness: %v", err)
			}
			last = op.GetEntry()
		}
		for _, e := range gc2.MessageStore().OpLog().GetEntries().Slice() {
			nd, err := vSharedNode(t).API().Dag().Get(vCtx, e.GetHash())
			if err != nil {
				rt.Fatalf("harness: %v", err)
			}
			if err := svc.ipfsCoreAPI.Dag().Add(vCtx, nd); err != nil {
				rt.Fatalf("harness: %v", err)
			}
		}
		if err := vSync(gc.messageStore, last); err != nil {
			rt.Fatalf("harness: %v", err)
		}
		if gc.messageStore.OpLog().Heads().Len() < 2 {
			rt.Fatalf("harness: the exporter's log has %d head(s) after receiving a concurrent branch", gc.messageStore.OpLog().Heads().Len())
		}
		_ = gc2.Close()
		src.forkedLog = true
		src.trace = append(src.trace, fmt.Sprintf("a concurrent branch of %d messages of another member received (log with two heads)", own+2))
	}
	// what became of the contacts afterwards
	for _, c := range contacts {
		switch rapid.SampledFrom([]string{"kept", "blocked", "blocked-then-unblocked"}).Draw(rt, "fate") {
		case "blocked":
			r := w.call("ContactBlock", &protocoltypes.ContactBlock_Request{ContactPk: c.pk})
			src.trace = append(src.trace, fmt.Sprintf("ContactBlock -> err=%v", r.errored))
			src.blockedContact = true
		case "blocked-then-unblocked":
			r := w.call("ContactBlock", &protocoltypes.ContactBlock_Request{ContactPk: c.pk})
			r2 := w.call("ContactUnblock", &protocoltypes.ContactUnblock_Request{ContactPk: c.pk})
			src.trace = append(src.trace, fmt.Sprintf("ContactBlock -> err=%v, ContactUnblock -> err=%v", r.errored, r2.errored))
			src.blockedContact = true
		}
	}
	src.contactGroups = len(contacts)
	// let the service's own background writers (device announcement, secrets) finish: the log lengths stop changing
	stable, last := 0, -1
	for i := 0; i < 600 && stable < 20; i++ {
		n := 0
		svc.lock.RLock()
		for _, gc := range svc.openedGroups {
			n += gc.metadataStore.OpLog().Len() + gc.messageStore.OpLog().Len()
		}
		svc.lock.RUnlock()
		if n == last {
			stable++
		} else {
			stable, last = 0, n
		}
		time.Sleep(20 * time.Millisecond)
	}
	// export through the RPC
	var buf bytes.Buffer
	ctx, cancel := context.WithTimeout(vCtx, 30*time.Second)
	defer cancel()
	stream := &c20ExportStream{ctx: ctx, buf: &buf}
	if err := svc.ServiceExportData(&protocoltypes.ServiceExportData_Request{}, stream); err != nil {
		rt.Fatalf("harness: export failed: %v", err)
	}
	// snapshot of the exporting node (taken after the export; nothing writes any more)
	src.keyA, src.keyProof, _ = svc.secretStore.ExportAccountKeysForBackup()
	src.accPK = accPK
	svc.lock.RLock()
	for _, gc := range svc.openedGroups {
		sn := &c20GroupSnap{group: gc.group, raw: map[string][]byte{}}
		for _, e := range gc.metadataStore.OpLog().GetEntries().Slice() {
			sn.metaCIDs = append(sn.metaCIDs, e.GetHash().String())
		}
		for _, e := range gc.messageStore.OpLog().GetEntries().Slice() {
			sn.msgCIDs = append(sn.msgCIDs, e.GetHash().String())
		}
		for _, e := range gc.metadataStore.OpLog().Heads().Slice() {
			sn.metaHeads = append(sn.metaHeads, e.GetHash().String())
		}
		for _, e := range gc.messageStore.OpLog().Heads().Slice() {
			sn.msgHeads = append(sn.msgHeads, e.GetHash().String())
		}
		sort.Strings(sn.metaCIDs)
		sort.Strings(sn.msgCIDs)
		sort.Strings(sn.metaHeads)
		sort.Strings(sn.msgHeads)
		for _, c := range append(append([]string(nil), sn.metaCIDs...), sn.msgCIDs...) {
			id, _ := cid.Parse(c)
			nd, err := svc.ipfsCoreAPI.Dag().Get(vCtx, id)
			if err != nil {
				rt.Fatalf("harness: %v", err)
			}
			sn.raw[c] = nd.RawData()
		}
		sn.dump = vDumpGroupState(gc)
		src.groups = append(src.groups, sn)
	}
	svc.lock.RUnlock()
	sort.Slice(src.groups, func(i, j int) bool {
		return bytes.Compare(src.groups[i].group.PublicKey, src.groups[j].group.PublicKey) < 0
	})
	// parse the archive
	tr := tar.NewReader(bytes.NewReader(buf.Bytes()))
	for {
		h, err := tr.Next()
		if err == io.EOF {
			break
		}
		if err != nil {
			rt.Fatalf("harness: the export is not a tar archive: %v", err)
		}
		b, _ := io.ReadAll(tr)
		src.files = append(src.files, c20File{h.Name, b})
	}
	return src
}

// c20Export runs the export RPC and parses the archive
func c20Export(rt *rapid.T, svc *service) []c20File {
	var buf bytes.Buffer
	ctx, cancel := context.WithTimeout(vCtx, 60*time.Second)
	defer cancel()
	if err := svc.ServiceExportData(&protocoltypes.ServiceExportData_Request{}, &c20ExportStream{ctx: ctx, buf: &buf}); err != nil {
		rt.Fatalf("harness: export failed: %v", err)
	}
	var files []c20File
	tr := tar.NewReader(bytes.NewReader(buf.Bytes()))
	for {
		h, err := tr.Next()
		if err == io.EOF {
			break
		}
		if err != nil {
			rt.Fatalf("harness: the export is not a tar archive: %v", err)
		}
		b, _ := io.ReadAll(tr)
		files = append(files, c20File{h.Name, b})
	}
	return files
}

type c20ExportStream struct {
	ctx context.Context
	buf *bytes.Buffer
	c19Stream[protocoltypes.ServiceExportData_Reply]
}

func (s *c20ExportStream) Send(r *protocoltypes.ServiceExportData_Reply) error {
	s.buf.Write(r.ExportedData)
	return nil
}
func (s *c20ExportStream) Context() context.Context { return s.ctx }

// archive oracle
func c20CheckArchive(src *c20Source) (string, string) {
	names := map[string][]byte{}
	count := map[string]int{}
	for _, f := range src.files {
		names[f.Name] = f.Data
		count[f.Name]++
	}
	if count[exportAccountKeyFilename] != 1 || count[exportAccountProofKeyFilename] != 1 {
		return "archive/keys", fmt.Sprintf("archive holds %d account key file(s) and %d proof key file(s)", count[exportAccountKeyFilename], count[exportAccountProofKeyFilename])
	}
	if !bytes.Equal(names[exportAccountKeyFilename], src.keyA) || !bytes.Equal(names[exportAccountProofKeyFilename], src.keyProof) {
		return "archive/keys", "the exported key files are not the account's two private keys"
	}
	for _, sn := range src.groups {
		for _, c := range append(append([]string(nil), sn.metaCIDs...), sn.msgCIDs...) {
			data, ok := names[exportOrbitDBEntriesPrefix+c]
			if !ok {
				return "archive/entry-missing", fmt.Sprintf("log entry %s of group %x is not in the archive", c, sn.group.PublicKey[:6])
			}
			if !bytes.Equal(data, sn.raw[c]) {
				return "archive/entry-bytes", fmt.Sprintf("archive entry %s differs from the stored entry", c)
			}
			id, _ := cid.Parse(c)
			sum, err := id.Prefix().Sum(data)
			if err != nil || !sum.Equals(id) {
				return "archive/entry-bytes", fmt.Sprintf("bytes of archive entry %s do not hash to its name", c)
			}
		}
		hb, ok := names[exportOrbitDBHeadsPrefix+base64.RawURLEncoding.EncodeToString(sn.group.PublicKey)]
		if !ok {
			return "archive/heads-missing", fmt.Sprintf("no heads file for group %x", sn.group.PublicKey[:6])
		}
		var he protocoltypes.GroupHeadsExport
		if err := proto.Unmarshal(hb, &he); err != nil {
			return "archive/heads", "heads file does not parse"
		}
		toS := func(bs [][]byte) []string {
			var out []string
			for _, b := range bs {
				c, err := cid.Cast(b)
				if err != nil {
					out = append(out, "bad")
					continue
				}
				out = append(out, c.String())
			}
			sort.Strings(out)
			return out
		}
		if strings.Join(toS(he.MetadataHeadsCids), ",") != strings.Join(sn.metaHeads, ",") || strings.Join(toS(he.MessagesHeadsCids), ",") != strings.Join(sn.msgHeads, ",") {
			return "archive/heads", fmt.Sprintf("heads file of group %x lists %v / %v, the logs' heads are %v / %v", sn.group.PublicKey[:6], toS(he.MetadataHeadsCids), toS(he.MessagesHeadsCids), sn.metaHeads, sn.msgHeads)
		}
	}
	return "", ""
}

func c20Tar(files []c20File) []byte {
	var buf bytes.Buffer
	tw := tar.NewWriter(&buf)
	for _, f := range files {
		_ = tw.WriteHeader(&tar.Header{Typeflag: tar.TypeReg, Name: f.Name, Mode: 0o600, Size: int64(len(f.Data))})
		_, _ = tw.Write(f.Data)
	}
	_ = tw.Close()
	return buf.Bytes()
}

type c20Target struct {
	// how the archive reaches the restore: "" = one in-memory reader; "half" = every Read returns half of what was asked
	// for; "chunks" = pieces of at most 4096 bytes (what ServiceExportData sends); "onebyte"
	transport string
	node      ipfsutil.CoreAPIMock
	odb       *WeshOrbitDB
	ss        secretstore.SecretStore
	mn        mocknet.Mocknet
	ds        ds.Batching
}

// withAccount: "" (fresh store) or how the store's account came into existence before the restore
func c20NewTarget(t *testing.T, withAccount string) *c20Target {
	mn := mocknet.New()
	dsB := dsync.MutexWrap(ds.NewMapDatastore())
	ss, err := secretstore.NewSecretStore(dsB, nil)
	if err != nil {
		t.Fatalf("harness: %v", err)
	}
	switch withAccount {
	case "existing-account":
		_, _, _ = ss.GetGroupForAccount()
	case "existing-account/account-key-only":
		_, _ = ss.GetAccountPrivateKey()
	case "existing-account/member-of-a-group-only":
		g, _, _ := NewGroupMultiMember()
		_, _ = ss.GetOwnMemberDeviceForGroup(g)
	}
	node := ipfsutil.TestingCoreAPIUsingMockNet(vCtx, t, &ipfsutil.TestingAPIOpts{Logger: zap.NewNop(), Mocknet: mn, Datastore: dsB, DiscoveryServer: tinder.NewMockDriverServer()})
	odb, err := NewWeshOrbitDB(vCtx, node.API(), &NewOrbitDBOptions{NewOrbitDBOptions: orbitdb.NewOrbitDBOptions{Logger: zap.NewNop()}, Datastore: dsB, SecretStore: ss})
	if err != nil {
		t.Fatalf("harness: %v", err)
	}
	return &c20Target{node: node, odb: odb, ss: ss, mn: mn, ds: dsB}
}

func (x *c20Target) close() {
	_ = x.odb.Close()
	_ = x.mn.Close()
}

// restore runs RestoreAccountExport under a deadline (a restore that waits for a block nobody can provide is a rejection)
func (x *c20Target) restore(archive []byte, d time.Duration) (err error, timedOut bool, panicked any) {
	ctx, cancel := context.WithTimeout(vCtx, d)
	defer cancel()
	done := make(chan struct{})
	go func() {
		defer close(done)
		defer func() {
			if p := recover(); p != nil {
				panicked = p
			}
		}()
		var rd io.Reader = bytes.NewReader(archive)
		switch x.transport {
		case "half":
			rd = iotest.HalfReader(rd)
		case "onebyte":
			rd = iotest.OneByteReader(rd)
		case "chunks":
			rd = &c20ChunkReader{data: archive, n: 4096}
		}
		err = RestoreAccountExport(ctx, rd, x.node.API(), x.odb, zap.NewNop())
	}()
	select {
	case <-done:
	case <-time.After(d + 3*time.Second):
		return fmt.Errorf("restore still blocked after its deadline"), true, nil
	}
	if ctx.Err() != nil && err == nil {
		// returned nil only because the context ended
		return nil, false, panicked
	}
	return err, false, panicked
}

// compare checks identity, logs, heads and state of the restored node against the source
func (x *c20Target) compare(t *testing.T, src *c20Source) (string, string) {
	return x.compareMode(t, src, false)
}

// compareMode with subset=true accepts an incomplete restore (an archive that lost files cannot be told from a smaller
// export) but nothing that was not exported and no altered bytes
func (x *c20Target) compareMode(t *testing.T, src *c20Source, subset bool) (string, string) {
	a, b, err := x.ss.ExportAccountKeysForBackup()
	if err != nil {
		return "restored/identity", err.Error()
	}
	if !bytes.Equal(a, src.keyA) || !bytes.Equal(b, src.keyProof) {
		return "restored/identity", "the restored node has other account keys"
	}
	ag, _, _ := x.ss.GetGroupForAccount()
	if !bytes.Equal(ag.PublicKey, src.accPK) {
		return "restored/identity", "the restored node has another account group"
	}
	for _, sn := range src.groups {
		gc, err := x.odb.OpenGroup(vCtx, sn.group, nil)
		if err != nil {
			return "restored/open", fmt.Sprintf("group %x cannot be opened on the restored node: %v", sn.group.PublicKey[:6], err)
		}
		var meta, msg, mh, gh []string
		for _, e := range gc.metadataStore.OpLog().GetEntries().Slice() {
			meta = append(meta, e.GetHash().String())
		}
		for _, e := range gc.messageStore.OpLog().GetEntries().Slice() {
			msg = append(msg, e.GetHash().String())
		}
		for _, e := range gc.metadataStore.OpLog().Heads().Slice() {
			mh = append(mh, e.GetHash().String())
		}
		for _, e := range gc.messageStore.OpLog().Heads().Slice() {
			gh = append(gh, e.GetHash().String())
		}
		sort.Strings(meta)
		sort.Strings(msg)
		sort.Strings(mh)
		sort.Strings(gh)
		if subset {
			exported := map[string]bool{}
			for _, c := range append(append([]string(nil), sn.metaCIDs...), sn.msgCIDs...) {
				exported[c] = true
			}
			for _, c := range append(append([]string(nil), meta...), msg...) {
				if !exported[c] {
					return "restored/entries", fmt.Sprintf("group %x: the restored log holds entry %s which was not exported", sn.group.PublicKey[:6], c)
				}
				id, _ := cid.Parse(c)
				ctx, cancel := context.WithTimeout(vCtx, 3*time.Second)
				nd, err := x.node.API().Dag().Get(ctx, id)
				cancel()
				if err != nil || !bytes.Equal(nd.RawData(), sn.raw[c]) {
					return "restored/entry-bytes", fmt.Sprintf("entry %s has other bytes on the restored node (err %v)", c, err)
				}
			}
			continue
		}
		if strings.Join(meta, ",") != strings.Join(sn.metaCIDs, ",") || strings.Join(msg, ",") != strings.Join(sn.msgCIDs, ",") {
			return "restored/entries", fmt.Sprintf("group %x: restored logs hold %d/%d entries, exported %d/%d (or other entries)", sn.group.PublicKey[:6], len(meta), len(msg), len(sn.metaCIDs), len(sn.msgCIDs))
		}
		if strings.Join(mh, ",") != strings.Join(sn.metaHeads, ",") || strings.Join(gh, ",") != strings.Join(sn.msgHeads, ",") {
			return "restored/heads", fmt.Sprintf("group %x: restored heads %v/%v, exported %v/%v", sn.group.PublicKey[:6], mh, gh, sn.metaHeads, sn.msgHeads)
		}
		for c, raw := range sn.raw {
			id, _ := cid.Parse(c)
			ctx, cancel := context.WithTimeout(vCtx, 3*time.Second)
			nd, err := x.node.API().Dag().Get(ctx, id)
			cancel()
			if err != nil {
				return "restored/entry-missing", fmt.Sprintf("entry %s is not stored on the restored node: %v", c, err)
			}
			if !bytes.Equal(nd.RawData(), raw) {
				return "restored/entry-bytes", fmt.Sprintf("entry %s has other bytes on the restored node", c)
			}
		}
		if d := vDumpGroupState(gc); d != sn.dump {
			return "restored/state", fmt.Sprintf("group %x: derived state differs after restore:\n%s", sn.group.PublicKey[:6], c04Diff(sn.dump, d))
		}
	}
	return "", ""
}

// serviceView starts the protocol service on the restored node: every exported group is known to it, can be activated
// and is reported as the group that was exported
func (x *c20Target) serviceView(t *testing.T, src *c20Source) (string, string) {
	tp, cleanup := NewTestingProtocol(vCtx, t, &TestingOpts{Mocknet: x.mn, SecretStore: x.ss, CoreAPIMock: x.node, OrbitDB: x.odb}, x.ds)
	defer cleanup()
	svc := tp.Service.(*service)
	for _, sn := range src.groups {
		what := fmt.Sprintf("%v group %x", sn.group.GroupType, sn.group.PublicKey[:6])
		if _, err := svc.ActivateGroup(vCtx, &protocoltypes.ActivateGroup_Request{GroupPk: sn.group.PublicKey}); err != nil {
			return "restored/group-not-usable", fmt.Sprintf("the service of the restored node cannot activate the exported %s: %v", what, err)
		}
		info, err := svc.GroupInfo(vCtx, &protocoltypes.GroupInfo_Request{GroupPk: sn.group.PublicKey})
		if err != nil {
			return "restored/group-not-usable", fmt.Sprintf("GroupInfo of the exported %s on the restored node: %v", what, err)
		}
		if !bytes.Equal(info.Group.PublicKey, sn.group.PublicKey) || !bytes.Equal(info.Group.Secret, sn.group.Secret) || info.Group.GroupType != sn.group.GroupType {
			return "restored/group-differs", fmt.Sprintf("the restored node knows the exported %s with another secret or type", what)
		}
		gc, err := svc.GetContextGroupForID(sn.group.PublicKey)
		if err != nil {
			return "restored/group-not-usable", fmt.Sprintf("%s: %v", what, err)
		}
		var meta, msg []string
		for _, e := range gc.metadataStore.OpLog().GetEntries().Slice() {
			meta = append(meta, e.GetHash().String())
		}
		for _, e := range gc.messageStore.OpLog().GetEntries().Slice() {
			msg = append(msg, e.GetHash().String())
		}
		have := map[string]bool{}
		for _, c := range append(meta, msg...) {
			have[c] = true
		}
		for _, c := range append(append([]string(nil), sn.metaCIDs...), sn.msgCIDs...) {
			if !have[c] {
				return "restored/entries", fmt.Sprintf("the %s opened by the restored service lacks the exported entry %s", what, c)
			}
		}
	}
	return "", ""
}

func TestVerif_C20_RoundTrip(t *testing.T) {
	acct := vacct.Get("C20")
	vacct.RapidCheck(t, vacct.N(10, 400), func(rt *rapid.T) {
		src := c20BuildSource(t, rt)
		fail := func(id, msg string) {
			acct.Violation(id, "TestVerif_C20_RoundTrip", map[string]any{"history": src.trace, "groups": len(src.groups), "msg": msg})
			rt.Fatalf("C20 %s: %s", id, msg)
		}
		if id, msg := c20CheckArchive(src); id != "" {
			fail(id, msg)
		}
		tgt := c20NewTarget(t, "")
		defer tgt.close()
		// the archive is a stream: however it is cut into reads, it restores the same
		tgt.transport = rapid.SampledFrom([]string{"", "half", "half", "chunks", "onebyte"}).Draw(rt, "transport")
		err, timedOut, pan := tgt.restore(c20Tar(src.files), 120*time.Second)
		if pan != nil {
			fail("restore-panic", fmt.Sprint(pan))
		}
		if err != nil || timedOut {
			fail("valid-archive-refused", fmt.Sprintf("restoring an untouched export (archive read through %q) failed: %v (timed out=%v)", tgt.transport, err, timedOut))
		}
		acct.Label("transport/" + map[bool]string{true: "split-reads", false: "one-reader"}[tgt.transport != ""])
		if src.big > 1<<20 {
			acct.Label("round-trip/entry-larger-than-1MiB")
		}
		if id, msg := tgt.compare(t, src); id != "" {
			fail(id, msg)
		}
		if id, msg := tgt.serviceView(t, src); id != "" {
			fail(id, msg)
		}
		entries := 0
		big := false
		for _, sn := range src.groups {
			entries += len(sn.metaCIDs) + len(sn.msgCIDs)
			if len(sn.metaCIDs) >= 3 || len(sn.msgCIDs) >= 3 {
				big = true
			}
		}
		acct.Case(len(src.groups) >= 2 && big, fmt.Sprintf("rt|%d|%d|%v", len(src.groups), entries, src.trace), func() any {
			return map[string]any{"kind": "round-trip", "groups": len(src.groups), "entries": entries, "files": len(src.files), "history": src.trace}
		}, "round-trip", lbl07(len(src.groups) >= 2, "round-trip/several-groups"), lbl07(src.contactGroups > 0, "round-trip/contact-group"), lbl07(src.blockedContact, "round-trip/blocked-contact"), lbl07(src.forkedLog, "round-trip/log-with-two-heads"))
	})
}

func TestVerif_C20_Mutants(t *testing.T) {
	acct := vacct.Get("C20")
	vacct.RapidCheck(t, vacct.N(2, 100), func(rt *rapid.T) {
		src := c20BuildSource(t, rt)
		var entryIdx, headIdx []int
		for i, f := range src.files {
			if strings.HasPrefix(f.Name, exportOrbitDBEntriesPrefix) {
				entryIdx = append(entryIdx, i)
			}
			if strings.HasPrefix(f.Name, exportOrbitDBHeadsPrefix) {
				headIdx = append(headIdx, i)
			}
		}
		kinds := []string{"entry-byte-flip", "entry-under-other-name", "key-dropped", "proof-key-dropped", "both-keys-dropped", "key-duplicated", "existing-account", "existing-account/account-key-only", "existing-account/member-of-a-group-only", "heads-byte-flip", "key-byte-flip",
			"entry-dropped", "reordered-keys-last", "reordered-heads-first", "truncated-tar", "entry-trailing-garbage", "heads-file-duplicated", "older-backup-refused-then-this-one"}
		// every mutation kind once per exported history
		for _, kind := range kinds {
			files := make([]c20File, len(src.files))
			for i, f := range src.files {
				files[i] = c20File{f.Name, append([]byte(nil), f.Data...)}
			}
			mustReject := false
			withAccount := ""
			var archive []byte
			pickEntry := func() int {
				if len(entryIdx) == 0 {
					return -1
				}
				return entryIdx[rapid.IntRange(0, len(entryIdx)-1).Draw(rt, "entry")]
			}
			switch kind {
			case "entry-byte-flip":
				i := pickEntry()
				if i < 0 {
					continue
				}
				p := rapid.IntRange(0, len(files[i].Data)*8-1).Draw(rt, "bit")
				files[i].Data[p/8] ^= 1 << uint(p%8)
				mustReject = true
			case "entry-trailing-garbage":
				i := pickEntry()
				if i < 0 {
					continue
				}
				files[i].Data = append(files[i].Data, 0x00, 0x01)
				mustReject = true
			case "entry-under-other-name":
				if len(entryIdx) < 2 {
					continue
				}
				i, j := entryIdx[0], entryIdx[len(entryIdx)-1]
				files[i].Data, files[j].Data = files[j].Data, files[i].Data
				mustReject = true
			case "key-dropped", "proof-key-dropped", "both-keys-dropped":
				name := exportAccountKeyFilename
				if kind == "proof-key-dropped" {
					name = exportAccountProofKeyFilename
				}
				var out []c20File
				for _, f := range files {
					if f.Name != name && !(kind == "both-keys-dropped" && f.Name == exportAccountProofKeyFilename) {
						out = append(out, f)
					}
				}
				files = out
				mustReject = true
			case "key-duplicated":
				files = append(files, c20File{exportAccountKeyFilename, append([]byte(nil), src.keyA...)})
				mustReject = true
			case "existing-account", "existing-account/account-key-only", "existing-account/member-of-a-group-only":
				withAccount = kind
				mustReject = true
			case "heads-byte-flip":
				if len(headIdx) == 0 {
					continue
				}
				i := headIdx[rapid.IntRange(0, len(headIdx)-1).Draw(rt, "head")]
				p := rapid.IntRange(0, len(files[i].Data)*8-1).Draw(rt, "bit")
				files[i].Data[p/8] ^= 1 << uint(p%8)
			case "key-byte-flip":
				p := rapid.IntRange(0, len(files[0].Data)*8-1).Draw(rt, "bit")
				for i := range files {
					if files[i].Name == exportAccountKeyFilename {
						files[i].Data[p/8%len(files[i].Data)] ^= 1 << uint(p%8)
					}
				}
			case "entry-dropped":
				i := pickEntry()
				if i < 0 {
					continue
				}
				files = append(files[:i:i], files[i+1:]...)
			case "reordered-keys-last":
				var keys, rest []c20File
				for _, f := range files {
					if f.Name == exportAccountKeyFilename || f.Name == exportAccountProofKeyFilename {
						keys = append(keys, f)
					} else {
						rest = append(rest, f)
					}
				}
				files = append(rest, keys...)
			case "older-backup-refused-then-this-one":
				// an earlier export of the account without its proof key file is refused (after its entries and heads were
				// read); the current export restored into the same node afterwards must give the current logs
				if len(src.olderFiles) == 0 {
					continue
				}
				var older []c20File
				for _, f := range src.olderFiles {
					if f.Name != exportAccountProofKeyFilename {
						older = append(older, f)
					}
				}
				tgt := c20NewTarget(t, "")
				err1, to1, pan1 := tgt.restore(c20Tar(older), 20*time.Second)
				if pan1 != nil {
					tgt.close()
					acct.Violation("restore-panic/"+kind, "TestVerif_C20_Mutants", map[string]any{"mutant": kind, "history": src.trace, "msg": fmt.Sprint(pan1)})
					rt.Fatalf("C20 restore-panic: %v", pan1)
				}
				if err1 == nil && !to1 {
					tgt.close()
					acct.Violation("bad-archive-accepted/proof-key-dropped", "TestVerif_C20_Mutants", map[string]any{"mutant": kind, "history": src.trace})
					rt.Fatalf("C20: an archive without the proof key file was restored")
				}
				err2, to2, pan2 := tgt.restore(c20Tar(src.files), 120*time.Second)
				id, msg := "", ""
				switch {
				case pan2 != nil:
					id, msg = "restore-panic/after-refused-older-backup", fmt.Sprint(pan2)
				case err2 != nil || to2:
					id, msg = "rejected-archive-left-residue/older-backup", fmt.Sprintf("after an older backup without its proof key was refused, the current export does not restore into the same node: %v (timed out=%v)", err2, to2)
				default:
					id, msg = tgt.compare(t, src)
					if id != "" {
						id, msg = "rejected-archive-left-residue/older-backup/"+id, "after a refused older backup the current export restores to other logs: "+msg
					}
				}
				tgt.close()
				if id != "" {
					acct.Violation(id, "TestVerif_C20_Mutants", map[string]any{"mutant": kind, "history": src.trace, "msg": msg})
					rt.Fatalf("C20 %s: %s", id, msg)
				}
				acct.Case(true, fmt.Sprintf("%s|%d|%v", kind, len(src.files), src.trace), func() any {
					return map[string]any{"kind": "archive-mutant", "mutant": kind}
				}, "mutant", "mutant/"+kind)
				continue
			case "heads-file-duplicated":
				if len(headIdx) == 0 {
					continue
				}
				f := files[headIdx[rapid.IntRange(0, len(headIdx)-1).Draw(rt, "head-dup")]]
				files = append(files, c20File{f.Name, append([]byte(nil), f.Data...)})
			case "reordered-heads-first":
				var heads, rest []c20File
				for _, f := range files {
					if strings.HasPrefix(f.Name, exportOrbitDBHeadsPrefix) {
						heads = append(heads, f)
					} else {
						rest = append(rest, f)
					}
				}
				files = append(heads, rest...)
			}
			archive = c20Tar(files)
			if kind == "truncated-tar" {
				archive = archive[:rapid.IntRange(1, len(archive)-1).Draw(rt, "cut")]
			}
			tgt := c20NewTarget(t, withAccount)
			err, timedOut, pan := tgt.restore(archive, 4*time.Second)
			fail := func(id, msg string) {
				tgt.close()
				acct.Violation(id, "TestVerif_C20_Mutants", map[string]any{"mutant": kind, "history": src.trace, "msg": msg})
				rt.Fatalf("C20 %s: %s", id, msg)
			}
			if pan != nil {
				fail("restore-panic/"+kind, fmt.Sprint(pan))
			}
			rejected := err != nil || timedOut
			if mustReject && !rejected {
				fail("bad-archive-accepted/"+kind, fmt.Sprintf("an archive with %s was restored without error", kind))
			}
			// a rejected archive leaves the node as it was: the genuine export still restores into it afterwards
			if rejected && err != nil && withAccount == "" && mustReject && kind != "key-dropped" && kind != "proof-key-dropped" && kind != "both-keys-dropped" {
				err2, timedOut2, pan2 := tgt.restore(c20Tar(src.files), 120*time.Second)
				if pan2 != nil {
					fail("restore-panic/after-rejected-"+kind, fmt.Sprint(pan2))
				}
				if err2 != nil || timedOut2 {
					fail("rejected-archive-left-residue/"+kind, fmt.Sprintf("after an archive with %s was rejected, restoring the untouched export into the same (still empty) node fails: %v (timed out=%v)", kind, err2, timedOut2))
				}
				a2, b2, _ := tgt.ss.ExportAccountKeysForBackup()
				if !bytes.Equal(a2, src.keyA) || !bytes.Equal(b2, src.keyProof) {
					fail("rejected-archive-left-residue/"+kind, "after a rejected archive the genuine export restores to another identity")
				}
				acct.Label("mutant/genuine-restore-after-rejection")
			}
			if !rejected && kind == "reordered-keys-last" {
				// the order of the files does not matter to any handler: this archive restores to the original
				type cmp struct{ id, msg string }
				ch := make(chan cmp, 1)
				go func() {
					id, msg := tgt.compare(t, src)
					ch <- cmp{id, msg}
				}()
				select {
				case c := <-ch:
					if c.id != "" {
						fail("reordered-archive-restored-differently", c.id+": "+c.msg)
					}
				case <-time.After(30 * time.Second):
					acct.Label("mutant/compare-timed-out")
				}
			}
			tgt.close()
			acct.Case(kind != "truncated-tar", fmt.Sprintf("%s|%d|%v", kind, len(src.files), src.trace), func() any {
				return map[string]any{"kind": "archive-mutant", "mutant": kind, "rejected": rejected, "timed_out": timedOut}
			}, "mutant", "mutant/"+kind, lbl07(rejected, "mutant/rejected"), lbl07(!rejected, "mutant/restored-identically"))
		}
	})
}

// c20ChunkReader hands the archive out in pieces of at most n bytes.
type c20ChunkReader struct {
	data []byte
	n    int
}

func (c *c20ChunkReader) Read(p []byte) (int, error) {
	if len(c.data) == 0 {
		return 0, io.EOF
	}
	k := min(len(p), c.n, len(c.data))
	copy(p, c.data[:k])
	c.data = c.data[k:]
	return k, nil
}
