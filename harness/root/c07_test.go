//go:build verif

package weshnet

import (
	"filippo.io/edwards25519"
	"time"
	"bytes"
	crand "crypto/rand"
	"fmt"
	"sort"
	"strings"
	"testing"

	"github.com/libp2p/go-libp2p/core/crypto"
	"pgregory.net/rapid"

	"berty.tech/weshnet/v2/internal/vacct"
	"berty.tech/weshnet/v2/pkg/protocoltypes"
	"berty.tech/weshnet/v2/pkg/secretstore"
)

// C07: contacts follow the documented lifecycle (DESIGN.md appendix A).

type c07State int

const (
	c07U c07State = iota
	c07T
	c07R
	c07A
	c07X
	c07D
	c07B
)

var c07StateNames = []string{"Undefined", "ToRequest", "Received", "Added", "Removed", "Discarded", "Blocked"}

var c07Proto = []protocoltypes.ContactState{
	protocoltypes.ContactState_ContactStateUndefined, protocoltypes.ContactState_ContactStateToRequest, protocoltypes.ContactState_ContactStateReceived,
	protocoltypes.ContactState_ContactStateAdded, protocoltypes.ContactState_ContactStateRemoved, protocoltypes.ContactState_ContactStateDiscarded,
	protocoltypes.ContactState_ContactStateBlocked,
}

var c07Ops = []string{"enqueue", "sent", "incoming", "discard", "accept", "block", "unblock"}

// c07Table[op][state] = next state, -1 = refuse (appendix A)
var c07Table = map[string][7]int{
	//            U     T     R     A     X     D     B
	"enqueue":  {1, 1, 3, -1, 3, 3, 1},
	"sent":     {-1, 3, 3, -1, 3, 3, -1},
	"incoming": {2, 3, -1, -1, 2, 2, -1},
	"discard":  {-1, -1, 5, -1, -1, -1, -1},
	"accept":   {-1, -1, 3, -1, -1, -1, -1},
	"block":    {6, 6, 6, 6, 6, 6, -1},
	"unblock":  {-1, -1, -1, -1, -1, -1, 4},
}

type c07Contact struct {
	pk         crypto.PubKey
	raw, seed  []byte
	state      c07State
	mSeed      []byte // model: seed / metadata derived from the events
	mMeta      []byte
	carried    [][2][]byte // (seed, meta) carried by Enqueued / IncomingReceived events in log order
	everTouched bool
}

type c07Op struct {
	Kind string `json:"kind"`
	C    int    `json:"c"`
	Meta int    `json:"meta,omitempty"`
	SeedV int   `json:"seedv,omitempty"` // 0 = the contact's first seed, n = its n-th reset seed
	Bad  string `json:"bad,omitempty"`   // malformed input variant
}

func (o c07Op) String() string {
	s := fmt.Sprintf("%s(c%d", o.Kind, o.C)
	if o.Meta > 0 {
		s += fmt.Sprintf(",meta%d", o.Meta)
	}
	if o.SeedV > 0 {
		s += fmt.Sprintf(",seed%d", o.SeedV)
	}
	if o.Bad != "" {
		s += ",bad=" + o.Bad
	}
	return s + ")"
}

type c07World struct {
	t        *testing.T
	w        *vReplica
	g        *protocoltypes.Group
	gc       *GroupContext
	own      crypto.PubKey
	contacts []*c07Contact
	trace    []string
	svc      *service // when set, the operations that have an RPC go through the protocol service
	cleanup  func()
}

// c07NewServiceWorld: the account group of a running protocol service; enqueue / discard / accept / block / unblock go
// through ContactRequestSend / ContactRequestDiscard / ContactRequestAccept / ContactBlock / ContactUnblock, the two
// operations without an RPC (mark sent, incoming received) are performed on the account store as the contact request
// manager does.
func c07NewServiceWorld(t *testing.T) *c07World {
	tp, cleanup := NewTestingProtocol(vCtx, t, nil, nil)
	svc := tp.Service.(*service)
	gc := svc.getAccountGroup()
	// the service announces its device and secrets in the account group on its own: wait until that is over
	last, since := -1, time.Now()
	for deadline := time.Now().Add(15 * time.Second); time.Now().Before(deadline); time.Sleep(20 * time.Millisecond) {
		if l := gc.MetadataStore().OpLog().Len(); l != last {
			last, since = l, time.Now()
		} else if time.Since(since) > 400*time.Millisecond {
			break
		}
	}
	return &c07World{t: t, g: gc.Group(), gc: gc, own: gc.MemberPubKey(), svc: svc, cleanup: cleanup}
}

func c07NewWorld(t *testing.T) *c07World {
	w := vNewReplica(t, "W", nil)
	g := w.accountGroup(t)
	gc := w.open(t, g)
	return &c07World{t: t, w: w, g: g, gc: gc, own: gc.MemberPubKey()}
}

func (x *c07World) secrets() secretstore.SecretStore {
	if x.svc != nil {
		return x.svc.secretStore
	}
	return x.w.ss
}

func (x *c07World) close() {
	if x.svc != nil {
		x.cleanup()
		return
	}
	_ = x.gc.Close()
	x.w.close()
}

// newOffCurveContact: a contact whose 32-byte key is well formed for every check made on contacts (length) but is not
// the encoding of a curve point, so no contact group can be derived for it. The lifecycle is the same.
func (x *c07World) newOffCurveContact() int {
	raw := make([]byte, 32)
	for {
		_, _ = crand.Read(raw)
		if _, err := new(edwards25519.Point).SetBytes(raw); err != nil {
			break
		}
	}
	pk, err := crypto.UnmarshalEd25519PublicKey(raw)
	if err != nil {
		panic(err)
	}
	seed := make([]byte, 32)
	_, _ = crand.Read(seed)
	x.contacts = append(x.contacts, &c07Contact{pk: pk, raw: raw, seed: seed})
	return len(x.contacts) - 1
}

func (x *c07World) newContact() int {
	_, pk, _ := crypto.GenerateEd25519Key(crand.Reader)
	seed := make([]byte, 32)
	_, _ = crand.Read(seed)
	x.contacts = append(x.contacts, &c07Contact{pk: pk, raw: vRawPK(pk), seed: seed})
	return len(x.contacts) - 1
}

// apply performs one operation and checks it against the table. It returns a violation id/msg or "".
func (x *c07World) apply(op c07Op) (string, string) {
	m := x.gc.MetadataStore()
	c := x.contacts[op.C]
	// entries appended by the operation; through a running service only entries about contacts count (the service
	// may write announcements of its own into the account group at any time)
	logLen := func() int {
		if x.svc == nil {
			return m.OpLog().Len()
		}
		evs, _ := c13AllMeta(x.gc)
		n := 0
		for _, e := range evs {
			if strings.HasPrefix(e.Metadata.EventType.String(), "EventTypeAccountContact") {
				n++
			}
		}
		return n
	}
	before := logLen()
	var meta []byte
	if op.Meta > 0 {
		meta = []byte(fmt.Sprintf("meta-%d", op.Meta))
	}
	seed := c.seed
	if op.SeedV > 0 { // the peer reset its rendezvous reference
		seed = append([]byte(nil), c.seed...)
		seed[0] ^= byte(op.SeedV)
	}
	sc := &protocoltypes.ShareableContact{Pk: c.raw, PublicRendezvousSeed: seed, Metadata: meta}
	pk := c.pk
	wellFormed := true
	seedAbsent := false
	switch op.Bad {
	case "seed-missing":
		sc.PublicRendezvousSeed = nil
		seedAbsent = true
		wellFormed = op.Kind == "incoming" // incoming may omit the seed
	case "seed-31":
		sc.PublicRendezvousSeed = seed[:31]
		wellFormed = false
	case "seed-33":
		sc.PublicRendezvousSeed = append(append([]byte(nil), seed...), 1)
		wellFormed = false
	case "pk-empty":
		sc.Pk = nil
		wellFormed = false
	case "pk-31":
		sc.Pk = c.raw[:31]
		wellFormed = false
	case "own-pk":
		sc.Pk = vRawPK(x.own)
		pk = x.own
		wellFormed = false
	}
	var err error
	rawPK := vRawPK(pk)
	switch {
	case x.svc != nil && op.Kind == "enqueue":
		_, err = x.svc.ContactRequestSend(vCtx, &protocoltypes.ContactRequestSend_Request{Contact: sc, OwnMetadata: []byte("own-meta")})
	case x.svc != nil && op.Kind == "discard":
		_, err = x.svc.ContactRequestDiscard(vCtx, &protocoltypes.ContactRequestDiscard_Request{ContactPk: rawPK})
	case x.svc != nil && op.Kind == "accept":
		_, err = x.svc.ContactRequestAccept(vCtx, &protocoltypes.ContactRequestAccept_Request{ContactPk: rawPK})
	case x.svc != nil && op.Kind == "block":
		_, err = x.svc.ContactBlock(vCtx, &protocoltypes.ContactBlock_Request{ContactPk: rawPK})
	case x.svc != nil && op.Kind == "unblock":
		_, err = x.svc.ContactUnblock(vCtx, &protocoltypes.ContactUnblock_Request{ContactPk: rawPK})
	}
	viaRPC := x.svc != nil && (op.Kind == "enqueue" || op.Kind == "discard" || op.Kind == "accept" || op.Kind == "block" || op.Kind == "unblock")
	kind := op.Kind
	if viaRPC {
		kind = "(rpc)"
	}
	switch kind {
	case "enqueue":
		_, err = m.ContactRequestOutgoingEnqueue(vCtx, sc, []byte("own-meta"))
	case "sent":
		_, err = m.ContactRequestOutgoingSent(vCtx, pk)
	case "incoming":
		_, err = m.ContactRequestIncomingReceived(vCtx, sc)
	case "discard":
		_, err = m.ContactRequestIncomingDiscard(vCtx, pk)
	case "accept":
		_, err = m.ContactRequestIncomingAccept(vCtx, pk)
	case "block":
		_, err = m.ContactBlock(vCtx, pk)
	case "unblock":
		_, err = m.ContactUnblock(vCtx, pk)
	}
	added := logLen() - before
	x.trace = append(x.trace, fmt.Sprintf("%s in %s -> err=%v appended=%d", op, c07StateNames[c.state], err != nil, added))
	// expected outcome
	next := c07Table[op.Kind][c.state]
	usesContact := op.Kind == "enqueue" || op.Kind == "incoming"
	if op.Bad == "own-pk" {
		// own key: enqueue / incoming / block are refused by the self rule; for the other operations the own key is
		// simply a contact in state Undefined
		next = c07Table[op.Kind][c07U]
		if usesContact || op.Kind == "block" {
			next = -1
		}
	} else if usesContact && !wellFormed {
		next = -1
	} else if !usesContact && op.Bad != "" {
		// malformed variants only concern operations that take a contact
		next = c07Table[op.Kind][c.state]
	}
	if next < 0 {
		if err == nil {
			return "illegal-transition-accepted", fmt.Sprintf("%s accepted in state %s", op, c07StateNames[c.state])
		}
		if added != 0 {
			return "refusal-appended", fmt.Sprintf("%s was refused but %d entr(y/ies) were appended", op, added)
		}
		return "", ""
	}
	if err != nil {
		return "legal-transition-refused", fmt.Sprintf("%s refused in state %s: %v", op, c07StateNames[c.state], err)
	}
	if added != 1 {
		return "not-exactly-one-entry", fmt.Sprintf("%s appended %d entries", op, added)
	}
	if op.Bad == "own-pk" {
		return "", "" // (cannot happen: all own-key operations are refused in state Undefined)
	}
	// model update
	appendedEnqueue := op.Kind == "enqueue" && (c.state == c07U || c.state == c07T || c.state == c07B)
	appendedIncoming := op.Kind == "incoming" && (c.state == c07U || c.state == c07X || c.state == c07D)
	c.state = c07State(next)
	c.everTouched = true
	if appendedEnqueue {
		c.carried = append(c.carried, [2][]byte{seed, meta})
	}
	if appendedIncoming {
		s := seed
		if seedAbsent {
			s = nil
		}
		c.carried = append(c.carried, [2][]byte{s, meta})
	}
	c.mSeed, c.mMeta = nil, nil
	for i := len(c.carried) - 1; i >= 0; i-- {
		if c.mSeed == nil && len(c.carried[i][0]) > 0 {
			c.mSeed = c.carried[i][0]
		}
		if c.mMeta == nil && len(c.carried[i][1]) > 0 {
			c.mMeta = c.carried[i][1]
		}
	}
	return "", ""
}

// compare checks the store's view of all contacts against the model.
func (x *c07World) compare(gc *GroupContext, where string) (string, string) {
	m := gc.MetadataStore()
	got := m.ListContacts()
	want := 0
	for _, c := range x.contacts {
		if !c.everTouched {
			if _, ok := got[string(c.raw)]; ok {
				return "phantom-contact/" + where, "a contact that no successful operation touched is listed"
			}
			continue
		}
		want++
		ac, ok := got[string(c.raw)]
		if !ok {
			return "contact-missing/" + where, fmt.Sprintf("contact in model state %s is not listed", c07StateNames[c.state])
		}
		if ac.state != c07Proto[c.state] {
			return "wrong-state/" + where, fmt.Sprintf("contact reported %v, reference lifecycle says %s", ac.state, c07StateNames[c.state])
		}
		if !bytes.Equal(ac.contact.PublicRendezvousSeed, c.mSeed) {
			return "wrong-seed/" + where, fmt.Sprintf("contact in state %s: seed %x, reference %x", c07StateNames[c.state], ac.contact.PublicRendezvousSeed, c.mSeed)
		}
		if !bytes.Equal(ac.contact.Metadata, c.mMeta) {
			return "wrong-metadata/" + where, fmt.Sprintf("contact in state %s: metadata %q, reference %q", c07StateNames[c.state], ac.contact.Metadata, c.mMeta)
		}
		// exactly one state: listed under its state and under no other
		for si, st := range c07Proto {
			in := false
			for _, sc := range m.ListContactsByStatus(st) {
				if bytes.Equal(sc.Pk, c.raw) {
					in = true
				}
			}
			if in != (c07State(si) == c.state) {
				return "by-status-partition/" + where, fmt.Sprintf("contact in state %s listed under %s = %v", c07StateNames[c.state], c07StateNames[si], in)
			}
		}
		cg, err := x.secrets().GetGroupForContact(c.pk)
		if err == nil {
			sc := m.GetContactFromGroupPK(cg.PublicKey)
			if sc == nil || !bytes.Equal(sc.Pk, c.raw) {
				return "contact-group-lookup/" + where, "GetContactFromGroupPK does not find the contact under its contact-group key"
			}
		}
	}
	if len(got) != want {
		var extra []string
		for k := range got {
			extra = append(extra, fmt.Sprintf("%x", []byte(k)[:6]))
		}
		sort.Strings(extra)
		return "phantom-contact/" + where, fmt.Sprintf("store lists %d contacts, reference has %d (%v)", len(got), want, extra)
	}
	return "", ""
}

// replicas that replay the log: reopen of the writer, fresh replica in one batch, fresh replica entry by entry
func (x *c07World) checkReplay() (string, string) {
	_ = x.gc.Close()
	x.w.close()
	x.w = vReopenReplica(x.t, x.w)
	x.gc = x.w.open(x.t, x.g)
	if id, msg := x.compare(x.gc, "after-reopen"); id != "" {
		return id, msg
	}
	log := x.gc.MetadataStore().OpLog()
	if log.Len() == 0 {
		return "", ""
	}
	r1 := vNewReplica(x.t, "R1", x.w)
	defer r1.close()
	g1 := r1.open(x.t, x.g)
	for _, h := range log.Heads().Slice() {
		if err := vDeliverMeta(g1, x.gc, h); err != nil {
			x.t.Fatalf("harness: %v", err)
		}
	}
	if id, msg := x.compare(g1, "replica-one-batch"); id != "" {
		return id, msg
	}
	r2 := vNewReplica(x.t, "R2", x.w)
	defer r2.close()
	g2 := r2.open(x.t, x.g)
	for _, e := range vEntries(log) {
		if err := vDeliverMeta(g2, x.gc, e); err != nil {
			x.t.Fatalf("harness: %v", err)
		}
	}
	return x.compare(g2, "replica-entry-by-entry")
}

func c07Fail(acct *vacct.Acct, test string, x *c07World, id, msg string) {
	acct.Violation(id, test, map[string]any{"trace": x.trace, "msg": msg})
}

// every sequence of the seven operations up to a bounded length on one contact (and up to 2 on two contacts)
func TestVerif_C07_Exhaustive(t *testing.T) {
	acct := vacct.Get("C07")
	maxLen := 3
	if vacct.Thorough() {
		maxLen = 4
	}
	var seqs [][]c07Op
	var gen func(prefix []c07Op, n int)
	gen = func(prefix []c07Op, n int) {
		if len(prefix) > 0 {
			seqs = append(seqs, append([]c07Op(nil), prefix...))
		}
		if n == 0 {
			return
		}
		for _, k := range c07Ops {
			gen(append(prefix, c07Op{Kind: k, C: 0, Meta: 1 + len(prefix)%2}), n-1)
		}
	}
	gen(nil, maxLen)
	// two contacts, interleaved, length 2 each
	for _, a := range c07Ops {
		for _, b := range c07Ops {
			for _, c := range c07Ops {
				seqs = append(seqs, []c07Op{{Kind: a, C: 0, Meta: 1}, {Kind: b, C: 1}, {Kind: c, C: 0, Meta: 2}})
			}
		}
	}
	// what the requests carry matters when a contact has several enqueue / incoming events: those sequences are
	// run again with (b) a reset seed and no metadata on every second request, (c) the seed omitted on later incoming requests
	base := len(seqs)
	for i := 0; i < base; i++ {
		carrying := 0
		for _, op := range seqs[i] {
			if op.Kind == "enqueue" || op.Kind == "incoming" {
				carrying++
			}
		}
		if carrying < 2 {
			continue
		}
		vb, vc := append([]c07Op(nil), seqs[i]...), append([]c07Op(nil), seqs[i]...)
		k := 0
		for j := range vb {
			if vb[j].Kind == "enqueue" || vb[j].Kind == "incoming" {
				if k%2 == 1 {
					vb[j].Meta, vb[j].SeedV = 0, k
				}
				if k >= 1 && vc[j].Kind == "incoming" {
					vc[j].Bad = "seed-missing"
				}
				k++
			}
		}
		seqs = append(seqs, vb, vc)
	}
	shard, nshards := vacct.Shard()
	var x *c07World
	inWorld := 0
	for si, seq := range seqs {
		if si%nshards != shard {
			continue
		}
		if x == nil || inWorld >= 12 {
			if x != nil {
				// before leaving a world: everything it holds replays to the same state
				if id, msg := x.checkReplay(); id != "" {
					c07Fail(acct, "TestVerif_C07_Exhaustive", x, id, msg)
					t.Errorf("C07 %s: %s\n%s", id, msg, strings.Join(x.trace, "\n"))
					x.close()
					return
				}
				x.close()
			}
			x = c07NewWorld(t)
			inWorld = 0
		}
		inWorld++
		base := len(x.contacts)
		x.newContact()
		x.newContact()
		x.trace = append(x.trace, "--- new contacts")
		refused, implicit, backfill := false, false, false
		var names []string
		for _, op := range seq {
			op.C += base
			st := x.contacts[op.C].state
			if c07Table[op.Kind][st] < 0 {
				refused = true
			}
			if (op.Kind == "enqueue" && (st == c07R || st == c07X || st == c07D)) || (op.Kind == "incoming" && st == c07T) {
				implicit = true
			}
			if len(x.contacts[op.C].carried) > 0 && (op.Kind == "enqueue" || op.Kind == "incoming") {
				backfill = true
			}
			nm := op
			nm.C -= base
			names = append(names, nm.String())
			if id, msg := x.apply(op); id != "" {
				c07Fail(acct, "TestVerif_C07_Exhaustive", x, id, msg)
				t.Errorf("C07 %s: %s\n%s", id, msg, strings.Join(x.trace[max(0, len(x.trace)-12):], "\n"))
				x.close()
				return
			}
			if id, msg := x.compare(x.gc, "writer"); id != "" {
				c07Fail(acct, "TestVerif_C07_Exhaustive", x, id, msg)
				t.Errorf("C07 %s: %s\n%s", id, msg, strings.Join(x.trace[max(0, len(x.trace)-12):], "\n"))
				x.close()
				return
			}
		}
		acct.Case(refused && (implicit || backfill), strings.Join(names, ","), func() any { return map[string]any{"kind": "exhaustive", "sequence": names} },
			"exhaustive", lbl07(refused, "seq/refusal"), lbl07(implicit, "seq/implicit-path"), lbl07(backfill, "seq/backfill"))
	}
	if x != nil {
		if id, msg := x.checkReplay(); id != "" {
			c07Fail(acct, "TestVerif_C07_Exhaustive", x, id, msg)
			t.Errorf("C07 %s: %s\n%s", id, msg, strings.Join(x.trace, "\n"))
		}
		x.close()
	}
	acct.SetExhaustive(true)
}

func lbl07(b bool, s string) string {
	if b {
		return s
	}
	return "-"
}

// longer random sequences on two contacts incl. malformed inputs, with reopen and replicas
func TestVerif_C07_Random(t *testing.T) {
	acct := vacct.Get("C07")
	vacct.RapidCheck(t, vacct.N(30, 10000), func(rt *rapid.T) {
		x := c07NewWorld(t)
		defer func() { x.close() }()
		x.newContact()
		offCurve := rapid.IntRange(0, 2).Draw(rt, "offcurve") == 0
		if offCurve {
			x.newOffCurveContact()
		} else {
			x.newContact()
		}
		refused, implicit, backfill, malformed, reopened := false, false, false, false, false
		n := rapid.IntRange(3, 40).Draw(rt, "n")
		var names []string
		for i := 0; i < n; i++ {
			op := c07Op{Kind: rapid.SampledFrom(c07Ops).Draw(rt, "kind"), C: rapid.IntRange(0, 1).Draw(rt, "c"), Meta: rapid.IntRange(0, 2).Draw(rt, "meta"), SeedV: rapid.IntRange(0, 2).Draw(rt, "seedv")}
			if rapid.IntRange(0, 4).Draw(rt, "bad?") == 0 {
				op.Bad = rapid.SampledFrom([]string{"seed-missing", "seed-missing", "seed-missing", "seed-31", "seed-33", "pk-empty", "pk-31", "own-pk"}).Draw(rt, "bad")
				malformed = true
			}
			st := x.contacts[op.C].state
			if c07Table[op.Kind][st] < 0 {
				refused = true
			}
			if (op.Kind == "enqueue" && (st == c07R || st == c07X || st == c07D)) || (op.Kind == "incoming" && st == c07T) {
				implicit = true
			}
			if len(x.contacts[op.C].carried) > 0 && (op.Kind == "enqueue" || op.Kind == "incoming") {
				backfill = true
			}
			names = append(names, op.String())
			if id, msg := x.apply(op); id != "" {
				c07Fail(acct, "TestVerif_C07_Random", x, id, msg)
				rt.Fatalf("C07 %s: %s\n%s", id, msg, strings.Join(x.trace, "\n"))
			}
			if id, msg := x.compare(x.gc, "writer"); id != "" {
				c07Fail(acct, "TestVerif_C07_Random", x, id, msg)
				rt.Fatalf("C07 %s: %s\n%s", id, msg, strings.Join(x.trace, "\n"))
			}
			if rapid.IntRange(0, 14).Draw(rt, "reopen?") == 0 {
				reopened = true
				if id, msg := x.checkReplay(); id != "" {
					c07Fail(acct, "TestVerif_C07_Random", x, id, msg)
					rt.Fatalf("C07 %s: %s\n%s", id, msg, strings.Join(x.trace, "\n"))
				}
			}
		}
		if id, msg := x.checkReplay(); id != "" {
			c07Fail(acct, "TestVerif_C07_Random", x, id, msg)
			rt.Fatalf("C07 %s: %s\n%s", id, msg, strings.Join(x.trace, "\n"))
		}
		acct.Case(refused && implicit && backfill, strings.Join(names, ","), func() any { return map[string]any{"kind": "random", "sequence": names} },
			"random", lbl07(refused, "seq/refusal"), lbl07(implicit, "seq/implicit-path"), lbl07(backfill, "seq/backfill"), lbl07(malformed, "seq/malformed-input"), lbl07(reopened, "seq/reopen-mid-sequence"), lbl07(offCurve, "seq/contact-key-not-a-curve-point"))
	})
}

// the same lifecycle through the protocol service (the RPCs an application uses); state is read from the account store
func TestVerif_C07_Service(t *testing.T) {
	acct := vacct.Get("C07")
	vacct.RapidCheck(t, vacct.N(6, 400), func(rt *rapid.T) {
		x := c07NewServiceWorld(t)
		defer x.close()
		x.newContact()
		x.newContact()
		n := rapid.IntRange(3, 25).Draw(rt, "n")
		var names []string
		sameSeedReEnqueue := false
		for i := 0; i < n; i++ {
			op := c07Op{Kind: rapid.SampledFrom([]string{"enqueue", "enqueue", "enqueue", "sent", "incoming", "discard", "accept", "block", "unblock"}).Draw(rt, "kind"),
				C: rapid.IntRange(0, 1).Draw(rt, "c"), Meta: rapid.IntRange(0, 2).Draw(rt, "meta"), SeedV: rapid.SampledFrom([]int{0, 0, 0, 1}).Draw(rt, "seedv")}
			if rapid.IntRange(0, 7).Draw(rt, "bad?") == 0 {
				op.Bad = rapid.SampledFrom([]string{"seed-missing", "seed-31", "pk-31", "own-pk"}).Draw(rt, "bad")
			}
			if op.Kind == "enqueue" && op.Bad == "" && x.contacts[op.C].state == c07T {
				sameSeedReEnqueue = true
			}
			names = append(names, op.String())
			if id, msg := x.apply(op); id != "" {
				c07Fail(acct, "TestVerif_C07_Service", x, "service/"+id, msg)
				rt.Fatalf("C07 service/%s: %s\n%s", id, msg, strings.Join(x.trace, "\n"))
			}
			if id, msg := x.compare(x.gc, "service"); id != "" {
				c07Fail(acct, "TestVerif_C07_Service", x, "service/"+id, msg)
				rt.Fatalf("C07 service/%s: %s\n%s", id, msg, strings.Join(x.trace, "\n"))
			}
		}
		acct.Case(sameSeedReEnqueue, "svc|"+strings.Join(names, ","), func() any { return map[string]any{"kind": "service-sequence", "sequence": names} },
			"service", lbl07(sameSeedReEnqueue, "service/re-enqueue-while-to-request"))
	})
}
