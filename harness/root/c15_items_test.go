//go:build verif

package weshnet

import (
	"fmt"
	"sort"
	"testing"

	"pgregory.net/rapid"

	"berty.tech/weshnet/v2/internal/vacct"
	"berty.tech/weshnet/v2/pkg/protocoltypes"
)

// C15 for the queue the message store really uses: the per-device priority queue over its own item type, whose
// priority is the counter of the sender's header (any uint64, 0 included). It yields the pending item with the
// smallest counter, loses and duplicates nothing.
func TestVerif_C15_MessageItems(t *testing.T) {
	acct := vacct.Get("C15")
	vacct.RapidCheck(t, vacct.N(400, 40000), func(rt *rapid.T) {
		q := newPriorityMessageQueue("verif", c15NopTracer{})
		var pending []uint64
		var ops []string
		fail := func(id, f string, a ...any) {
			msg := fmt.Sprintf(f, a...)
			acct.Violation("items/"+id, "TestVerif_C15_MessageItems", map[string]any{"ops": ops, "msg": msg})
			rt.Fatalf("C15 items/%s: %s (%v)", id, msg, ops)
		}
		min := func() uint64 {
			m := pending[0]
			for _, c := range pending {
				if c < m {
					m = c
				}
			}
			return m
		}
		remove := func(c uint64) bool {
			for i, p := range pending {
				if p == c {
					pending = append(pending[:i:i], pending[i+1:]...)
					return true
				}
			}
			return false
		}
		zero := false
		rt.Repeat(map[string]func(*rapid.T){
			"add": func(rt *rapid.T) {
				c := rapid.OneOf(rapid.Uint64Range(0, 6), rapid.Uint64Range(0, 6), rapid.Uint64(), rapid.Just(^uint64(0))).Draw(rt, "c")
				zero = zero || c == 0
				q.Add(&messageItem{headers: &protocoltypes.MessageHeaders{Counter: c}})
				pending = append(pending, c)
				ops = append(ops, fmt.Sprintf("add(%d)", c))
			},
			"next": func(rt *rapid.T) {
				it := q.Next()
				if len(pending) == 0 {
					if it != nil {
						fail("next-empty", "Next on an empty queue returned an item")
					}
					return
				}
				if it == nil {
					fail("lost", "Next returned nothing with %d pending", len(pending))
				}
				ops = append(ops, fmt.Sprintf("next=%d", it.Counter()))
				if it.headers.Counter != min() {
					fail("next-not-min", "Next yielded the item with counter %d although counter %d is pending", it.headers.Counter, min())
				}
				if !remove(it.headers.Counter) {
					fail("duplicated", "Next yielded counter %d which is not pending", it.headers.Counter)
				}
			},
			"nextAll": func(rt *rapid.T) {
				if len(pending) == 0 {
					rt.Skip("empty")
				}
				want := append([]uint64(nil), pending...)
				sort.Slice(want, func(i, j int) bool { return want[i] < want[j] })
				var got []uint64
				_ = q.NextAll(func(it *messageItem) error {
					got = append(got, it.headers.Counter)
					return nil
				})
				ops = append(ops, fmt.Sprintf("nextAll=%v", got))
				if fmt.Sprint(got) != fmt.Sprint(want) {
					fail("nextall-order", "NextAll yielded %v, pending in ascending order %v", got, want)
				}
				pending = nil
			},
			"": func(rt *rapid.T) {
				if q.Size() != len(pending) {
					fail("size", "Size()=%d, %d pending", q.Size(), len(pending))
				}
			},
		})
		acct.Case(zero, fmt.Sprintf("items|%v", ops), func() any { return map[string]any{"kind": "message-items", "ops": ops} }, "message-items", lbl07(zero, "message-items/counter-zero"))
	})
}

type c15NopTracer struct{}

func (c15NopTracer) ItemQueued(string, *messageItem) {}
func (c15NopTracer) ItemPop(string, *messageItem)    {}
