//go:build verif

package weshnet

import (
	"bytes"
	"context"
	"fmt"
	"sync"
	"testing"
	"time"

	"github.com/ipfs/go-cid"
	"github.com/libp2p/go-libp2p/core/crypto"
	"pgregory.net/rapid"

	"berty.tech/go-orbit-db/stores/operation"
	"berty.tech/weshnet/v2/internal/vacct"
	"berty.tech/weshnet/v2/pkg/errcode"
	"berty.tech/weshnet/v2/pkg/protocoltypes"
	"berty.tech/weshnet/v2/pkg/secretstore"
)

// C08 through real group contexts: whichever way the chain-key announcement of a sender reaches a member - live, after
// its activation, or already lying in its metadata log when it activates (the catch-up over the log) - and whether the
// sender's messages arrive before or after that, every message sealed after the announcement is delivered to the
// application, and nothing decryptable stays parked.
//
// Quiescence: activation has returned, all entries were handed over, the chain key is known; then the parked count and
// the delivered set must stop changing for 6 s before a missing delivery is judged (a stable wrong state, not a slow one).
func TestVerif_C08_GroupContexts(t *testing.T) {
	acct := vacct.Get("C08")
	vacct.RapidCheck(t, vacct.N(20, 300), func(rt *rapid.T) {
		// the receiving device belongs to another member, or is a second device of the sender's own account (the
		// announcement it holds is then the one addressed to their common member)
		kind := rapid.SampledFrom([]string{"multimember", "contact", "multimember-sibling", "account-sibling"}).Draw(rt, "kind")
		// a quarter of the cases: the announcement arrives while the receiver's activation is catching up (see the plans)
		duringActivation := rapid.IntRange(0, 3).Draw(rt, "announcementDuringActivation") == 0
		if duringActivation {
			kind = "multimember"
		}
		sibling := kind == "multimember-sibling" || kind == "account-sibling"
		a := vNewReplica(t, "A", nil)
		var b *vReplica
		if sibling {
			b = vNewReplica(t, "B", a)
		} else {
			b = vNewReplica(t, "B", nil)
		}
		defer a.close()
		defer b.close()
		var g *protocoltypes.Group
		var aContact, bContact func() error
		ask, _ := a.ss.GetAccountPrivateKey()
		bsk, _ := b.ss.GetAccountPrivateKey()
		switch kind {
		case "contact":
			g, _ = a.ss.GetGroupForContact(bsk.GetPublic())
		case "account-sibling":
			g = a.accountGroup(t)
		default:
			g, _, _ = NewGroupMultiMember()
		}
		agc, bgc := a.open(t, g), b.open(t, g)
		defer agc.Close()
		defer bgc.Close()
		aContact = func() error {
			if kind == "contact" {
				return agc.ActivateGroupContext(bsk.GetPublic())
			}
			return agc.ActivateGroupContext(nil)
		}
		bContact = func() error {
			if kind == "contact" {
				return bgc.ActivateGroupContext(ask.GetPublic())
			}
			return bgc.ActivateGroupContext(nil)
		}
		activate := func(f func() error, who string) {
			done := make(chan error, 1)
			go func() { done <- f() }()
			select {
			case err := <-done:
				if err != nil {
					rt.Fatalf("harness: activation of %s: %v", who, err)
				}
			case <-time.After(30 * time.Second):
				rt.Fatalf("harness: activation of %s did not return", who)
			}
		}
		activate(aContact, "A")
		headsAfterActivationOfA := agc.MetadataStore().OpLog().Heads().Slice() // A's device announcement, not yet its chain key for B
		// A addresses its chain key to B's member (in a contact group activation already did)
		if _, err := agc.MetadataStore().SendSecret(vCtx, bgc.MemberPubKey()); err != nil && !errcode.Is(err, errcode.ErrCode_ErrGroupSecretAlreadySentToMember) {
			rt.Fatalf("harness: SendSecret: %v", err)
		}
		n := rapid.IntRange(1, 5).Draw(rt, "n")
		var ids []string
		payload := map[string][]byte{}
		// any member can append an entry that is no message envelope at all; it travels in the same batches
		poisonAt := -1
		if rapid.Bool().Draw(rt, "poison") {
			poisonAt = rapid.IntRange(0, n-1).Draw(rt, "poisonAt")
		}
		for i := 0; i < n; i++ {
			if i == poisonAt {
				if _, err := agc.MessageStore().AddOperation(vCtx, operation.NewOperation(nil, "ADD", []byte("this is not a message envelope")), nil); err != nil {
					rt.Fatalf("harness: %v", err)
				}
			}
			p := []byte(fmt.Sprintf("message-%d", i))
			op, err := agc.MessageStore().AddMessage(vCtx, p)
			if err != nil {
				rt.Fatalf("harness: %v", err)
			}
			ids = append(ids, op.GetEntry().GetHash().String())
			payload[ids[i]] = p
		}
		sub, err := bgc.MessageStore().EventBus().Subscribe(new(*protocoltypes.GroupMessageEvent))
		if err != nil {
			rt.Fatalf("harness: %v", err)
		}
		defer sub.Close()
		// the order in which things reach B
		plan := rapid.SampledFrom([]string{
			"metadata,messages,activate", // catch-up registers the key, messages already parked
			"messages,metadata,activate",
			"metadata,activate,messages",
			"activate,metadata,messages", // live path
			"activate,messages,metadata",
			"messages,activate,metadata",
			// A's device announcement is known before B activates; A's chain-key announcement arrives while B's activation
			// is still catching up (its own "send secrets to existing members" step is held meanwhile)
			"announcement-during-activation,messages",
		}).Draw(rt, "plan")
		if duringActivation {
			plan = "announcement-during-activation,messages"
		} else if plan == "announcement-during-activation,messages" {
			plan = "activate,metadata,messages"
		}
		gated := false
		deliverMeta := func() {
			for _, h := range agc.MetadataStore().OpLog().Heads().Slice() {
				if err := vDeliverMeta(bgc, agc, h); err != nil {
					rt.Fatalf("harness: %v", err)
				}
			}
		}
		deliverMsgs := func() {
			for _, h := range agc.MessageStore().OpLog().Heads().Slice() {
				if err := vDeliverMsg(bgc, agc, h); err != nil {
					rt.Fatalf("harness: %v", err)
				}
			}
		}
		for _, step := range bytes.Split([]byte(plan), []byte(",")) {
			switch string(step) {
			case "metadata":
				deliverMeta()
			case "messages":
				deliverMsgs()
			case "activate":
				activate(bContact, "B")
			case "announcement-during-activation":
				for _, h := range headsAfterActivationOfA {
					if err := vDeliverMeta(bgc, agc, h); err != nil {
						rt.Fatalf("harness: %v", err)
					}
				}
				gate := &c08GateStore{SecretStore: bgc.metadataStore.secretStore, hit: make(chan struct{}), open: make(chan struct{})}
				bgc.metadataStore.secretStore = gate
				done := make(chan error, 1)
				go func() { done <- bContact() }()
				select {
				case <-gate.hit:
				case err := <-done:
					rt.Fatalf("harness: activation of B returned (%v) without sending its secret to the existing member", err)
				case <-time.After(30 * time.Second):
					rt.Fatalf("harness: activation of B never reached the step that sends secrets to existing members")
				}
				deliverMeta()
				time.Sleep(400 * time.Millisecond) // the live handler takes the entry (or not) while the activation is held
				close(gate.open)
				select {
				case err := <-done:
					if err != nil {
						rt.Fatalf("harness: activation of B: %v", err)
					}
				case <-time.After(30 * time.Second):
					rt.Fatalf("harness: activation of B did not return")
				}
				gated = true
			}
		}
		gpk, _ := g.GetPubKey()
		adev := agc.DevicePubKey()
		rawA := vRawPK(adev)
		got := map[string][]byte{}
		fail := func(id, f string, args ...any) {
			msg := fmt.Sprintf(f, args...)
			acct.Violation("group-context/"+id, "TestVerif_C08_GroupContexts", map[string]any{"group": kind, "plan": plan, "messages": n, "msg": msg})
			rt.Fatalf("C08 group-context/%s: %s (plan %s)", id, msg, plan)
		}
		state := func() string {
			sz, _ := bgc.MessageStore().CacheSizeForDevicePK(rawA)
			return fmt.Sprintf("%d/%d/%v", len(got), sz, b.ss.IsChainKeyKnownForDevice(vCtx, gpk, adev))
		}
		last, since := "", time.Now()
		deadline := time.Now().Add(90 * time.Second)
		for time.Now().Before(deadline) {
			select {
			case e := <-sub.Out():
				ev := e.(*protocoltypes.GroupMessageEvent)
				_, c, _ := cid.CidFromBytes(ev.EventContext.Id)
				if prev, dup := got[c.String()]; dup && prev != nil {
					// delivered again: allowed at most once per arrival, and every entry arrived once
					fail("delivered-too-often", "message %s delivered twice for one arrival", c)
				}
				got[c.String()] = ev.Message
				if !bytes.Equal(ev.Headers.DevicePk, rawA) {
					fail("delivered-altered", "message delivered with another sender")
				}
			case <-time.After(50 * time.Millisecond):
			}
			if s := state(); s != last {
				last, since = s, time.Now()
			}
			if len(got) == n {
				break
			}
			if time.Since(since) > 6*time.Second && b.ss.IsChainKeyKnownForDevice(vCtx, gpk, adev) {
				break // stable: chain key known, nothing moves any more
			}
		}
		if !b.ss.IsChainKeyKnownForDevice(vCtx, gpk, adev) {
			// B holds the announcement addressed to its member (all of A's metadata entries were handed over) and is active
			sz, _ := bgc.MessageStore().CacheSizeForDevicePK(rawA)
			fail("decryptable-not-delivered", "B is active and holds all of A's metadata entries, among them A's chain-key announcement to B's member made before every message, "+
				"but never took the key: %d of %d messages delivered, %d parked", len(got), n, sz)
		}
		for _, id := range ids {
			p, ok := got[id]
			if !ok {
				sz, _ := bgc.MessageStore().CacheSizeForDevicePK(rawA)
				fail("decryptable-not-delivered", "B holds A's chain key (announced before every message) and all %d entries, the pipeline is idle, but message %s was not delivered; %d of %d delivered, %d parked", n, id[len(id)-6:], len(got), n, sz)
			}
			if !bytes.Equal(p, payload[id]) {
				fail("delivered-altered", "message delivered with other content")
			}
		}
		if sz, _ := bgc.MessageStore().CacheSizeForDevicePK(rawA); sz != 0 {
			fail("decryptable-left-parked", "%d message(s) of A still parked on B although everything was delivered", sz)
		}
		catchUp := plan == "metadata,messages,activate" || plan == "messages,metadata,activate"
		acct.Case(catchUp, fmt.Sprintf("gc|%s|%s|%d", kind, plan, n), func() any {
			return map[string]any{"kind": "group-contexts", "group": kind, "plan": plan, "messages": n}
		}, "group-context", lbl07(catchUp, "group-context/parked-before-catch-up"), lbl07(poisonAt >= 0, "group-context/undecodable-entry-in-the-batch"), lbl07(sibling, "group-context/receiver-is-a-sibling-device"), lbl07(gated, "group-context/announcement-during-activation"))
	})
}

// c08GateStore holds the first GetShareableChainKey call (made by the activation's "send secrets to existing members"
// step) until the harness lets it go.
type c08GateStore struct {
	secretstore.SecretStore
	hit, open chan struct{}
	once      sync.Once
}

func (g *c08GateStore) GetShareableChainKey(ctx context.Context, group *protocoltypes.Group, member crypto.PubKey) ([]byte, error) {
	g.once.Do(func() {
		close(g.hit)
		<-g.open
	})
	return g.SecretStore.GetShareableChainKey(ctx, group, member)
}
