//go:build verif

package weshnet

import (
	"bytes"
	"crypto/hmac"
	"crypto/sha256"
	"encoding/binary"
	"fmt"
	"testing"
	"time"

	"go.uber.org/zap"
	"pgregory.net/rapid"

	orbitdb "berty.tech/go-orbit-db"
	"berty.tech/weshnet/v2/internal/vacct"
	"berty.tech/weshnet/v2/pkg/protocoltypes"
	"berty.tech/weshnet/v2/pkg/rendezvous"
	"berty.tech/weshnet/v2/pkg/secretstore"

	"github.com/ipfs/go-datastore"
	dssync "github.com/ipfs/go-datastore/sync"
)

// C17 at the layer that registers the rotations (WeshOrbitDB.OpenGroup): for every store of an opened group the point
// of the current period, and every later point the node will rotate to, is the keyed digest of (log address, link key
// of the group, period start) - the value a peer opening the same group in any other period computes.

func c17HRefPoint(topic string, seed []byte, periodStart time.Time) []byte {
	mac := hmac.New(sha256.New, append([]byte(topic), seed...))
	var b [8]byte
	binary.BigEndian.PutUint64(b[:], uint64(periodStart.Unix()))
	mac.Write(b[:])
	return mac.Sum(nil)
}

func TestVerif_C17_OpenGroup(t *testing.T) {
	acct := vacct.Get("C17")
	vacct.RapidCheck(t, vacct.N(6, 300), func(rt *rapid.T) {
		interval := rapid.SampledFrom([]time.Duration{time.Minute, time.Hour, 24 * time.Hour, 7 * 24 * time.Hour}).Draw(rt, "interval")
		ds := dssync.MutexWrap(datastore.NewMapDatastore())
		ss, err := secretstore.NewSecretStore(ds, nil)
		if err != nil {
			rt.Fatalf("harness: %v", err)
		}
		db, err := NewWeshOrbitDB(vCtx, vSharedNode(t).API(), &NewOrbitDBOptions{
			NewOrbitDBOptions: orbitdb.NewOrbitDBOptions{Logger: zap.NewNop()},
			Datastore:         ds,
			SecretStore:       ss,
			RotationInterval:  rendezvous.NewRotationInterval(interval),
		})
		if err != nil {
			rt.Fatalf("harness: %v", err)
		}
		defer db.Close()
		var g *protocoltypes.Group
		kind := rapid.SampledFrom([]string{"multimember", "account", "contact"}).Draw(rt, "kind")
		switch kind {
		case "account":
			g, _, err = ss.GetGroupForAccount()
		case "contact":
			other, _ := secretstore.NewInMemSecretStore(nil)
			osk, _ := other.GetAccountPrivateKey()
			g, err = ss.GetGroupForContact(osk.GetPublic())
		default:
			g, _, err = NewGroupMultiMember()
		}
		if err != nil {
			rt.Fatalf("harness: %v", err)
		}
		linkKey, err := g.GetLinkKeyArray()
		if err != nil {
			rt.Fatalf("harness: %v", err)
		}
		want := append([]byte(nil), linkKey[:]...)
		t0 := time.Now()
		gc, err := db.OpenGroup(vCtx, g, nil)
		if err != nil {
			rt.Fatalf("harness: OpenGroup: %v", err)
		}
		defer gc.Close()
		fail := func(id, f string, a ...any) {
			msg := fmt.Sprintf(f, a...)
			acct.Violation("open-group/"+id, "TestVerif_C17_OpenGroup", map[string]any{"group": kind, "interval": interval.String(), "msg": msg})
			rt.Fatalf("C17 %s: %s", id, msg)
		}
		secs := int64(interval / time.Second)
		for _, st := range []struct {
			name string
			addr string
		}{{"metadata", gc.MetadataStore().Address().String()}, {"messages", gc.MessageStore().Address().String()}} {
			pt, err := db.rotationInterval.PointForTopic(st.addr)
			if err != nil {
				fail("no-point", "no rendezvous point registered for the %s log of an opened %s group: %v", st.name, kind, err)
			}
			// the period in which the group was opened (or the next one, if a boundary passed meanwhile)
			start := time.Unix(t0.Unix()-t0.Unix()%secs, 0)
			cur := c17HRefPoint(st.addr, want, start)
			if !bytes.Equal(pt.RawRotationTopic(), cur) && !bytes.Equal(pt.RawRotationTopic(), c17HRefPoint(st.addr, want, start.Add(interval))) {
				fail("current-point-not-the-keyed-digest", "the point registered for the %s log is not the keyed digest of (address, link key, period start)", st.name)
			}
			// the points the node rotates to later on
			p := pt
			for k := 1; k <= 3; k++ {
				nextStart := p.Deadline()
				p = p.NextPoint()
				if !bytes.Equal(p.RawRotationTopic(), c17HRefPoint(st.addr, want, nextStart)) {
					fail("later-point-not-the-keyed-digest", "the point the node rotates to %d period(s) after opening the %s log is not the keyed digest of (address, link key, period start): a peer opening the group then computes another point", k, st.name)
				}
			}
		}
		acct.Case(true, fmt.Sprintf("open|%s|%v", kind, interval), func() any { return map[string]any{"kind": "open-group", "group": kind, "interval": interval.String()} }, "open-group", "open-group/"+kind)
	})
}
