//go:build verif

package weshnet

import (
	"bytes"
	"context"
	crand "crypto/rand"
	"fmt"
	"reflect"
	"runtime"
	"sort"
	"strings"
	"testing"
	"time"

	"github.com/ipfs/go-cid"
	"github.com/libp2p/go-libp2p/core/crypto"
	"google.golang.org/grpc"
	"google.golang.org/grpc/metadata"
	"google.golang.org/protobuf/proto"
	"google.golang.org/protobuf/reflect/protoreflect"
	"pgregory.net/rapid"

	"berty.tech/weshnet/v2/internal/vacct"
	"berty.tech/weshnet/v2/pkg/protocoltypes"
)

// C19: no request can crash the service.

// ---- fake server stream

type c19Stream[T any] struct {
	ctx    context.Context
	cancel context.CancelFunc
	sent   int
}

func (s *c19Stream[T]) Send(*T) error {
	s.sent++
	if s.sent >= 3 { // the client goes away after a few replies
		s.cancel()
	}
	return nil
}
func (s *c19Stream[T]) SetHeader(metadata.MD) error  { return nil }
func (s *c19Stream[T]) SendHeader(metadata.MD) error { return nil }
func (s *c19Stream[T]) SetTrailer(metadata.MD)       {}
func (s *c19Stream[T]) Context() context.Context     { return s.ctx }
func (s *c19Stream[T]) SendMsg(any) error            { return nil }
func (s *c19Stream[T]) RecvMsg(any) error            { return fmt.Errorf("no client messages") }

func c19NewStream[T any](ctx context.Context, cancel context.CancelFunc) reflect.Value {
	return reflect.ValueOf(grpc.ServerStreamingServer[T](&c19Stream[T]{ctx: ctx, cancel: cancel}))
}

var c19Streams = map[string]func(ctx context.Context, cancel context.CancelFunc) reflect.Value{
	"ServiceExportData":       c19NewStream[protocoltypes.ServiceExportData_Reply],
	"GroupMetadataList":       c19NewStream[protocoltypes.GroupMetadataEvent],
	"GroupMessageList":        c19NewStream[protocoltypes.GroupMessageEvent],
	"GroupDeviceStatus":       c19NewStream[protocoltypes.GroupDeviceStatus_Reply],
	"DebugListGroups":         c19NewStream[protocoltypes.DebugListGroups_Reply],
	"DebugInspectGroupStore":  c19NewStream[protocoltypes.DebugInspectGroupStore_Reply],
	"VerifiedCredentialsList": c19NewStream[protocoltypes.VerifiedCredentialsList_Reply],
}

// methods that need an external network service: called only with inputs that fail their validation
var c19External = map[string]bool{
	"CredentialVerificationServiceInitFlow":     true,
	"CredentialVerificationServiceCompleteFlow": true,
	"ReplicationServiceRegisterGroup":           true,
	"PeerList":                                  false,
}

// ---- value pools

type c19Pools struct {
	keys   [][]byte // valid public keys of the session: own account, contacts, groups joined / left
	cids   [][]byte
	groups []*protocoltypes.Group
	blobs  [][]byte // encoded contacts, push payloads...
}

func (p *c19Pools) bytes(rt *rapid.T, name string) []byte {
	lname := strings.ToLower(name)
	keyish := strings.HasSuffix(lname, "_pk") || strings.Contains(lname, "public_key") || lname == "pk"
	idish := strings.HasSuffix(lname, "_id") || lname == "cid" || strings.Contains(lname, "log_id")
	switch rapid.IntRange(0, 9).Draw(rt, name+"-pick") {
	case 0:
		return nil
	case 1:
		return []byte{}
	case 2:
		return []byte{rapid.Byte().Draw(rt, name+"-b")}
	case 3:
		n := rapid.SampledFrom([]int{31, 32, 33, 64}).Draw(rt, name+"-n")
		b := make([]byte, n)
		_, _ = crand.Read(b)
		return b
	case 4:
		b := make([]byte, 64*1024)
		_, _ = crand.Read(b[:64])
		return b
	case 5:
		if len(p.blobs) > 0 {
			b := append([]byte(nil), p.blobs[rapid.IntRange(0, len(p.blobs)-1).Draw(rt, name+"-blob")]...)
			if rapid.Bool().Draw(rt, name+"-trunc") && len(b) > 1 {
				b = b[:rapid.IntRange(1, len(b)-1).Draw(rt, name+"-cut")]
			}
			return b
		}
		return rapid.SliceOfN(rapid.Byte(), 0, 80).Draw(rt, name+"-rnd")
	default:
		pool := p.keys
		if idish && len(p.cids) > 0 {
			pool = p.cids
		} else if !keyish && rapid.Bool().Draw(rt, name+"-alt") && len(p.cids) > 0 {
			pool = p.cids
		}
		if len(pool) == 0 {
			return rapid.SliceOfN(rapid.Byte(), 0, 40).Draw(rt, name+"-rnd2")
		}
		b := append([]byte(nil), pool[rapid.IntRange(0, len(pool)-1).Draw(rt, name+"-k")]...)
		if rapid.IntRange(0, 7).Draw(rt, name+"-mut") == 0 && len(b) > 1 {
			b = b[:len(b)-1]
		}
		return b
	}
}

// fill builds a request through reflection from the pools
func (p *c19Pools) fill(rt *rapid.T, m protoreflect.Message, depth int) {
	fds := m.Descriptor().Fields()
	for i := 0; i < fds.Len(); i++ {
		fd := fds.Get(i)
		name := string(fd.Name())
		if fd.IsMap() {
			continue
		}
		if fd.IsList() {
			if fd.Kind() == protoreflect.BytesKind && rapid.Bool().Draw(rt, name+"-list") {
				l := m.Mutable(fd).List()
				l.Append(protoreflect.ValueOfBytes(p.bytes(rt, name)))
			}
			continue
		}
		switch fd.Kind() {
		case protoreflect.BytesKind:
			if b := p.bytes(rt, name); b != nil {
				m.Set(fd, protoreflect.ValueOfBytes(b))
			}
		case protoreflect.StringKind:
			m.Set(fd, protoreflect.ValueOfString(rapid.SampledFrom([]string{"", "x", "http://127.0.0.1:1/", "/ip4/127.0.0.1/tcp/1", strings.Repeat("a", 300), "\x00\xff"}).Draw(rt, name)))
		case protoreflect.BoolKind:
			m.Set(fd, protoreflect.ValueOfBool(rapid.Bool().Draw(rt, name)))
		case protoreflect.EnumKind:
			m.Set(fd, protoreflect.ValueOfEnum(protoreflect.EnumNumber(rapid.SampledFrom([]int32{0, 1, 2, 3, 4, 99, -1}).Draw(rt, name))))
		case protoreflect.Int32Kind, protoreflect.Sint32Kind, protoreflect.Sfixed32Kind:
			m.Set(fd, protoreflect.ValueOfInt32(rapid.SampledFrom([]int32{0, 1, -1, 1<<31 - 1, -1 << 31}).Draw(rt, name)))
		case protoreflect.Int64Kind, protoreflect.Sint64Kind, protoreflect.Sfixed64Kind:
			v := rapid.SampledFrom([]int64{0, 1, -1, 1<<63 - 1, -1 << 63}).Draw(rt, name)
			if name == "timeout" {
				v = 1
			}
			m.Set(fd, protoreflect.ValueOfInt64(v))
		case protoreflect.Uint32Kind, protoreflect.Fixed32Kind:
			m.Set(fd, protoreflect.ValueOfUint32(rapid.SampledFrom([]uint32{0, 1, 1<<32 - 1}).Draw(rt, name)))
		case protoreflect.Uint64Kind, protoreflect.Fixed64Kind:
			m.Set(fd, protoreflect.ValueOfUint64(rapid.SampledFrom([]uint64{0, 1, 1<<64 - 1}).Draw(rt, name)))
		case protoreflect.MessageKind:
			switch rapid.IntRange(0, 3).Draw(rt, name+"-sub") {
			case 0: // nil sub-message
			case 1: // empty
				m.Set(fd, protoreflect.ValueOfMessage(m.NewField(fd).Message()))
			default:
				if string(fd.Message().Name()) == "Group" && len(p.groups) > 0 && rapid.Bool().Draw(rt, name+"-realgroup") {
					g := proto.Clone(p.groups[rapid.IntRange(0, len(p.groups)-1).Draw(rt, name+"-g")]).(*protocoltypes.Group)
					switch rapid.IntRange(0, 4).Draw(rt, name+"-gmut") {
					case 1:
						g.SecretSig = nil
					case 2:
						g.PublicKey = g.PublicKey[:31]
					case 3:
						g.GroupType = protocoltypes.GroupType(rapid.IntRange(0, 4).Draw(rt, name+"-gt"))
					case 4:
						g.Secret = nil
					}
					m.Set(fd, protoreflect.ValueOfMessage(g.ProtoReflect()))
				} else if depth < 3 {
					sub := m.NewField(fd).Message()
					p.fill(rt, sub, depth+1)
					m.Set(fd, protoreflect.ValueOfMessage(sub))
				}
			}
		}
	}
}

type c19World struct {
	tp      *TestingProtocol
	cleanup func()
	svc     reflect.Value
	pools   *c19Pools
	trace   []string
	accDown bool
	lastOdd []byte // a group joined with a validly signed but unusual secret
}

func c19NewWorld(t *testing.T) *c19World {
	tp, cleanup := NewTestingProtocol(vCtx, t, nil, nil)
	w := &c19World{tp: tp, cleanup: cleanup, svc: reflect.ValueOf(tp.Service), pools: &c19Pools{}}
	if sk, err := tp.SecretStore.GetAccountPrivateKey(); err == nil {
		w.pools.keys = append(w.pools.keys, vRawPK(sk.GetPublic()))
	}
	if g, _, err := tp.SecretStore.GetGroupForAccount(); err == nil {
		w.pools.groups = append(w.pools.groups, g)
	}
	for i := 0; i < 2; i++ {
		_, pk, _ := crypto.GenerateEd25519Key(crand.Reader)
		w.pools.keys = append(w.pools.keys, vRawPK(pk))
	}
	g, _, _ := NewGroupMultiMember()
	w.pools.groups = append(w.pools.groups, g)
	w.pools.keys = append(w.pools.keys, g.PublicKey)
	return w
}

type c19CallResult struct {
	panicked  bool
	panicMsg  string
	site      string
	errored   bool
	hung      bool
	reply     proto.Message
}

// call invokes a service method by name under recover.
func (w *c19World) call(name string, req proto.Message) (res c19CallResult) {
	m := w.svc.MethodByName(name)
	if !m.IsValid() {
		res.errored = true
		return
	}
	done := make(chan struct{})
	stream, isStream := c19Streams[name]
	ctx, cancel := context.WithTimeout(vCtx, 300*time.Millisecond)
	if !isStream {
		cancel()
		ctx, cancel = context.WithTimeout(vCtx, 20*time.Second)
	}
	defer cancel()
	go func() {
		defer close(done)
		defer func() {
			if p := recover(); p != nil {
				res.panicked = true
				res.panicMsg = fmt.Sprint(p)
				res.site = c19PanicSite()
			}
		}()
		var out []reflect.Value
		if isStream {
			out = m.Call([]reflect.Value{reflect.ValueOf(req), stream(ctx, cancel)})
			if !out[0].IsNil() {
				res.errored = true
			}
		} else {
			out = m.Call([]reflect.Value{reflect.ValueOf(ctx), reflect.ValueOf(req)})
			if !out[1].IsNil() {
				res.errored = true
			} else if pm, ok := out[0].Interface().(proto.Message); ok {
				res.reply = pm
			}
		}
	}()
	select {
	case <-done:
	case <-time.After(25 * time.Second):
		res.hung = true
	}
	return
}

// the innermost weshnet (non-test) frame of the panicking goroutine
func c19PanicSite() string {
	pcs := make([]uintptr, 64)
	n := runtime.Callers(3, pcs)
	frames := runtime.CallersFrames(pcs[:n])
	for {
		f, more := frames.Next()
		if strings.Contains(f.Function, "berty.tech/weshnet/v2") && !strings.Contains(f.File, "zz_verif_") && !strings.Contains(f.Function, "vacct") {
			fn := f.Function[strings.LastIndex(f.Function, "/")+1:]
			return fn
		}
		if !more {
			break
		}
	}
	return "unknown-site"
}

func c19MethodNames() []string {
	t := reflect.TypeOf((*protocoltypes.ProtocolServiceServer)(nil)).Elem()
	var names []string
	for i := 0; i < t.NumMethod(); i++ {
		n := t.Method(i).Name
		if n == "mustEmbedUnimplementedProtocolServiceServer" {
			continue
		}
		names = append(names, n)
	}
	sort.Strings(names)
	return names
}

func (w *c19World) newRequest(name string) proto.Message {
	m := w.svc.MethodByName(name)
	mt := m.Type()
	var rt reflect.Type
	if _, isStream := c19Streams[name]; isStream {
		rt = mt.In(0)
	} else {
		rt = mt.In(1)
	}
	return reflect.New(rt.Elem()).Interface().(proto.Message)
}

// learn harvests identifiers from replies so that later requests can reference real objects
func (w *c19World) learn(name string, req, reply proto.Message) {
	if reply == nil {
		return
	}
	reply.ProtoReflect().Range(func(fd protoreflect.FieldDescriptor, v protoreflect.Value) bool {
		if fd.Kind() == protoreflect.BytesKind && !fd.IsList() {
			b := v.Bytes()
			n := string(fd.Name())
			switch {
			case len(b) == 32:
				w.pools.keys = append(w.pools.keys, append([]byte(nil), b...))
			case n == "cid" || strings.HasSuffix(n, "_id"):
				w.pools.cids = append(w.pools.cids, append([]byte(nil), b...))
			case len(b) > 0:
				w.pools.blobs = append(w.pools.blobs, append([]byte(nil), b...))
			}
		}
		if fd.Kind() == protoreflect.MessageKind && !fd.IsList() && string(fd.Message().Name()) == "Group" {
			if g, ok := v.Message().Interface().(*protocoltypes.Group); ok && len(g.PublicKey) == 32 {
				w.pools.groups = append(w.pools.groups, g)
			}
		}
		return true
	})
}

// well-formed state changing actions of the sequence
func (w *c19World) action(rt *rapid.T, kind string) (string, proto.Message) {
	pickKey := func() []byte {
		return w.pools.keys[rapid.IntRange(0, len(w.pools.keys)-1).Draw(rt, "akey")]
	}
	switch kind {
	case "create-group":
		return "MultiMemberGroupCreate", &protocoltypes.MultiMemberGroupCreate_Request{}
	case "join-group":
		g, _, _ := NewGroupMultiMember()
		w.pools.groups = append(w.pools.groups, g)
		w.pools.keys = append(w.pools.keys, g.PublicKey)
		return "MultiMemberGroupJoin", &protocoltypes.MultiMemberGroupJoin_Request{Group: g}
	case "join-odd-group":
		// validly signed by its group key, but with a secret of unusual length (the join only checks the signature)
		g, sk, _ := NewGroupMultiMember()
		g.Secret = make([]byte, rapid.SampledFrom([]int{0, 1, 16, 31, 33, 64}).Draw(rt, "secretlen"))
		_, _ = crand.Read(g.Secret)
		g.SecretSig, _ = sk.Sign(g.Secret)
		g.LinkKeySig = nil
		w.pools.groups = append(w.pools.groups, g)
		w.pools.keys = append(w.pools.keys, g.PublicKey)
		w.lastOdd = g.PublicKey
		return "MultiMemberGroupJoin", &protocoltypes.MultiMemberGroupJoin_Request{Group: g}
	case "activate-odd":
		if w.lastOdd != nil {
			return "ActivateGroup", &protocoltypes.ActivateGroup_Request{GroupPk: w.lastOdd, LocalOnly: true}
		}
		return "ActivateGroup", &protocoltypes.ActivateGroup_Request{GroupPk: pickKey(), LocalOnly: true}
	case "activate":
		return "ActivateGroup", &protocoltypes.ActivateGroup_Request{GroupPk: pickKey(), LocalOnly: true}
	case "deactivate":
		return "DeactivateGroup", &protocoltypes.DeactivateGroup_Request{GroupPk: pickKey()}
	case "deactivate-account":
		w.accDown = true
		return "DeactivateGroup", &protocoltypes.DeactivateGroup_Request{GroupPk: w.pools.keys[0]}
	case "activate-account":
		w.accDown = false
		return "ActivateGroup", &protocoltypes.ActivateGroup_Request{GroupPk: w.pools.keys[0], LocalOnly: true}
	case "leave-group":
		return "MultiMemberGroupLeave", &protocoltypes.MultiMemberGroupLeave_Request{GroupPk: pickKey()}
	case "send-message":
		return "AppMessageSend", &protocoltypes.AppMessageSend_Request{GroupPk: pickKey(), Payload: []byte("hello")}
	case "send-metadata":
		return "AppMetadataSend", &protocoltypes.AppMetadataSend_Request{GroupPk: pickKey(), Payload: []byte("hello")}
	case "contact-send":
		seed := make([]byte, 32)
		_, _ = crand.Read(seed)
		return "ContactRequestSend", &protocoltypes.ContactRequestSend_Request{Contact: &protocoltypes.ShareableContact{Pk: pickKey(), PublicRendezvousSeed: seed}}
	case "share-contact":
		return "ShareContact", &protocoltypes.ShareContact_Request{}
	}
	return "ServiceGetConfiguration", &protocoltypes.ServiceGetConfiguration_Request{}
}

func TestVerif_C19_Service(t *testing.T) {
	acct := vacct.Get("C19")
	names := c19MethodNames()
	for _, n := range names {
		if _, ok := c19Streams[n]; !ok {
			m := reflect.ValueOf((*service)(nil)).MethodByName(n)
			if m.IsValid() && m.Type().NumIn() == 2 && m.Type().In(0).Kind() == reflect.Ptr && m.Type().In(1).Kind() == reflect.Interface && m.Type().In(0) != reflect.TypeOf((*context.Context)(nil)).Elem() {
				acct.Label("unknown-streaming-method/" + n)
			}
		}
	}
	vacct.RapidCheck(t, vacct.N(25, 1500), func(rt *rapid.T) {
		w := c19NewWorld(t)
		defer w.cleanup()
		ncalls := rapid.IntRange(10, 40).Draw(rt, "calls")
		pastValidation, afterAccDown := 0, 0
		methodsSeen := map[string]bool{}
		for i := 0; i < ncalls; i++ {
			var name string
			var req proto.Message
			if rapid.IntRange(0, 2).Draw(rt, "mode") == 0 {
				kind := rapid.SampledFrom([]string{"create-group", "join-group", "activate", "deactivate", "deactivate-account", "deactivate-account", "activate-account",
					"leave-group", "send-message", "send-metadata", "contact-send", "share-contact", "join-odd-group", "activate-odd", "activate-odd"}).Draw(rt, "action")
				name, req = w.action(rt, kind)
				w.trace = append(w.trace, fmt.Sprintf("action %s", kind))
			} else {
				name = names[rapid.IntRange(0, len(names)-1).Draw(rt, "method")]
				req = w.newRequest(name)
				w.pools.fill(rt, req.ProtoReflect(), 0)
				if c19External[name] {
					// only inputs that fail the handler's own validation (no external service exists here)
					req.ProtoReflect().Range(func(fd protoreflect.FieldDescriptor, _ protoreflect.Value) bool {
						n := string(fd.Name())
						if n == "token" || n == "public_key" || n == "service_url" || n == "replication_server" || n == "authentication_url" || n == "callback_uri" {
							req.ProtoReflect().Clear(fd)
						}
						return true
					})
				}
			}
			methodsSeen[name] = true
			res := w.call(name, req)
			reqs := fmt.Sprint(req)
			if len(reqs) > 160 {
				reqs = reqs[:160] + "..."
			}
			w.trace = append(w.trace, fmt.Sprintf("%s(%s) accountGroupDown=%v -> panic=%v err=%v hung=%v", name, reqs, w.accDown, res.panicked, res.errored, res.hung))
			if res.panicked {
				id := fmt.Sprintf("panic/%s/%s", name, res.site)
				tr := w.trace
				if len(tr) > 15 {
					tr = tr[len(tr)-15:]
				}
				acct.Violation(id, "TestVerif_C19_Service", map[string]any{"method": name, "request": fmt.Sprint(req), "account_group_deactivated": w.accDown, "panic": res.panicMsg, "site": res.site, "trace": tr})
				rt.Fatalf("C19: %s panicked at %s: %s\nrequest: %v", name, res.site, res.panicMsg, req)
			}
			if res.hung {
				acct.Label("hung-call/" + name)
			}
			if !res.errored {
				pastValidation++
				w.learn(name, req, res.reply)
			}
			if w.accDown {
				afterAccDown++
			}
			// liveness: the service still answers
			if live := w.call("ServiceGetConfiguration", &protocoltypes.ServiceGetConfiguration_Request{}); live.panicked {
				acct.Violation("panic/ServiceGetConfiguration/"+live.site, "TestVerif_C19_Service", map[string]any{"after": name, "panic": live.panicMsg})
				rt.Fatalf("C19: service does not answer after %s: %s", name, live.panicMsg)
			}
		}
		var ms []string
		for m := range methodsSeen {
			ms = append(ms, m)
		}
		sort.Strings(ms)
		acct.Case(pastValidation >= 3 && afterAccDown > 0, strings.Join(w.trace, "|"), func() any {
			tr := w.trace
			if len(tr) > 12 {
				tr = tr[:12]
			}
			return map[string]any{"kind": "call-sequence", "calls": ncalls, "succeeded": pastValidation, "calls_with_account_group_down": afterAccDown, "first_calls": tr}
		}, "sequences", lbl07(afterAccDown > 0, "sequences/call-after-account-group-deactivation"))
		acct.LabelN("calls", int64(ncalls))
		acct.LabelN("calls/succeeded", int64(pastValidation))
		for _, m := range ms {
			acct.Label("method/" + m)
		}
	})
}

var _ = cid.Undef

// helper half in the root package: decoders of untrusted bytes used by applications
func TestVerif_C19_Decoders(t *testing.T) {
	acct := vacct.Get("C19")
	w := vNewReplica(t, "W", nil)
	defer w.close()
	g, _, _ := NewGroupMultiMember()
	_ = w.ss.PutGroup(vCtx, g)
	env, _ := w.ss.SealEnvelope(vCtx, g, []byte("x"))
	vacct.RapidCheck(t, vacct.N(2000, 100000), func(rt *rapid.T) {
		var data []byte
		switch rapid.IntRange(0, 2).Draw(rt, "src") {
		case 0:
			data = rapid.SliceOfN(rapid.Byte(), 0, 120).Draw(rt, "data")
		case 1: // a valid envelope, mutated
			data = append([]byte(nil), env...)
			for i := 0; i < rapid.IntRange(0, 3).Draw(rt, "nmut"); i++ {
				p := rapid.IntRange(0, len(data)*8-1).Draw(rt, "bit")
				data[p/8] ^= 1 << uint(p%8)
			}
			data = data[:rapid.IntRange(0, len(data)).Draw(rt, "cut")]
		default: // structurally plausible protobuf: random fields with length prefixes
			for i := 0; i < rapid.IntRange(1, 5).Draw(rt, "nf"); i++ {
				l := rapid.IntRange(0, 40).Draw(rt, "fl")
				data = append(data, byte(rapid.IntRange(1, 6).Draw(rt, "fn")<<3|2), byte(l))
				data = append(data, rapid.SliceOfN(rapid.Byte(), l, l).Draw(rt, "fv")...)
			}
		}
		calls := map[string]func(){
			"OpenOutOfStoreMessage": func() { _, _, _, _, _ = w.ss.OpenOutOfStoreMessage(vCtx, data) },
			"OpenEnvelopeHeaders":   func() { _, _, _ = w.ss.OpenEnvelopeHeaders(data, g) },
			"openGroupEnvelope":     func() { _, _, _ = openGroupEnvelope(g, data) },
			"ShareableContact.CheckFormat": func() {
				sc := &protocoltypes.ShareableContact{}
				if proto.Unmarshal(data, sc) == nil {
					_ = sc.CheckFormat()
					_, _ = sc.GetPubKey()
				}
			},
			"Group.IsValid": func() {
				gg := &protocoltypes.Group{}
				if proto.Unmarshal(data, gg) == nil {
					_ = gg.IsValid()
					_, _ = gg.GetSigningPubKey()
					_, _ = gg.GetLinkKeyArray()
					_, _ = FilterGroupForReplication(gg)
				}
			},
			"ImportAccountKeys": func() {
				ss2 := vNewReplicaSecretStore(t)
				_ = ss2.ImportAccountKeys(data, data)
			},
		}
		for name, f := range calls {
			func() {
				defer func() {
					if p := recover(); p != nil {
						site := c19PanicSite()
						acct.Violation("helper-panic/"+name+"/"+site, "TestVerif_C19_Decoders", map[string]any{"helper": name, "panic": fmt.Sprint(p), "data_hex": fmt.Sprintf("%x", data)})
						rt.Fatalf("C19: %s panicked on %x: %v", name, data, p)
					}
				}()
				f()
			}()
		}
		acct.Case(len(data) > 0, fmt.Sprintf("dec|%x", data[:min(12, len(data))]), func() any { return map[string]any{"kind": "decoders", "data_len": len(data)} }, "decoders")
	})
}

// listing RPCs with identifiers of the session: every (since, until) pair over real entries, unknown and malformed
// identifiers, with all flag combinations
func TestVerif_C19_ListingRPCs(t *testing.T) {
	acct := vacct.Get("C19")
	vacct.RapidCheck(t, vacct.N(3, 150), func(rt *rapid.T) {
		w := c19NewWorld(t)
		defer w.cleanup()
		res := w.call("MultiMemberGroupCreate", &protocoltypes.MultiMemberGroupCreate_Request{})
		if res.errored || res.panicked {
			rt.Fatalf("harness: create group failed")
		}
		gpk := res.reply.(*protocoltypes.MultiMemberGroupCreate_Reply).GroupPk
		n := rapid.IntRange(0, 5).Draw(rt, "n")
		var msgIDs, metaIDs [][]byte
		for i := 0; i < n; i++ {
			r := w.call("AppMessageSend", &protocoltypes.AppMessageSend_Request{GroupPk: gpk, Payload: []byte(fmt.Sprintf("m%d", i))})
			if !r.errored && r.reply != nil {
				msgIDs = append(msgIDs, r.reply.(*protocoltypes.AppMessageSend_Reply).Cid)
			}
			r = w.call("AppMetadataSend", &protocoltypes.AppMetadataSend_Request{GroupPk: gpk, Payload: []byte(fmt.Sprintf("d%d", i))})
			if !r.errored && r.reply != nil {
				metaIDs = append(metaIDs, r.reply.(*protocoltypes.AppMetadataSend_Reply).Cid)
			}
		}
		// the inspection requests on a group this account created (its metadata log starts with the owner's announcement,
		// the only event type that names no device) and on the account group
		acfg := w.call("ServiceGetConfiguration", &protocoltypes.ServiceGetConfiguration_Request{})
		inspected := [][]byte{gpk}
		if cfg, ok := acfg.reply.(*protocoltypes.ServiceGetConfiguration_Reply); ok && cfg != nil {
			inspected = append(inspected, cfg.AccountGroupPk)
		}
		for _, pk := range inspected {
			for lt := int32(0); lt <= 3; lt++ {
				r := w.call("DebugInspectGroupStore", &protocoltypes.DebugInspectGroupStore_Request{GroupPk: pk, LogType: protocoltypes.DebugInspectGroupLogType(lt)})
				acct.Case(lt == 2, fmt.Sprintf("inspect|%d|%d|%v", n, lt, bytes.Equal(pk, gpk)), func() any {
					return map[string]any{"kind": "inspect-rpc", "entries": n, "log_type": lt, "created_group": bytes.Equal(pk, gpk)}
				}, "listing-rpc", "listing-rpc/inspect-own-groups")
				if r.panicked {
					acct.Violation(fmt.Sprintf("panic/DebugInspectGroupStore/%s", r.site), "TestVerif_C19_ListingRPCs", map[string]any{"method": "DebugInspectGroupStore", "log_type": lt, "created_group": bytes.Equal(pk, gpk), "panic": r.panicMsg, "site": r.site})
					rt.Fatalf("C19: DebugInspectGroupStore(log type %d, created group %v) panicked at %s: %s", lt, bytes.Equal(pk, gpk), r.site, r.panicMsg)
				}
			}
			if r := w.call("DebugGroup", &protocoltypes.DebugGroup_Request{GroupPk: pk}); r.panicked {
				acct.Violation(fmt.Sprintf("panic/DebugGroup/%s", r.site), "TestVerif_C19_ListingRPCs", map[string]any{"method": "DebugGroup", "panic": r.panicMsg, "site": r.site})
				rt.Fatalf("C19: DebugGroup panicked at %s: %s", r.site, r.panicMsg)
			}
		}
		junk := [][]byte{nil, {}, []byte("not-a-cid"), cid.NewCidV1(cid.Raw, []byte("\x12\x20aaaaaaaaaaaaaaaaaaaaaaaaaaaaaaaa")).Bytes()}
		for _, tc := range []struct {
			method string
			ids    [][]byte
		}{{"GroupMessageList", msgIDs}, {"GroupMetadataList", metaIDs}} {
			bounds := append(append([][]byte{}, tc.ids...), junk...)
			for si, s := range bounds {
				for ui, u := range bounds {
					for flags := 0; flags < 8; flags++ {
						var req proto.Message
						if tc.method == "GroupMessageList" {
							req = &protocoltypes.GroupMessageList_Request{GroupPk: gpk, SinceId: s, UntilId: u, SinceNow: flags&1 != 0, UntilNow: flags&2 != 0, ReverseOrder: flags&4 != 0}
						} else {
							req = &protocoltypes.GroupMetadataList_Request{GroupPk: gpk, SinceId: s, UntilId: u, SinceNow: flags&1 != 0, UntilNow: flags&2 != 0, ReverseOrder: flags&4 != 0}
						}
						// subscriptions (no upper bound) only end with the client: keep a few of them, they cost the stream timeout
						if u == nil && flags&2 == 0 && (si+flags)%5 != 0 {
							continue
						}
						r := w.call(tc.method, req)
						real := si < len(tc.ids) && ui < len(tc.ids)
						acct.Case(real, fmt.Sprintf("%s|%d|%d|%d|%d", tc.method, len(tc.ids), si, ui, flags), func() any {
							return map[string]any{"kind": "listing-rpc", "method": tc.method, "entries": len(tc.ids), "since_index": si, "until_index": ui, "flags": flags}
						}, "listing-rpc", lbl07(real, "listing-rpc/both-bounds-real"))
						if r.panicked {
							acct.Violation(fmt.Sprintf("panic/%s/%s", tc.method, r.site), "TestVerif_C19_ListingRPCs", map[string]any{"method": tc.method, "entries": len(tc.ids), "since_index": si, "until_index": ui, "flags": flags, "panic": r.panicMsg, "site": r.site})
							rt.Fatalf("C19: %s panicked (since=#%d until=#%d of %d entries, flags %d) at %s: %s", tc.method, si, ui, len(tc.ids), flags, r.site, r.panicMsg)
						}
					}
				}
			}
		}
	})
}

// every short sequence of the requests that carry no argument at all (nothing to validate: only the state of the
// service decides what they do), each on a fresh service; background tasks they trigger get time to run, a crash of
// the process is caught by the driver
func TestVerif_C19_ArgumentlessSequences(t *testing.T) {
	acct := vacct.Get("C19")
	methods := []string{"ContactRequestEnable", "ContactRequestDisable", "ContactRequestResetReference", "ShareContact", "ContactRequestReference", "ServiceGetConfiguration"}
	maxLen := 2
	if vacct.Thorough() {
		maxLen = 3
	}
	shard, nshards := vacct.Shard()
	idx := 0
	for l := 1; l <= maxLen; l++ {
		total := 1
		for i := 0; i < l; i++ {
			total *= len(methods)
		}
		for code := 0; code < total; code++ {
			idx++
			if idx%nshards != shard {
				continue
			}
			var seq []string
			for i, c := 0, code; i < l; i, c = i+1, c/len(methods) {
				seq = append(seq, methods[c%len(methods)])
			}
			w := c19NewWorld(t)
			for _, name := range seq {
				r := w.call(name, w.newRequest(name))
				if r.panicked {
					acct.Violation(fmt.Sprintf("panic/%s/%s", name, r.site), "TestVerif_C19_ArgumentlessSequences", map[string]any{"sequence": seq, "panic": r.panicMsg, "site": r.site})
					t.Fatalf("C19: %s panicked in sequence %v at %s: %s", name, seq, r.site, r.panicMsg)
				}
				time.Sleep(40 * time.Millisecond) // handlers of the events the call appended run in background tasks
			}
			time.Sleep(120 * time.Millisecond)
			// the service still answers
			if r := w.call("ServiceGetConfiguration", &protocoltypes.ServiceGetConfiguration_Request{}); r.panicked || r.hung {
				acct.Violation("service-dead-after-sequence", "TestVerif_C19_ArgumentlessSequences", map[string]any{"sequence": seq})
				t.Fatalf("C19: the service does not answer after %v", seq)
			}
			w.cleanup()
			acct.Case(l >= 2, "argless|"+strings.Join(seq, ","), func() any { return map[string]any{"kind": "argumentless-sequence", "sequence": seq} }, "argumentless-sequences")
		}
	}
}

// every method called several times in a row with the same request (a retry by the application, a duplicated
// notification): state left behind by the first call must not make the next one crash
func TestVerif_C19_RepeatedCalls(t *testing.T) {
	acct := vacct.Get("C19")
	names := c19MethodNames()
	vacct.RapidCheck(t, vacct.N(2, 80), func(rt *rapid.T) {
		w := c19NewWorld(t)
		defer w.cleanup()
		// something to refer to: a group and a contact request of the session
		for _, k := range []string{"create-group", "contact-send", "share-contact", "join-odd-group", "activate-odd"} {
			n, r := w.action(rt, k)
			if res := w.call(n, r); !res.errored {
				w.learn(n, r, res.reply)
			}
		}
		for _, name := range names {
			if c19External[name] {
				continue
			}
			if _, isStream := c19Streams[name]; isStream && rapid.IntRange(0, 2).Draw(rt, "skip-stream") != 0 {
				continue // streams cost their time-out each
			}
			req := w.newRequest(name)
			w.pools.fill(rt, req.ProtoReflect(), 0)
			for rep := 1; rep <= 3; rep++ {
				res := w.call(name, proto.Clone(req))
				if res.panicked {
					acct.Violation(fmt.Sprintf("panic/%s/%s", name, res.site), "TestVerif_C19_RepeatedCalls", map[string]any{"method": name, "request": fmt.Sprint(req), "repetition": rep, "panic": res.panicMsg, "site": res.site})
					rt.Fatalf("C19: %s panicked on repetition %d of the same request at %s: %s\nrequest: %v", name, rep, res.site, res.panicMsg, req)
				}
			}
			acct.Case(true, "rep|"+name+"|"+fmt.Sprint(req), func() any { return map[string]any{"kind": "repeated-call", "method": name} }, "repeated-calls")
		}
		if live := w.call("ServiceGetConfiguration", &protocoltypes.ServiceGetConfiguration_Request{}); live.panicked || live.hung {
			acct.Violation("service-dead-after-sequence", "TestVerif_C19_RepeatedCalls", map[string]any{})
			rt.Fatalf("C19: the service does not answer after the repeated calls")
		}
	})
}
