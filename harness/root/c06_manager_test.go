//go:build verif

package weshnet

import (
	"context"
	crand "crypto/rand"
	"crypto/sha256"
	"fmt"
	"net"
	"testing"
	"time"

	"github.com/libp2p/go-libp2p/core/crypto"
	"github.com/libp2p/go-libp2p/core/network"
	"go.uber.org/zap"
	"golang.org/x/crypto/nacl/box"
	"google.golang.org/protobuf/proto"
	"pgregory.net/rapid"

	"berty.tech/weshnet/v2/internal/handshake"
	"berty.tech/weshnet/v2/internal/vacct"
	"berty.tech/weshnet/v2/pkg/cryptoutil"
	"berty.tech/weshnet/v2/pkg/protocoltypes"
	"berty.tech/weshnet/v2/pkg/protoio"
)

// C06, second layer: the contact request manager records an incoming request only for a key whose private half the
// stream peer holds.

type c06mStream struct {
	network.Stream // nil: only Read/Write/Close are used by the handler
	c              net.Conn
}

func (s *c06mStream) Read(p []byte) (int, error)  { return s.c.Read(p) }
func (s *c06mStream) Write(p []byte) (int, error) { return s.c.Write(p) }
func (s *c06mStream) Close() error                { return s.c.Close() }

func TestVerif_C06_Manager(t *testing.T) {
	acct := vacct.Get("C06")
	vacct.RapidCheck(t, vacct.N(30, 6000), func(rt *rapid.T) {
		w := vNewReplica(t, "B", nil)
		defer w.close()
		gc := w.open(t, w.accountGroup(t))
		defer gc.Close()
		m := gc.MetadataStore()
		bsk, _ := w.ss.GetAccountPrivateKey()
		mgr := &contactRequestsManager{metadataStore: m, accountPrivateKey: bsk, logger: zap.NewNop(), lookupProcess: map[string]context.CancelFunc{}}
		mgr.ctx, mgr.cancel = context.WithCancel(vCtx)
		defer mgr.cancel()
		peerSK, _, _ := crypto.GenerateEd25519Key(crand.Reader)   // the key the stream peer really holds
		victimSK, _, _ := crypto.GenerateEd25519Key(crand.Reader) // somebody else's account
		kind := rapid.SampledFrom([]string{"honest", "claims-victim-in-contact", "bad-seed", "no-contact", "garbage-contact", "honest-no-seed", "own-account-key"}).Draw(rt, "kind")
		a, b := net.Pipe()
		_ = a.SetDeadline(time.Now().Add(10 * time.Second))
		_ = b.SetDeadline(time.Now().Add(10 * time.Second))
		done := make(chan error, 1)
		before := m.OpLog().Len()
		go func() { done <- mgr.handleIncomingRequest(vCtx, &c06mStream{c: b}) }()
		// the peer: an honest handshake with the key it holds, then the contact frame of the scenario
		reader := protoio.NewDelimitedReader(a, 2048)
		writer := protoio.NewDelimitedWriter(a)
		useSK := peerSK
		if kind == "own-account-key" {
			useSK = bsk // (only the account itself could do that)
		}
		herr := handshake.RequestUsingReaderWriter(vCtx, zap.NewNop(), reader, writer, useSK, bsk.GetPublic())
		seed := make([]byte, 32)
		_, _ = crand.Read(seed)
		if herr == nil {
			var msg proto.Message
			switch kind {
			case "honest":
				msg = &protocoltypes.ShareableContact{Pk: vRawPK(peerSK.GetPublic()), PublicRendezvousSeed: seed, Metadata: []byte("hi")}
			case "honest-no-seed":
				msg = &protocoltypes.ShareableContact{Pk: vRawPK(peerSK.GetPublic())}
			case "claims-victim-in-contact":
				msg = &protocoltypes.ShareableContact{Pk: vRawPK(victimSK.GetPublic()), PublicRendezvousSeed: seed}
			case "bad-seed":
				msg = &protocoltypes.ShareableContact{Pk: vRawPK(peerSK.GetPublic()), PublicRendezvousSeed: seed[:rapid.IntRange(1, 31).Draw(rt, "seedlen")]}
			case "garbage-contact":
				msg = &protocoltypes.GroupEnvelope{Nonce: []byte{1, 2, 3}, Event: rapid.SliceOfN(rapid.Byte(), 0, 64).Draw(rt, "garbage")}
			case "own-account-key":
				msg = &protocoltypes.ShareableContact{Pk: vRawPK(bsk.GetPublic()), PublicRendezvousSeed: seed}
			}
			if msg != nil {
				_ = writer.WriteMsg(msg)
			}
		}
		_ = a.Close()
		var err error
		select {
		case err = <-done:
		case <-time.After(15 * time.Second):
			rt.Fatalf("harness: handler did not return")
		}
		// what was recorded
		appended := m.OpLog().Len() - before
		fail := func(id, f string, args ...any) {
			msg := fmt.Sprintf(f, args...)
			acct.Violation("manager/"+id, "TestVerif_C06_Manager", map[string]any{"scenario": kind, "msg": msg})
			rt.Fatalf("C06 %s: %s", id, msg)
		}
		// the statement: whatever was recorded names the key the stream peer proved, and nothing else (the replica
		// is fresh, so every contact present was created by this session)
		for pk := range m.ListContacts() {
			if pk != string(vRawPK(useSK.GetPublic())) {
				fail("request-recorded-for-absent-party", "scenario %s: an incoming request was recorded for a key the stream peer does not hold (%x)", kind, []byte(pk)[:6])
			}
		}
		switch kind {
		case "honest", "honest-no-seed":
			if err != nil || appended != 1 {
				fail("honest-request-refused", "honest request: err=%v, %d entries appended", err, appended)
			}
			if _, ok := m.ListContacts()[string(vRawPK(peerSK.GetPublic()))]; !ok {
				fail("honest-request-not-recorded", "honest request accepted but no contact recorded for the requester")
			}
		default:
			// refusing is the implementation's choice for these (the statement only constrains which key may be
			// reported); a refusal must leave no trace
			if err != nil && appended != 0 {
				fail("refused-request-appended", "scenario %s was refused but appended %d entries", kind, appended)
			}
		}
		accepted := err == nil
		acct.Case(kind != "honest", "mgr|"+kind, func() any { return map[string]any{"kind": "manager-session", "scenario": kind} }, "manager", "manager/"+kind, lbl07(accepted, "manager/accepted"), lbl07(!accepted, "manager/refused"))
	})
}

var (
	_ = sha256.New
	_ = box.Overhead
	_ = cryptoutil.KeySize
)
