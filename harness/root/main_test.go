//go:build verif

package weshnet

import (
	"os"
	"testing"

	"berty.tech/weshnet/v2/internal/vacct"
)

func TestMain(m *testing.M) { os.Exit(vacct.Main(m)) }
