//go:build verif

package weshnet

import (
	"google.golang.org/protobuf/encoding/protowire"
	crand "crypto/rand"
	"fmt"
	"sort"
	"strings"
	"testing"
	"time"

	"github.com/libp2p/go-libp2p/core/crypto"
	"golang.org/x/crypto/nacl/secretbox"
	"google.golang.org/protobuf/proto"
	"google.golang.org/protobuf/reflect/protoreflect"
	"pgregory.net/rapid"

	"berty.tech/go-orbit-db/stores/operation"
	"berty.tech/weshnet/v2/internal/vacct"
	"berty.tech/weshnet/v2/pkg/protocoltypes"
)

// C03: only correctly signed metadata events reach group state and subscribers.

type c03Keys struct {
	g                  *protocoltypes.Group
	groupSK            crypto.PrivKey // private half of the group public key
	member, device     crypto.PrivKey
	otherDev, otherMem crypto.PrivKey
	g2                 *protocoltypes.Group
}

func c03NewKeys() *c03Keys {
	k := &c03Keys{}
	k.g, k.groupSK, _ = NewGroupMultiMember()
	k.g2, _, _ = NewGroupMultiMember()
	k.member, _, _ = crypto.GenerateEd25519Key(crand.Reader)
	k.device, _, _ = crypto.GenerateEd25519Key(crand.Reader)
	k.otherDev, _, _ = crypto.GenerateEd25519Key(crand.Reader)
	k.otherMem, _, _ = crypto.GenerateEd25519Key(crand.Reader)
	return k
}

func c03Pub(sk crypto.PrivKey) []byte { return vRawPK(sk.GetPublic()) }

// c03Seal is the harness's own envelope builder (written from the protocol description).
func c03Seal(g *protocoltypes.Group, et protocoltypes.EventType, payload, sig []byte) []byte {
	ev, err := proto.Marshal(&protocoltypes.GroupMetadata{EventType: et, Payload: payload, Sig: sig, ProtocolMetadata: &protocoltypes.ProtocolMetadata{}})
	if err != nil {
		panic(err)
	}
	var nonce [24]byte
	_, _ = crand.Read(nonce[:])
	var key [32]byte
	copy(key[:], g.Secret)
	b, err := proto.Marshal(&protocoltypes.GroupEnvelope{Nonce: nonce[:], Event: secretbox.Seal(nil, ev, &nonce, &key)})
	if err != nil {
		panic(err)
	}
	return b
}

// c03Fill fills every non-signer field of an event message with generated values.
func c03Fill(rt *rapid.T, m proto.Message) {
	r := m.ProtoReflect()
	fds := r.Descriptor().Fields()
	for i := 0; i < fds.Len(); i++ {
		fd := fds.Get(i)
		name := string(fd.Name())
		if name == "device_pk" || name == "member_pk" || name == "member_sig" {
			continue
		}
		if fd.IsList() || fd.IsMap() {
			continue
		}
		switch fd.Kind() {
		case protoreflect.BytesKind:
			r.Set(fd, protoreflect.ValueOfBytes(rapid.SliceOfN(rapid.Byte(), 0, 40).Draw(rt, name)))
		case protoreflect.StringKind:
			r.Set(fd, protoreflect.ValueOfString(rapid.StringN(0, 12, 24).Draw(rt, name)))
		case protoreflect.Int64Kind:
			r.Set(fd, protoreflect.ValueOfInt64(rapid.Int64().Draw(rt, name)))
		case protoreflect.Uint64Kind:
			r.Set(fd, protoreflect.ValueOfUint64(rapid.Uint64().Draw(rt, name)))
		case protoreflect.BoolKind:
			r.Set(fd, protoreflect.ValueOfBool(rapid.Bool().Draw(rt, name)))
		case protoreflect.MessageKind:
			switch string(fd.Message().Name()) {
			case "Group":
				g, _, _ := NewGroupMultiMember()
				r.Set(fd, protoreflect.ValueOfMessage(g.ProtoReflect()))
			case "ShareableContact":
				sc := &protocoltypes.ShareableContact{Pk: rapid.SliceOfN(rapid.Byte(), 32, 32).Draw(rt, "cpk"), PublicRendezvousSeed: rapid.SliceOfN(rapid.Byte(), 32, 32).Draw(rt, "cseed")}
				r.Set(fd, protoreflect.ValueOfMessage(sc.ProtoReflect()))
			}
		}
	}
}

func c03SetBytes(m proto.Message, field string, v []byte) bool {
	r := m.ProtoReflect()
	fd := r.Descriptor().Fields().ByName(protoreflect.Name(field))
	if fd == nil {
		return false
	}
	r.Set(fd, protoreflect.ValueOfBytes(v))
	return true
}

type c03Forgery struct {
	label    string
	env      []byte
	g        *protocoltypes.Group
	parses   bool // decrypts and parses: only the signature checker can stop it
}

// c03Build returns the honest envelope of an event type and its forgeries.
func c03Build(rt *rapid.T, k *c03Keys, et protocoltypes.EventType) (honest []byte, payload []byte, msg proto.Message, forgeries []c03Forgery) {
	proto0 := eventTypesMapper[et].Message
	msg = proto.Clone(proto0)
	proto.Reset(msg)
	c03Fill(rt, msg)
	sign := func(sk crypto.PrivKey, data []byte) []byte {
		s, err := sk.Sign(data)
		if err != nil {
			panic(err)
		}
		return s
	}
	var required crypto.PrivKey
	switch et {
	case protocoltypes.EventType_EventTypeMultiMemberGroupInitialMemberAnnounced:
		c03SetBytes(msg, "member_pk", c03Pub(k.device))
		required = k.groupSK
	case protocoltypes.EventType_EventTypeGroupMemberDeviceAdded:
		c03SetBytes(msg, "member_pk", c03Pub(k.member))
		c03SetBytes(msg, "device_pk", c03Pub(k.device))
		c03SetBytes(msg, "member_sig", sign(k.member, c03Pub(k.device)))
		required = k.device
	default:
		c03SetBytes(msg, "device_pk", c03Pub(k.device))
		required = k.device
	}
	payload, _ = proto.Marshal(msg)
	goodSig := sign(required, payload)
	honest = c03Seal(k.g, et, payload, goodSig)

	add := func(label string, g *protocoltypes.Group, et2 protocoltypes.EventType, p, sig []byte, parses bool) {
		forgeries = append(forgeries, c03Forgery{label: label, env: c03Seal(g, et2, p, sig), g: k.g, parses: parses})
	}
	// signatures by keys that are not the required signer (the named signer stays the same)
	add("sig-by-another-device", k.g, et, payload, sign(k.otherDev, payload), true)
	if required != k.groupSK {
		add("sig-by-group-key", k.g, et, payload, sign(k.groupSK, payload), true)
	}
	add("sig-by-member-key", k.g, et, payload, sign(k.member, payload), true)
	if et == protocoltypes.EventType_EventTypeMultiMemberGroupInitialMemberAnnounced {
		add("sig-by-device-instead-of-group-key", k.g, et, payload, sign(k.device, payload), true)
	}
	// signer field replaced after signing
	swapped := proto.Clone(msg)
	field := "device_pk"
	if et == protocoltypes.EventType_EventTypeMultiMemberGroupInitialMemberAnnounced {
		field = "member_pk"
	}
	c03SetBytes(swapped, field, c03Pub(k.otherDev))
	sp, _ := proto.Marshal(swapped)
	if et != protocoltypes.EventType_EventTypeMultiMemberGroupInitialMemberAnnounced { // the group key does not sign a field it could be swapped against
		add("signer-field-swapped-after-signing", k.g, et, sp, goodSig, true)
	} else {
		add("payload-changed-after-signing", k.g, et, sp, goodSig, true)
	}
	// the signer field occurs twice in the encoding: first the forger's own key, then the victim's (the decoder keeps
	// the last occurrence, so the event names the victim); signed by the forger over the whole payload
	if fd := msg.ProtoReflect().Descriptor().Fields().ByName(protoreflect.Name(field)); fd != nil && et != protocoltypes.EventType_EventTypeMultiMemberGroupInitialMemberAnnounced {
		twice := append([]byte(nil), sp...) // sp names k.otherDev
		twice = protowire.AppendTag(twice, fd.Number(), protowire.BytesType)
		twice = protowire.AppendBytes(twice, c03Pub(k.device))
		add("signer-field-twice-signed-by-first", k.g, et, twice, sign(k.otherDev, twice), true)
	}
	// signature variants
	add("sig-missing", k.g, et, payload, nil, true)
	add("sig-truncated", k.g, et, payload, goodSig[:63], true)
	add("sig-overlong", k.g, et, payload, append(append([]byte(nil), goodSig...), 0), true)
	add("sig-of-other-payload", k.g, et, payload, sign(required, append([]byte("x"), payload...)), true)
	// payload bit flips (signature kept)
	nb := len(payload) * 8
	for b := 0; b < nb && b < 128*8; b++ {
		p2 := append([]byte(nil), payload...)
		p2[b/8] ^= 1 << uint(b%8)
		forgeries = append(forgeries, c03Forgery{label: "payload-bit-flip", env: c03Seal(k.g, et, p2, goodSig), g: k.g})
	}
	// unknown type numbers with a valid device signature
	for _, n := range []int32{0, 3, 4, 100, 999, 1<<31 - 1} {
		add(fmt.Sprintf("unknown-type-%d", n), k.g, protocoltypes.EventType(n), payload, goodSig, false)
	}
	// sealed under another group secret, presented to the group
	add("sealed-for-another-group", k.g2, et, payload, goodSig, false)
	// envelope level alterations
	for i := 0; i < 24; i++ {
		e2 := append([]byte(nil), honest...)
		bit := rapid.IntRange(0, len(e2)*8-1).Draw(rt, "ebit")
		e2[bit/8] ^= 1 << uint(bit%8)
		forgeries = append(forgeries, c03Forgery{label: "envelope-bit-flip", env: e2, g: k.g})
	}
	if et == protocoltypes.EventType_EventTypeGroupMemberDeviceAdded {
		mk := func(label string, f func(m *protocoltypes.GroupMemberDeviceAdded) (signer crypto.PrivKey)) {
			m2 := proto.Clone(msg).(*protocoltypes.GroupMemberDeviceAdded)
			signer := f(m2)
			p2, _ := proto.Marshal(m2)
			var sig []byte
			if signer != nil {
				sig = sign(signer, p2)
			}
			add(label, k.g, et, p2, sig, true)
		}
		// the member field occurs twice: a foreign member attests the device, then the victim member is named
		{
			m2 := proto.Clone(msg).(*protocoltypes.GroupMemberDeviceAdded)
			m2.MemberPk = c03Pub(k.otherMem)
			m2.MemberSig = sign(k.otherMem, m2.DevicePk)
			p2, _ := proto.Marshal(m2)
			if fd := m2.ProtoReflect().Descriptor().Fields().ByName("member_pk"); fd != nil {
				p2 = protowire.AppendTag(p2, fd.Number(), protowire.BytesType)
				p2 = protowire.AppendBytes(p2, c03Pub(k.member))
				add("member-field-twice-attested-by-first", k.g, et, p2, sign(k.device, p2), true)
			}
		}
		mk("member-sig-by-foreign-key", func(m *protocoltypes.GroupMemberDeviceAdded) crypto.PrivKey {
			m.MemberSig = sign(k.otherMem, m.DevicePk)
			return k.device
		})
		mk("member-sig-over-another-device", func(m *protocoltypes.GroupMemberDeviceAdded) crypto.PrivKey {
			m.MemberSig = sign(k.member, c03Pub(k.otherDev))
			return k.device
		})
		mk("device-sig-missing-member-sig-valid", func(m *protocoltypes.GroupMemberDeviceAdded) crypto.PrivKey { return nil })
		mk("both-sigs-by-member-key", func(m *protocoltypes.GroupMemberDeviceAdded) crypto.PrivKey { return k.member })
		mk("member-sig-missing", func(m *protocoltypes.GroupMemberDeviceAdded) crypto.PrivKey {
			m.MemberSig = nil
			return k.device
		})
		mk("member-claims-other-member", func(m *protocoltypes.GroupMemberDeviceAdded) crypto.PrivKey {
			m.MemberPk = c03Pub(k.otherMem)
			return k.device
		})
	}
	return
}

func c03Types() []protocoltypes.EventType {
	var ts []protocoltypes.EventType
	for n := range protocoltypes.EventType_name {
		if n != 0 {
			ts = append(ts, protocoltypes.EventType(n))
		}
	}
	sort.Slice(ts, func(i, j int) bool { return ts[i] < ts[j] })
	return ts
}

func TestVerif_C03_Envelopes(t *testing.T) {
	acct := vacct.Get("C03")
	types := c03Types()
	vacct.RapidCheck(t, vacct.N(3, 2000), func(rt *rapid.T) {
		k := c03NewKeys()
		var opened []struct {
			et      protocoltypes.EventType
			payload []byte
			sigEnv  []byte
		}
		for _, et := range types {
			if _, ok := eventTypesMapper[et]; !ok {
				// a type of the protocol enum that cannot be opened at all: honest events of that type are dropped
				acct.Violation("honest-type-unmapped/"+et.String(), "TestVerif_C03_Envelopes", map[string]any{"type": et.String()})
				rt.Fatalf("event type %v has no decoder", et)
			}
			honest, payload, msg, forgeries := c03Build(rt, k, et)
			fail := func(id, f string, a ...any) {
				m := fmt.Sprintf(f, a...)
				acct.Violation(id, "TestVerif_C03_Envelopes", map[string]any{"type": et.String(), "msg": m})
				rt.Fatalf("C03 %s (%v): %s", id, et, m)
			}
			// forgeries presented before the genuine event has ever been seen
			for _, f := range forgeries {
				if _, _, err := openGroupEnvelope(f.g, f.env); err == nil {
					fail("forgery-accepted/"+strings.Split(f.label, "-bit")[0]+"/before-genuine", "forged %v envelope (%s) was opened", et, f.label)
				}
			}
			meta, got, err := openGroupEnvelope(k.g, honest)
			if err != nil {
				fail("honest-rejected", "correctly signed %v event rejected: %v", et, err)
			}
			if meta.EventType != et || !proto.Equal(got, msg) {
				fail("honest-decoded-differently", "correctly signed %v event decoded to type %v / another payload", et, meta.EventType)
			}
			// ... and again once the genuine event (and its signature) has been seen by this process
			for _, f := range forgeries {
				if _, _, err := openGroupEnvelope(f.g, f.env); err == nil {
					fail("forgery-accepted/"+strings.Split(f.label, "-bit")[0]+"/after-genuine", "forged %v envelope (%s) was opened after the genuine one", et, f.label)
				}
				acct.Case(f.parses, et.String()+"|"+f.label, func() any { return map[string]any{"kind": "envelope-forgery", "type": et.String(), "forgery": f.label} }, "forgery", lbl07(f.parses, "forgery/stopped-by-signature-check-only"))
			}
			// the signature of an already verified genuine event re-used on other content of the same signer
			meta2, _, _ := openGroupEnvelope(k.g, honest)
			for _, o := range opened {
				if _, ok := eventTypesMapper[o.et]; !ok || o.et == protocoltypes.EventType_EventTypeMultiMemberGroupInitialMemberAnnounced || et == protocoltypes.EventType_EventTypeMultiMemberGroupInitialMemberAnnounced {
					continue
				}
				// the signature covers the payload bytes only: an earlier event whose payload happens to be byte-identical
				// (all other fields empty) is a genuinely signed payload, not a forgery in the sense of the statement
				if string(o.payload) == string(payload) {
					continue
				}
				// other type, this payload, signature of the earlier event
				env := c03Seal(k.g, et, payload, o.sigEnv)
				if _, _, err := openGroupEnvelope(k.g, env); err == nil {
					fail("forgery-accepted/replayed-signature", "%v event carrying the signature of an earlier genuine %v event of the same device was opened", et, o.et)
				}
				acct.Case(true, et.String()+"|replayed-sig-of|"+o.et.String(), func() any {
					return map[string]any{"kind": "envelope-forgery", "type": et.String(), "forgery": "signature of an earlier genuine " + o.et.String() + " event"}
				}, "forgery", "forgery/replayed-signature")
			}
			opened = append(opened, struct {
				et      protocoltypes.EventType
				payload []byte
				sigEnv  []byte
			}{et, payload, meta2.Sig})
			acct.Label("types/" + et.String())
		}
	})
}

// state half: forged envelopes appended to a real metadata log by a member; nothing of them reaches
// subscribers or the state, the honest sentinel that follows does.
func TestVerif_C03_Store(t *testing.T) {
	acct := vacct.Get("C03")
	vacct.RapidCheck(t, vacct.N(24, 1200), func(rt *rapid.T) {
		kind := rapid.SampledFrom([]string{"account", "multimember"}).Draw(rt, "kind")
		w := vNewReplica(t, "W", nil)
		defer w.close()
		var g *protocoltypes.Group
		var gsk crypto.PrivKey
		if kind == "account" {
			g = w.accountGroup(t)
		} else {
			g, gsk, _ = NewGroupMultiMember()
		}
		gc := w.open(t, g)
		defer gc.Close()
		m := gc.MetadataStore()
		if _, err := m.AddDeviceToGroup(vCtx); err != nil {
			rt.Fatalf("harness: %v", err)
		}
		subMeta, err := m.EventBus().Subscribe(new(*protocoltypes.GroupMetadataEvent))
		if err != nil {
			rt.Fatalf("harness: %v", err)
		}
		defer subMeta.Close()
		subRecv, err := m.EventBus().Subscribe(new(EventMetadataReceived))
		if err != nil {
			rt.Fatalf("harness: %v", err)
		}
		defer subRecv.Close()
		// an honest history first
		f := c04NewFixture()
		if kind == "account" {
			for _, op := range []c04Op{{Kind: "enqueue", C: 0, Meta: 1}, {Kind: "enable"}, {Kind: "join", C: 0}} {
				_, _ = c04Apply(gc, f, op)
			}
		} else {
			_, _ = m.ClaimGroupOwnership(vCtx, gsk)
		}
		before := vDumpGroupState(gc)
		// forged events that would change the state if applied, signed by somebody else than the named signer
		k := c03NewKeys()
		k.g, k.groupSK = g, gsk
		ownDev := vRawPK(gc.DevicePubKey())
		attacker, _, _ := crypto.GenerateEd25519Key(crand.Reader)
		sign := func(sk crypto.PrivKey, d []byte) []byte { s, _ := sk.Sign(d); return s }
		type forged struct {
			label string
			et    protocoltypes.EventType
			msg   proto.Message
			sig   func(p []byte) []byte
		}
		var fs []forged
		byAttacker := func(p []byte) []byte { return sign(attacker, p) }
		if kind == "account" {
			fs = append(fs,
				forged{"contact-blocked-named-own-device-signed-by-attacker", protocoltypes.EventType_EventTypeAccountContactBlocked, &protocoltypes.AccountContactBlocked{DevicePk: ownDev, ContactPk: vRawPK(f.contacts[0])}, byAttacker},
				forged{"requests-disabled-signed-by-attacker", protocoltypes.EventType_EventTypeAccountContactRequestDisabled, &protocoltypes.AccountContactRequestDisabled{DevicePk: ownDev}, byAttacker},
				forged{"group-left-unsigned", protocoltypes.EventType_EventTypeAccountGroupLeft, &protocoltypes.AccountGroupLeft{DevicePk: ownDev, GroupPk: f.invites[0].PublicKey}, func([]byte) []byte { return nil }},
				forged{"new-contact-received-signed-by-attacker", protocoltypes.EventType_EventTypeAccountContactRequestIncomingReceived, &protocoltypes.AccountContactRequestIncomingReceived{DevicePk: ownDev, ContactPk: vRawPK(f.contacts[2]), ContactRendezvousSeed: f.seeds[2]}, byAttacker},
				forged{"credential-signed-by-attacker", protocoltypes.EventType_EventTypeAccountVerifiedCredentialRegistered, &protocoltypes.AccountVerifiedCredentialRegistered{DevicePk: ownDev, Issuer: "evil"}, byAttacker},
			)
		} else {
			attMem, _, _ := crypto.GenerateEd25519Key(crand.Reader)
			fs = append(fs,
				forged{"member-device-added-member-sig-over-other-device", protocoltypes.EventType_EventTypeGroupMemberDeviceAdded,
					&protocoltypes.GroupMemberDeviceAdded{MemberPk: c03Pub(attMem), DevicePk: c03Pub(attacker), MemberSig: sign(attMem, ownDev)}, byAttacker},
				forged{"member-device-added-device-sig-by-member", protocoltypes.EventType_EventTypeGroupMemberDeviceAdded,
					&protocoltypes.GroupMemberDeviceAdded{MemberPk: c03Pub(attMem), DevicePk: c03Pub(attacker), MemberSig: sign(attMem, c03Pub(attacker))}, func(p []byte) []byte { return sign(attMem, p) }},
				forged{"initial-member-signed-by-device", protocoltypes.EventType_EventTypeMultiMemberGroupInitialMemberAnnounced,
					&protocoltypes.MultiMemberGroupInitialMemberAnnounced{MemberPk: c03Pub(attacker)}, byAttacker},
				forged{"chain-key-added-named-own-device-signed-by-attacker", protocoltypes.EventType_EventTypeGroupDeviceChainKeyAdded,
					&protocoltypes.GroupDeviceChainKeyAdded{DevicePk: ownDev, DestMemberPk: c03Pub(attMem), Payload: []byte("x")}, byAttacker},
			)
		}
		pick := fs[rapid.IntRange(0, len(fs)-1).Draw(rt, "forgery")]
		payload, _ := proto.Marshal(pick.msg)
		env := c03Seal(g, pick.et, payload, pick.sig(payload))
		// the forged entry is either appended on top of the victim's log, or written by a holder of the group secret on
		// a replica that has merged nothing of the victim's history (a concurrent branch with low Lamport times) and
		// then replicated to the victim
		arrival := rapid.SampledFrom([]string{"appended", "concurrent-branch", "covered-by-a-genuine-entry"}).Draw(rt, "arrival")
		var forgedID []byte
		if arrival == "appended" {
			e, err := m.AddOperation(vCtx, operation.NewOperation(nil, "ADD", env), nil)
			if err != nil {
				rt.Fatalf("harness: a member cannot append the forged entry: %v", err)
			}
			forgedID = e.GetHash().Bytes()
		} else {
			fr := vNewReplica(t, "F", w)
			defer fr.close()
			fgc := fr.open(t, g)
			defer fgc.Close()
			e, err := fgc.MetadataStore().AddOperation(vCtx, operation.NewOperation(nil, "ADD", env), nil)
			if err != nil {
				rt.Fatalf("harness: a member cannot write the forged entry on its own replica: %v", err)
			}
			if e.GetClock().GetTime() > 1 {
				rt.Fatalf("harness: the forger's branch is not concurrent (clock %d)", e.GetClock().GetTime())
			}
			n0 := m.OpLog().Len()
			head, extra := e, 0
			if arrival == "covered-by-a-genuine-entry" {
				// the forger puts a genuine entry of its own on top: the victim fetches both in one batch, the forged entry is
				// not a head of it
				cop, err := fgc.MetadataStore().SendAppMetadata(vCtx, []byte("cover"))
				if err != nil {
					rt.Fatalf("harness: %v", err)
				}
				head, extra = cop.GetEntry(), 1
			}
			if err := vDeliverMeta(gc, fgc, head); err != nil {
				rt.Fatalf("harness: %v", err)
			}
			if m.OpLog().Len() != n0+1+extra {
				rt.Fatalf("harness: the victim did not merge the forger's branch (%d -> %d entries)", n0, m.OpLog().Len())
			}
			forgedID = e.GetHash().Bytes()
			if mid := vDumpGroupState(gc); mid != before && extra == 0 {
				acct.Violation("store/forged-event-applied/concurrent-branch", "TestVerif_C03_Store", map[string]any{"group": kind, "forgery": pick.label, "msg": c04Diff(before, mid)})
				rt.Fatalf("C03 forged-event-applied/concurrent-branch: state changed by a forged entry (%s) replicated from a branch concurrent with the victim's history:\n%s", pick.label, c04Diff(before, mid))
			}
		}
		// dropped means: state unchanged, also while the forged entry is the newest one of the log (a later genuine
		// entry re-indexes everything and could repair a state the forged entry had damaged)
		if mid := vDumpGroupState(gc); mid != before {
			acct.Violation("store/forged-event-applied/while-newest", "TestVerif_C03_Store", map[string]any{"group": kind, "forgery": pick.label, "msg": c04Diff(before, mid)})
			rt.Fatalf("C03 forged-event-applied/while-newest: state changed by a forged entry (%s) that is the newest entry of the log:\n%s", pick.label, c04Diff(before, mid))
		}
		if err := m.Index().UpdateIndex(m.OpLog(), nil); err == nil {
			if mid := vDumpGroupState(gc); mid != before {
				acct.Violation("store/forged-event-applied/while-newest", "TestVerif_C03_Store", map[string]any{"group": kind, "forgery": pick.label, "msg": c04Diff(before, mid)})
				rt.Fatalf("C03 forged-event-applied/while-newest: re-indexing a log whose newest entry is forged (%s) changed the state:\n%s", pick.label, c04Diff(before, mid))
			}
		}
		// honest sentinel on the same ordered pipeline
		sop, err := m.SendAppMetadata(vCtx, []byte("sentinel"))
		if err != nil {
			rt.Fatalf("harness: %v", err)
		}
		sentinel := sop.GetEntry().GetHash().Bytes()
		fail := func(id, f string, a ...any) {
			msg := fmt.Sprintf(f, a...)
			acct.Violation("store/"+id, "TestVerif_C03_Store", map[string]any{"group": kind, "forgery": pick.label, "msg": msg})
			rt.Fatalf("C03 %s: %s", id, msg)
		}
		for _, sub := range []struct {
			name string
			ch   <-chan any
		}{{"GroupMetadataEvent", subMeta.Out()}, {"EventMetadataReceived", subRecv.Out()}} {
			deadline := time.After(20 * time.Second)
		loop:
			for {
				select {
				case ev := <-sub.ch:
					var id []byte
					switch v := ev.(type) {
					case *protocoltypes.GroupMetadataEvent:
						id = v.EventContext.Id
					case EventMetadataReceived:
						id = v.MetaEvent.EventContext.Id
					}
					if string(id) == string(forgedID) {
						fail("forged-event-delivered", "the forged entry (%s) was handed to subscribers as %s", pick.label, sub.name)
					}
					if string(id) == string(sentinel) {
						break loop
					}
				case <-deadline:
					rt.Fatalf("harness: sentinel event not seen within 20s on %s", sub.name)
				}
			}
		}
		// history replay (what GroupMetadataList subscribers and a re-activated group context are handed)
		for _, reverse := range []bool{false, true} {
			ch, err := m.ListEvents(vCtx, nil, nil, reverse)
			if err != nil {
				rt.Fatalf("harness: ListEvents: %v", err)
			}
			sawSentinel := false
			for ev := range ch {
				if ev == nil || ev.EventContext == nil {
					continue
				}
				if string(ev.EventContext.Id) == string(forgedID) {
					for range ch { // drain: the producer goroutine must not leak
					}
					fail("forged-event-delivered/history", "the forged entry (%s) was handed to history subscribers (ListEvents reverse=%v)", pick.label, reverse)
				}
				if string(ev.EventContext.Id) == string(sentinel) {
					sawSentinel = true
				}
			}
			if !sawSentinel {
				fail("genuine-event-missing/history", "the genuine sentinel event is missing from the history replay (reverse=%v)", reverse)
			}
		}
		if after := vDumpGroupState(gc); after != before {
			fail("forged-event-applied", "state changed by a forged entry (%s):\n%s", pick.label, c04Diff(before, after))
		}
		// still unchanged after re-indexing and on a replica that replays the log
		r := vNewReplica(t, "R", w)
		defer r.close()
		var rgc *GroupContext
		if kind == "account" {
			rgc = r.open(t, g)
		} else {
			rgc = r.open(t, g)
		}
		for _, h := range m.OpLog().Heads().Slice() {
			if err := vDeliverMeta(rgc, gc, h); err != nil {
				rt.Fatalf("harness: %v", err)
			}
		}
		if kind == "account" {
			if d := vDumpGroupState(rgc); d != before {
				fail("forged-event-applied/replica", "replica state shows the forged entry (%s):\n%s", pick.label, c04Diff(before, d))
			}
		}
		acct.Case(true, kind+"|"+pick.label+"|"+arrival, func() any {
			return map[string]any{"kind": "store-forgery", "group": kind, "forgery": pick.label, "arrival": arrival}
		}, "store", "store/"+kind, "store/forgery-"+arrival)
	})
}

// every event type number that the protocol does not define, carried by an envelope whose payload and signature are
// genuine for some defined type: refused at the gate, whatever the number
func TestVerif_C03_UnknownTypeNumbers(t *testing.T) {
	acct := vacct.Get("C03")
	known := map[int32]bool{}
	for n := range protocoltypes.EventType_name {
		known[n] = true
	}
	vacct.RapidCheck(t, vacct.N(1, 40), func(rt *rapid.T) {
		k := c03NewKeys()
		numbers := []int32{-1 << 31, -65536, -1000, 1<<31 - 1, 1 << 20, 65536, 65537, 4096}
		for n := int32(-8); n <= 2200; n++ {
			numbers = append(numbers, n)
		}
		tried := 0
		for _, et := range c03Types() {
			honest, payload, _, _ := c03Build(rt, k, et)
			if _, _, err := openGroupEnvelope(k.g, honest); err != nil {
				continue
			}
			meta := &protocoltypes.GroupMetadata{}
			{
				// the genuine signature of this payload
				m, _, err := openGroupEnvelope(k.g, honest)
				if err != nil {
					rt.Fatalf("harness: %v", err)
				}
				meta = m
			}
			for _, n := range numbers {
				if known[n] && n != 0 {
					continue
				}
				tried++
				env := c03Seal(k.g, protocoltypes.EventType(n), payload, meta.Sig)
				if _, _, err := openGroupEnvelope(k.g, env); err == nil {
					acct.Violation("forgery-accepted/unknown-type-number", "TestVerif_C03_UnknownTypeNumbers", map[string]any{"type_number": n, "payload_and_signature_of": et.String()})
					rt.Fatalf("C03 forgery-accepted/unknown-type-number: an envelope with the undefined event type number %d (payload and signature genuine for %v) passed the gate", n, et)
				}
			}
			acct.Case(true, fmt.Sprintf("unknown-numbers|%v", et), func() any {
				return map[string]any{"kind": "unknown-type-numbers", "payload_and_signature_of": et.String(), "numbers": len(numbers)}
			}, "unknown-type-sweep")
		}
		if tried == 0 {
			rt.Fatalf("harness: nothing tried")
		}
	})
}
