//go:build verif

package weshnet

import (
	"context"
	"fmt"
	"sort"
	"testing"

	peer "github.com/libp2p/go-libp2p/core/peer"
	"pgregory.net/rapid"

	"berty.tech/weshnet/v2/internal/vacct"
	"berty.tech/weshnet/v2/internal/vsched"
)

// C16, connectedness tracker: waiters loop on WaitForConnectednessChange with
// their own view while an updater associates peers and changes their status.

type c16TrackOp struct {
	Assoc  bool `json:"assoc"` // true: AssociatePeer(group, peer); false: UpdateState(peer, status)
	Group  int  `json:"group"`
	Peer   int  `json:"peer"`
	Status int  `json:"status"`
}

type c16TrackScenario struct {
	WaiterGroups []int        `json:"waiter_groups"`
	Ops          []c16TrackOp `json:"ops"`
	Cancel       bool         `json:"cancel"`
	Updaters     int          `json:"updaters"` // ops are dealt round-robin to this many updater goroutines (default 1)
}

func c16Peer(i int) peer.ID { return peer.ID(fmt.Sprintf("verif-peer-%d", i)) }

func c16TrackRun(t *testing.T, sc c16TrackScenario, choices []int) vsched.Outcome {
	var out vsched.Outcome
	var m *ConnectednessManager
	nw := len(sc.WaiterGroups)
	views := make([]PeersConnectedness, nw)
	exact := ""
	cancelled := false
	nu := sc.Updaters
	if nu < 1 {
		nu = 1
	}
	out.Res = vsched.Run(t, vsched.Options{Choices: choices, MaxSteps: 1500}, func(s *vsched.Sched) {
		m = NewConnectednessManager()
		ctxs := make([]context.Context, nw)
		cancels := make([]context.CancelFunc, nw)
		for i := range ctxs {
			ctxs[i], cancels[i] = context.WithCancel(context.Background())
		}
		shared := false
		for i, g := range sc.WaiterGroups {
			for j, h := range sc.WaiterGroups {
				if i != j && g == h {
					shared = true
				}
			}
		}
		for i, g := range sc.WaiterGroups {
			views[i] = PeersConnectedness{}
			gkey := fmt.Sprintf("group%d", g)
			s.Go(fmt.Sprintf("waiter%d", i), func() {
				var lastResult, lastCopy []peer.ID
				for {
					// the caller is still reading the list it was handed while other waiters of the group go on
					if shared {
						vsched.Yield("h:consume")
					}
					if fmt.Sprint(lastResult) != fmt.Sprint(lastCopy) && exact == "" {
						exact = fmt.Sprintf("waiter%d: the list it was handed, %v, reads %v after other tasks ran (before its next call)", i, lastCopy, lastResult)
					}
					before := PeersConnectedness{}
					for k, v := range views[i] {
						before[k] = v
					}
					updated, ok := m.WaitForConnectednessChange(ctxs[i], gkey, views[i])
					if !ok {
						return
					}
					var changed, got []string
					for k, v := range views[i] {
						if b, had := before[k]; !had || b != v {
							changed = append(changed, string(k))
						}
					}
					for _, p := range updated {
						got = append(got, string(p))
					}
					sort.Strings(changed)
					sort.Strings(got)
					if exact == "" && fmt.Sprint(changed) != fmt.Sprint(got) {
						exact = fmt.Sprintf("waiter%d: returned %v but entries changed for %v", i, got, changed)
					}
					if exact == "" && len(updated) == 0 {
						exact = fmt.Sprintf("waiter%d: returned ok with no updated peer", i)
					}
					lastResult, lastCopy = updated, append([]peer.ID(nil), updated...)
				}
			})
		}
		for u := 0; u < nu; u++ {
			s.Go(fmt.Sprintf("updater%d", u), func() {
				for k, op := range sc.Ops {
					if k%nu != u {
						continue
					}
					if op.Assoc {
						m.AssociatePeer(fmt.Sprintf("group%d", op.Group), c16Peer(op.Peer))
					} else {
						m.UpdateState(c16Peer(op.Peer), ConnectednessType(op.Status))
					}
				}
			})
		}
		if sc.Cancel {
			s.Go("canceller", func() {
				vsched.Yield("h:cancel")
				cancelled = true
				cancels[0]()
			})
		}
		s.Cleanup = func() {
			for _, cf := range cancels {
				cf()
			}
		}
	})
	out.Standard()
	if exact != "" {
		out.Fail("inexact-update", "%s", exact)
	}
	for u := 0; u < nu; u++ {
		if st := out.Res.Status(fmt.Sprintf("updater%d", u)); st != nil && st.State != "done" && !out.Res.Deadlock {
			out.Fail("updater-stuck", "updater did not finish: %+v", *st)
		}
	}
	slept := false
	for i, g := range sc.WaiterGroups {
		st := out.Res.Status(fmt.Sprintf("waiter%d", i))
		if st == nil || st.State != "blocked" {
			continue
		}
		slept = true
		if sg, ok := m.groupState[fmt.Sprintf("group%d", g)]; ok {
			for p := range sg.peers {
				ps, ok := m.peerState[p]
				if !ok {
					continue
				}
				if seen, ok := views[i][p]; !ok || seen != ps.status {
					out.Fail("missed-update", "waiter%d asleep at %s with a stale view of peer %s (seen %v/%v, tracker %v)", i, st.Point, p, seen, ok, ps.status)
				}
			}
		}
		if i == 0 && cancelled {
			out.Fail("cancel-ignored", "waiter0 still asleep at %s after cancellation", st.Point)
		}
	}
	out.NonTrivial = slept && c16TrackUpdateInWindow(out.Res)
	if out.NonTrivial {
		out.Labels = append(out.Labels, "tracker/update-between-check-and-sleep")
	}
	if sc.Cancel {
		out.Labels = append(out.Labels, "tracker/with-cancel")
	}
	return out
}

func c16TrackUpdateInWindow(r *vsched.Result) bool {
	lastW := map[string]int{}
	for i, st := range r.Trace {
		if len(st.G) >= 6 && st.G[:6] == "waiter" {
			if j, ok := lastW[st.G]; ok && len(st.Point) > 7 && st.Point[len(st.Point)-7:] == ":select" {
				for k := j + 1; k < i; k++ {
					if len(r.Trace[k].G) >= 7 && r.Trace[k].G[:7] == "updater" {
						return true
					}
				}
			}
			lastW[st.G] = i
		}
	}
	return false
}

func c16TrackScenarios() []c16TrackScenario {
	A := func(g, p int) c16TrackOp { return c16TrackOp{Assoc: true, Group: g, Peer: p} }
	U := func(p, s int) c16TrackOp { return c16TrackOp{Peer: p, Status: s} }
	scs := []c16TrackScenario{
		{WaiterGroups: []int{0}, Ops: []c16TrackOp{A(0, 1)}},
		{WaiterGroups: []int{0}, Ops: []c16TrackOp{A(0, 1), U(1, 2)}},
		{WaiterGroups: []int{0}, Ops: []c16TrackOp{U(1, 2), A(0, 1), U(1, 1)}},
		{WaiterGroups: []int{0}, Ops: []c16TrackOp{A(0, 1), U(1, 2)}, Cancel: true},
		{WaiterGroups: []int{0, 1}, Ops: []c16TrackOp{A(0, 1), A(1, 1), U(1, 2)}},
		{WaiterGroups: []int{0}, Ops: []c16TrackOp{A(0, 1), U(1, 2), A(0, 2)}, Updaters: 2},
		{WaiterGroups: []int{0, 0}, Ops: []c16TrackOp{A(0, 1), A(0, 2), U(1, 2)}},
		{WaiterGroups: []int{0, 0}, Ops: []c16TrackOp{A(0, 1), U(1, 2)}, Cancel: true}, // one of two waiters of a still empty group gives up
		// two updaters, each changing the status of one peer; the two peers share two groups
		{WaiterGroups: []int{0}, Ops: []c16TrackOp{A(0, 1), A(1, 2), A(1, 1), A(0, 2), U(1, 2), U(2, 2)}, Updaters: 2},
		{WaiterGroups: []int{}, Ops: []c16TrackOp{A(0, 1), A(0, 2), A(1, 1), A(1, 2), U(1, 2), U(2, 2)}, Updaters: 2},
	}
	if vacct.Thorough() {
		scs = append(scs,
			c16TrackScenario{WaiterGroups: []int{0, 0}, Ops: []c16TrackOp{A(0, 1), U(1, 2), U(1, 0)}},
			c16TrackScenario{WaiterGroups: []int{0, 1}, Ops: []c16TrackOp{A(0, 1), A(1, 2), U(1, 2), U(2, 1), A(1, 1)}, Cancel: true},
			c16TrackScenario{WaiterGroups: []int{0}, Ops: []c16TrackOp{A(0, 1), A(0, 2), U(1, 2), U(2, 2), U(1, 1)}, Updaters: 2},
		)
	}
	return scs
}

func TestVerif_C16_Tracker(t *testing.T) {
	e := &vsched.Explorer[c16TrackScenario]{PID: "C16", Prefix: "tracker", Test: "TestVerif_C16_Tracker", Run: c16TrackRun}
	if p := vacct.ReplayPath(); p != "" {
		e.Replay(t, p)
		return
	}
	maxRuns, maxPre := 5000, 3
	if vacct.Thorough() {
		maxRuns, maxPre = 300000, 6
	}
	shard, nshards := vacct.Shard()
	for i, sc := range c16TrackScenarios() {
		if i%nshards == shard {
			e.DFS(t, sc, maxPre, maxRuns)
		}
	}
}

func TestVerif_C16_TrackerRandom(t *testing.T) {
	e := &vsched.Explorer[c16TrackScenario]{PID: "C16", Prefix: "tracker", Test: "TestVerif_C16_TrackerRandom", Run: c16TrackRun}
	if p := vacct.ReplayPath(); p != "" {
		e.Replay(t, p)
		return
	}
	e.Random(t, vacct.N(400, 40000), func(rt *rapid.T) c16TrackScenario {
		sc := c16TrackScenario{WaiterGroups: rapid.SliceOfN(rapid.IntRange(0, 1), 1, 2).Draw(rt, "wg"), Cancel: rapid.Bool().Draw(rt, "cancel"),
			Updaters: rapid.IntRange(1, 2).Draw(rt, "updaters")}
		n := rapid.IntRange(1, 5).Draw(rt, "nops")
		for i := 0; i < n; i++ {
			sc.Ops = append(sc.Ops, c16TrackOp{Assoc: rapid.Bool().Draw(rt, "assoc"), Group: rapid.IntRange(0, 1).Draw(rt, "g"),
				Peer: rapid.IntRange(1, 2).Draw(rt, "p"), Status: rapid.IntRange(0, 2).Draw(rt, "s")})
		}
		return sc
	}, 300)
}
