//go:build verif

package weshnet

import (
	"testing"

	"pgregory.net/rapid"

	"berty.tech/weshnet/v2/internal/vacct"
	"berty.tech/weshnet/v2/internal/vsched"
)

// C02 at the layer that does the retrying ("provided a message that fails is retried after others have been opened"):
// the message store's pipeline with small receiver windows. Entries beyond the window, entries sealed before the
// registered counter and duplicates arrive in generated orders; every arrived message k with c < k <= c + window +
// (number opened) must end up delivered with its payload, the others stay parked. The scenario runner and its
// fixed-point oracle are C08's (c08Run); here the scenarios are about the window, not about scheduling.
func c02pScenarios() []c08Scenario {
	return []c08Scenario{
		// a message sealed before the announcement stays at the head of the parked queue while later ones become openable
		{Senders: []c08Sender{{5, 1}}, Window: 1, RegFirst: true, Batches: [][][2]int{{{0, 0}, {0, 3}, {0, 1}, {0, 2}}}},
		{Senders: []c08Sender{{6, 2}}, Window: 2, RegFirst: true, Batches: [][][2]int{{{0, 1}, {0, 0}, {0, 5}, {0, 4}}, {{0, 2}, {0, 3}}}},
		// everything beyond the window first, then in order
		{Senders: []c08Sender{{5, 0}}, Window: 1, RegFirst: true, Batches: [][][2]int{{{0, 4}, {0, 3}, {0, 2}}, {{0, 0}, {0, 1}}}},
		// duplicates of a parked message
		{Senders: []c08Sender{{4, 0}}, Window: 1, Batches: [][][2]int{{{0, 3}, {0, 3}, {0, 0}}, {{0, 1}, {0, 2}}}},
	}
}

func TestVerif_C02_Pipeline(t *testing.T) {
	e := &vsched.Explorer[c08Scenario]{PID: "C02", Prefix: "pipeline", Test: "TestVerif_C02_Pipeline", Run: c08Run}
	if p := vacct.ReplayPath(); p != "" {
		e.Replay(t, p)
		return
	}
	maxRuns, maxPre := 150, 1
	if vacct.Thorough() {
		maxRuns, maxPre = 6000, 2
	}
	shard, nshards := vacct.Shard()
	for i, sc := range c02pScenarios() {
		if i%nshards == shard {
			e.DFS(t, sc, maxPre, maxRuns)
		}
	}
}

func TestVerif_C02_PipelineRandom(t *testing.T) {
	e := &vsched.Explorer[c08Scenario]{PID: "C02", Prefix: "pipeline", Test: "TestVerif_C02_PipelineRandom", Run: c08Run}
	if p := vacct.ReplayPath(); p != "" {
		e.Replay(t, p)
		return
	}
	e.Random(t, vacct.N(120, 8000), func(rt *rapid.T) c08Scenario {
		sc := c08Scenario{RegFirst: rapid.IntRange(0, 3).Draw(rt, "regfirst") != 0, Window: rapid.IntRange(1, 3).Draw(rt, "window")}
		n := rapid.IntRange(3, 8).Draw(rt, "n")
		a := rapid.IntRange(0, min(3, n-1)).Draw(rt, "announce")
		sc.Senders = []c08Sender{{n, a}}
		var all [][2]int
		for i := 0; i < n; i++ {
			all = append(all, [2]int{0, i})
		}
		order := rapid.Permutation(all).Draw(rt, "order")
		for i := 0; i < rapid.IntRange(0, 2).Draw(rt, "dups"); i++ {
			order = append(order, all[rapid.IntRange(0, n-1).Draw(rt, "dup")])
		}
		nb := rapid.IntRange(1, 3).Draw(rt, "batches")
		sc.Batches = make([][][2]int, nb)
		for i, ref := range order {
			sc.Batches[i*nb/len(order)] = append(sc.Batches[i*nb/len(order)], ref)
		}
		return sc
	}, 200)
}
