//go:build verif

package weshnet

import (
	"fmt"
	"strings"
	"testing"
	"time"

	"github.com/libp2p/go-libp2p/core/crypto"
	"google.golang.org/protobuf/proto"
	"pgregory.net/rapid"

	"berty.tech/weshnet/v2/internal/vacct"
	"berty.tech/weshnet/v2/pkg/protocoltypes"
)

// C05, distribution half: once all metadata entries have been exchanged every active device holds the chain key of
// every other announced device, whatever the order in which devices joined and entries arrived.

type c05Dev struct {
	r        *vReplica
	gc       *GroupContext
	member   int
	active   bool
	contact  crypto.PubKey // contact groups: the other account
}

type c05Step struct {
	Kind string `json:"kind"` // activate | sync
	A    int    `json:"a"`
	B    int    `json:"b,omitempty"`
}

func c05LogLens(devs []*c05Dev) string {
	var sb strings.Builder
	for _, d := range devs {
		fmt.Fprintf(&sb, "%d/%d,", d.gc.MetadataStore().OpLog().Len(), d.gc.MessageStore().OpLog().Len())
	}
	return sb.String()
}

// c05Known renders who knows whose chain key
func c05Known(devs []*c05Dev, g *protocoltypes.Group) string {
	gpk, _ := g.GetPubKey()
	var sb strings.Builder
	for _, d := range devs {
		for _, o := range devs {
			if d.r.ss.IsChainKeyKnownForDevice(vCtx, gpk, o.gc.DevicePubKey()) {
				sb.WriteByte('1')
			} else {
				sb.WriteByte('0')
			}
		}
		sb.WriteByte('|')
	}
	return sb.String()
}

// c05Settle waits until nothing observable changes any more (log lengths and the key matrix), bounded by cap.
func c05Settle(devs []*c05Dev, g *protocoltypes.Group, quiet, cap time.Duration) {
	deadline := time.Now().Add(cap)
	last, since := "", time.Now()
	for time.Now().Before(deadline) {
		cur := c05LogLens(devs) + c05Known(devs, g)
		if cur != last {
			last, since = cur, time.Now()
		} else if time.Since(since) >= quiet {
			return
		}
		time.Sleep(10 * time.Millisecond)
	}
}

func c05SyncPair(src, dst *c05Dev) error {
	for _, h := range src.gc.MetadataStore().OpLog().Heads().Slice() {
		if err := vDeliverMeta(dst.gc, src.gc, h); err != nil {
			return err
		}
	}
	for _, h := range src.gc.MessageStore().OpLog().Heads().Slice() {
		if err := vDeliverMsg(dst.gc, src.gc, h); err != nil {
			return err
		}
	}
	return nil
}

func TestVerif_C05_Distribution(t *testing.T) {
	acct := vacct.Get("C05")
	vacct.RapidCheck(t, vacct.N(14, 500), func(rt *rapid.T) {
		kind := rapid.SampledFrom([]string{"multimember", "multimember", "contact", "contact", "account"}).Draw(rt, "kind")
		var devs []*c05Dev
		var reps []*vReplica
		defer func() {
			for _, d := range devs {
				_ = d.gc.Close()
			}
			for _, r := range reps {
				r.close()
			}
		}()
		var g *protocoltypes.Group
		newAccount := func(member, ndev int) []*c05Dev {
			var out []*c05Dev
			var first *vReplica
			for i := 0; i < ndev; i++ {
				r := vNewReplica(t, fmt.Sprintf("m%dd%d", member, i), first)
				if first == nil {
					first = r
				}
				reps = append(reps, r)
				out = append(out, &c05Dev{r: r, member: member})
			}
			return out
		}
		switch kind {
		case "multimember":
			g, _, _ = NewGroupMultiMember()
			nm := rapid.IntRange(2, 3).Draw(rt, "members")
			for m := 0; m < nm; m++ {
				devs = append(devs, newAccount(m, rapid.IntRange(1, 2).Draw(rt, "devices"))...)
			}
		case "contact":
			a := newAccount(0, rapid.IntRange(1, 2).Draw(rt, "devicesA"))
			b := newAccount(1, rapid.IntRange(1, 2).Draw(rt, "devicesB"))
			ask, _ := a[0].r.ss.GetAccountPrivateKey()
			bsk, _ := b[0].r.ss.GetAccountPrivateKey()
			g, _ = a[0].r.ss.GetGroupForContact(bsk.GetPublic())
			for _, d := range a {
				d.contact = bsk.GetPublic()
			}
			for _, d := range b {
				d.contact = ask.GetPublic()
			}
			devs = append(a, b...)
		default:
			a := newAccount(0, 2)
			g = a[0].r.accountGroup(t)
			devs = a
		}
		for _, d := range devs {
			d.gc = d.r.open(t, g)
		}
		// a generated plan: activations in a generated order, interleaved with pairwise syncs
		var plan []c05Step
		order := rapid.Permutation(func() []int {
			var ix []int
			for i := range devs {
				ix = append(ix, i)
			}
			return ix
		}()).Draw(rt, "activation-order")
		for _, i := range order {
			for k := 0; k < rapid.IntRange(0, 2).Draw(rt, "syncs"); k++ {
				plan = append(plan, c05Step{Kind: "sync", A: rapid.IntRange(0, len(devs)-1).Draw(rt, "from"), B: rapid.IntRange(0, len(devs)-1).Draw(rt, "to")})
			}
			plan = append(plan, c05Step{Kind: "activate", A: i})
			// what the device wrote while activating reaches another replica at once in half of the cases: that one may
			// not be active yet and then finds these entries already in its log when it activates (catch-up path)
			if len(devs) > 1 && rapid.Bool().Draw(rt, "push-after-activation") {
				to := rapid.IntRange(0, len(devs)-2).Draw(rt, "push-to")
				if to >= i {
					to++
				}
				plan = append(plan, c05Step{Kind: "sync", A: i, B: to})
			}
		}
		// in half of the cases one device deactivates the group some time after its activation (what the service's
		// DeactivateGroup does: close the group context; the stores are opened again but not activated), receives entries
		// meanwhile or not, and activates again at the end
		if rapid.Bool().Draw(rt, "reactivation") {
			c := rapid.IntRange(0, len(devs)-1).Draw(rt, "reactivated-device")
			at := 0
			for i, st := range plan {
				if st.Kind == "activate" && st.A == c {
					at = i + 1
				}
			}
			at += rapid.IntRange(0, len(plan)-at).Draw(rt, "deactivate-after")
			plan = append(plan[:at], append([]c05Step{{Kind: "deactivate", A: c}}, plan[at:]...)...)
			for k := 0; k < rapid.IntRange(0, 2).Draw(rt, "syncs-while-inactive"); k++ {
				from := rapid.IntRange(0, len(devs)-1).Draw(rt, "from-while-inactive")
				plan = append(plan, c05Step{Kind: "sync", A: from, B: c})
			}
			plan = append(plan, c05Step{Kind: "activate", A: c})
		}
		var trace []string
		aloneAtActivation, lateSecondDevice, entriesBeforeActivation := false, false, false
		reactivated, reactivatedAfterNewcomer := false, false
		activatedWhileAway := map[int]bool{}
		away := -1
		for _, st := range plan {
			switch st.Kind {
			case "sync":
				if st.A == st.B {
					continue
				}
				if devs[st.A].active && !devs[st.B].active {
					entriesBeforeActivation = true
				}
				if err := c05SyncPair(devs[st.A], devs[st.B]); err != nil {
					rt.Fatalf("harness: %v", err)
				}
				trace = append(trace, fmt.Sprintf("sync %s->%s", devs[st.A].r.name, devs[st.B].r.name))
			case "deactivate":
				d := devs[st.A]
				if err := d.gc.Close(); err != nil {
					rt.Fatalf("harness: closing the group context of %s: %v", d.r.name, err)
				}
				d.gc = d.r.open(t, g)
				d.active = false
				away = st.A
				trace = append(trace, "deactivate "+d.r.name)
			case "activate":
				d := devs[st.A]
				if away == st.A {
					reactivated = true
					reactivatedAfterNewcomer = len(activatedWhileAway) > 0
					away = -1
				} else if away >= 0 {
					activatedWhileAway[st.A] = true
				}
				if len(d.gc.MetadataStore().ListMembers()) == 0 {
					aloneAtActivation = true
				}
				for _, o := range devs {
					if o != d && o.member == d.member && o.active {
						lateSecondDevice = true
					}
				}
				done := make(chan error, 1)
				go func() { done <- d.gc.ActivateGroupContext(d.contact) }()
				select {
				case err := <-done:
					if err != nil {
						rt.Fatalf("harness: activation of %s failed: %v", d.r.name, err)
					}
				case <-time.After(30 * time.Second):
					rt.Fatalf("harness: activation of %s did not return", d.r.name)
				}
				d.active = true
				trace = append(trace, "activate "+d.r.name)
			}
			c05Settle(devs, g, 60*time.Millisecond, 5*time.Second)
		}
		// exchange everything until no log grows any more
		for round := 0; round < 20; round++ {
			before := c05LogLens(devs)
			for i := range devs {
				for j := range devs {
					if i != j {
						if err := c05SyncPair(devs[i], devs[j]); err != nil {
							rt.Fatalf("harness: %v", err)
						}
					}
				}
			}
			c05Settle(devs, g, 150*time.Millisecond, 10*time.Second)
			if c05LogLens(devs) == before {
				break
			}
		}
		// completeness; an incomplete matrix gets a long grace period before it is judged
		complete := func() bool { return !strings.Contains(c05Known(devs, g), "0") }
		if !complete() {
			c05Settle(devs, g, 3*time.Second, 20*time.Second)
		}
		fail := func(id, f string, a ...any) {
			msg := fmt.Sprintf(f, a...)
			acct.Violation("distribution/"+id, "TestVerif_C05_Distribution", map[string]any{"group": kind, "devices": len(devs), "plan": trace, "known_matrix": c05Known(devs, g), "msg": msg})
			rt.Fatalf("C05 %s: %s\nplan: %v", id, msg, trace)
		}
		if !complete() {
			var names []string
			for _, d := range devs {
				names = append(names, d.r.name)
			}
			fail("incomplete-keys", "after all entries were exchanged some device does not hold the chain key of another announced device; devices %v, matrix (row knows column) %s", names, c05Known(devs, g))
		}
		// one message sealed by each device opens on all others
		for i, d := range devs {
			payload := []byte(fmt.Sprintf("from-%s", d.r.name))
			op, err := d.gc.MessageStore().AddMessage(vCtx, payload)
			if err != nil {
				rt.Fatalf("harness: AddMessage: %v", err)
			}
			e := op.GetEntry()
			for j, o := range devs {
				if i == j {
					continue
				}
				if err := vDeliverMsg(o.gc, d.gc, e); err != nil {
					rt.Fatalf("harness: %v", err)
				}
				ev, err := o.gc.MessageStore().openMessage(vCtx, e)
				if err != nil {
					fail("message-not-openable", "a message sealed by %s after the exchange does not open on %s: %v", d.r.name, o.r.name, err)
				}
				if string(ev.Message) != string(payload) {
					fail("message-wrong", "message of %s opens to other content on %s", d.r.name, o.r.name)
				}
			}
		}
		nt := aloneAtActivation || lateSecondDevice || entriesBeforeActivation || reactivated
		acct.Case(nt, kind+"|"+strings.Join(trace, ","), func() any {
			return map[string]any{"kind": "distribution", "group": kind, "devices": len(devs), "plan": trace}
		}, "distribution", "distribution/"+kind, lbl07(aloneAtActivation, "distribution/activated-before-seeing-anyone"), lbl07(lateSecondDevice, "distribution/second-device-after-secrets"), lbl07(entriesBeforeActivation, "distribution/entries-received-before-activation"), lbl07(entriesBeforeActivation && kind == "contact", "distribution/contact-entries-before-activation"),
			lbl07(reactivated, "distribution/reactivation"), lbl07(reactivatedAfterNewcomer, "distribution/reactivation-after-somebody-joined"))
	})
}

var _ = proto.Marshal
