//go:build verif

package weshnet

import (
	"encoding/json"
	"fmt"
	"sync"
	"testing"

	"pgregory.net/rapid"

	ipfslog "berty.tech/go-ipfs-log"
	ipliface "berty.tech/go-ipfs-log/iface"
	"berty.tech/weshnet/v2/internal/vacct"
	"berty.tech/weshnet/v2/internal/vsched"
)

// C04 under controlled schedules: the base store re-indexes a metadata store from several tasks without a common
// lock (the writer's task after an append, the store's main loop after a replicated batch, a load). Whatever the
// interleaving of the passes, once they are all over the state is the state of the entries the log holds: every
// pass starts after the log change it belongs to, and the index lock orders the passes.
//
// The histories are real: the snapshots of the log (its ordered view after each appended entry) are taken from a
// real account metadata store outside the controlled run; inside, the log handed to UpdateIndex answers Values()
// with the snapshot that is current at that instant, and a "write" makes the next snapshot current before it
// re-indexes, as AddOperation does.

type c04cScenario struct {
	Ops    []c04Op `json:"ops"`    // history (one writer) on the account group
	Start  int     `json:"start"`  // number of appended entries already indexed when the schedule starts
	Passes int     `json:"passes"` // re-index passes of the second task (1-2)
}

type c04cWorld struct {
	w     *vReplica
	gc    *GroupContext
	snaps []ipliface.IPFSLogOrderedEntries // snaps[k] = ordered view of the log holding k appended entries
	trace []string
}

type c04cLog struct {
	ipfslog.Log
	cur func() ipliface.IPFSLogOrderedEntries
}

func (l *c04cLog) Values() ipliface.IPFSLogOrderedEntries { return l.cur() }

var (
	c04cMu     sync.Mutex
	c04cWorlds = map[string]*c04cWorld{}
)

func c04cCloseAll() {
	c04cMu.Lock()
	defer c04cMu.Unlock()
	for k, x := range c04cWorlds {
		_ = x.gc.Close()
		x.w.close()
		delete(c04cWorlds, k)
	}
}

func c04cWorldFor(t *testing.T, ops []c04Op) (*c04cWorld, error) {
	key, _ := json.Marshal(ops)
	c04cMu.Lock()
	defer c04cMu.Unlock()
	if x, ok := c04cWorlds[string(key)]; ok {
		return x, nil
	}
	if len(c04cWorlds) >= 8 { // keep few stores open at a time
		for k, x := range c04cWorlds {
			_ = x.gc.Close()
			x.w.close()
			delete(c04cWorlds, k)
		}
	}
	x := &c04cWorld{}
	x.w = vNewReplica(t, "W", nil)
	x.gc = x.w.open(t, x.w.accountGroup(t))
	base := x.gc.MetadataStore().OpLog().Len()
	if base != 0 {
		return nil, fmt.Errorf("fresh account log holds %d entries", base)
	}
	x.snaps = append(x.snaps, x.gc.MetadataStore().OpLog().Values())
	f := c04NewFixture()
	for _, op := range ops {
		appended, err := c04Apply(x.gc, f, op)
		x.trace = append(x.trace, fmt.Sprintf("%s -> appended=%v err=%v", op, appended, err != nil))
		if appended {
			x.snaps = append(x.snaps, x.gc.MetadataStore().OpLog().Values())
		}
	}
	for k, s := range x.snaps {
		if s.Len() != k {
			return nil, fmt.Errorf("snapshot %d holds %d entries", k, s.Len())
		}
	}
	c04cWorlds[string(key)] = x
	return x, nil
}

func c04cRun(t *testing.T, sc c04cScenario, choices []int) vsched.Outcome {
	var out vsched.Outcome
	x, err := c04cWorldFor(t, sc.Ops)
	if err != nil {
		out.Res = &vsched.Result{}
		out.Fail("harness-world", "%v", err)
		return out
	}
	last := len(x.snaps) - 1
	start := sc.Start
	if start > last {
		start = last
	}
	m := x.gc.MetadataStore()
	idx := m.Index()
	cur := start
	fake := &c04cLog{Log: m.OpLog(), cur: func() ipliface.IPFSLogOrderedEntries { return x.snaps[cur] }}
	if err := idx.UpdateIndex(fake, nil); err != nil {
		out.Res = &vsched.Result{}
		out.Fail("harness-index", "indexing the first %d entries: %v", start, err)
		return out
	}
	var errs []string
	out.Res = vsched.Run(t, vsched.Options{Choices: choices, MaxSteps: 400}, func(s *vsched.Sched) {
		s.Go("writer", func() {
			for k := start + 1; k <= last; k++ {
				vsched.Yield("h:append")
				cur = k // the entry is in the log before the writer re-indexes
				if err := idx.UpdateIndex(fake, nil); err != nil {
					errs = append(errs, err.Error())
				}
			}
		})
		s.Go("replication", func() {
			for p := 0; p < sc.Passes; p++ {
				vsched.Yield("h:batch")
				if err := idx.UpdateIndex(fake, nil); err != nil {
					errs = append(errs, err.Error())
				}
			}
		})
	})
	out.Standard()
	for _, name := range []string{"writer", "replication"} {
		if st := out.Res.Status(name); st != nil && st.State != "done" {
			out.Fail(name+"-stuck", "%s did not finish: %+v", name, *st)
		}
	}
	if len(errs) > 0 {
		out.Fail("reindex-error", "UpdateIndex: %s", errs[0])
	}
	got := vDumpGroupState(x.gc)
	cur = last
	if err := idx.UpdateIndex(fake, nil); err != nil {
		out.Fail("reindex-error", "UpdateIndex: %v", err)
	}
	want := vDumpGroupState(x.gc)
	if got != want {
		out.Fail("state-not-of-held-entries", "after overlapping index passes the store holding %d entries reports a state that re-indexing the same log changes (history %v, %d already indexed):\n%s",
			last, x.trace, start, c04Diff(want, got))
	}
	// non-trivial: the entries indexed during the schedule change the resettable state, and passes overlapped
	cur = start
	_ = idx.UpdateIndex(fake, nil)
	before := vDumpGroupState(x.gc)
	overlap := false
	lastG := ""
	switches := 0
	for _, st := range out.Res.Trace {
		if lastG != "" && st.G != lastG {
			switches++
		}
		lastG = st.G
	}
	overlap = switches >= 2
	out.NonTrivial = before != want && overlap && last > start
	if out.NonTrivial {
		out.Labels = append(out.Labels, "index/overlapping-passes-over-a-changing-log")
	}
	return out
}

func TestVerifCtl_C04_IndexPasses(t *testing.T) {
	e := &vsched.Explorer[c04cScenario]{PID: "C04", Prefix: "index", Test: "TestVerifCtl_C04_IndexPasses", Run: c04cRun}
	t.Cleanup(c04cCloseAll)
	if p := vacct.ReplayPath(); p != "" {
		e.Replay(t, p)
		return
	}
	scs := []c04cScenario{
		{Ops: []c04Op{{Kind: "disable"}, {Kind: "enable"}}, Start: 1, Passes: 1},
		{Ops: []c04Op{{Kind: "enqueue", C: 0, Meta: 1}, {Kind: "join", C: 0}, {Kind: "enable"}}, Start: 1, Passes: 2},
		{Ops: []c04Op{{Kind: "incoming", C: 1}, {Kind: "accept", C: 1}, {Kind: "block", C: 1}, {Kind: "leave", C: 0}}, Start: 2, Passes: 1},
	}
	maxRuns, maxPre := 3000, 3
	if vacct.Thorough() {
		scs = append(scs,
			c04cScenario{Ops: []c04Op{{Kind: "enable"}, {Kind: "refreset"}, {Kind: "disable"}, {Kind: "cred"}}, Start: 0, Passes: 2},
			c04cScenario{Ops: []c04Op{{Kind: "join", C: 0}, {Kind: "join", C: 1}, {Kind: "leave", C: 0}, {Kind: "enqueue", C: 0}, {Kind: "sent", C: 0}}, Start: 2, Passes: 2})
		maxRuns, maxPre = 100000, 6
	}
	shard, nshards := vacct.Shard()
	for i, sc := range scs {
		if i%nshards == shard {
			e.DFS(t, sc, maxPre, maxRuns)
		}
	}
}

func TestVerifCtl_C04_IndexPassesRandom(t *testing.T) {
	e := &vsched.Explorer[c04cScenario]{PID: "C04", Prefix: "index", Test: "TestVerifCtl_C04_IndexPassesRandom", Run: c04cRun}
	t.Cleanup(c04cCloseAll)
	if p := vacct.ReplayPath(); p != "" {
		e.Replay(t, p)
		return
	}
	e.Random(t, vacct.N(40, 6000), func(rt *rapid.T) c04cScenario {
		var sc c04cScenario
		for i, n := 0, rapid.IntRange(2, 6).Draw(rt, "n"); i < n; i++ {
			sc.Ops = append(sc.Ops, c04GenOp(rt, 1))
		}
		sc.Start = rapid.IntRange(0, len(sc.Ops)-1).Draw(rt, "start")
		sc.Passes = rapid.IntRange(1, 2).Draw(rt, "passes")
		return sc
	}, 60)
}
