//go:build verif

package weshnet

import (
	ipfslog "berty.tech/go-ipfs-log"
	"context"
	"errors"
	"fmt"
	"testing"
	"time"

	"github.com/ipfs/go-cid"
	"google.golang.org/grpc/metadata"
	"pgregory.net/rapid"

	"berty.tech/weshnet/v2/internal/vacct"
	"berty.tech/weshnet/v2/pkg/protocoltypes"
)

// C13 through the GroupMetadataList / GroupMessageList RPCs: the same cube of (since, until, reverse) as on the store
// API. until = none is sent as until_now (a listing, not a subscription).

var errC13Harness = errors.New("harness")

type c13Stream[T any] struct {
	ctx    context.Context
	cancel context.CancelFunc
	got    []*T
	stopAt int // the client goes away shortly after this many replies (listings bounded by until_id never end by themselves)
}

func (s *c13Stream[T]) Send(m *T) error {
	s.got = append(s.got, m)
	if s.stopAt > 0 && len(s.got) == s.stopAt {
		go func() { time.Sleep(50 * time.Millisecond); s.cancel() }() // events beyond the range would arrive within microseconds
	}
	return nil
}
func (s *c13Stream[T]) SetHeader(metadata.MD) error  { return nil }
func (s *c13Stream[T]) SendHeader(metadata.MD) error { return nil }
func (s *c13Stream[T]) SetTrailer(metadata.MD)       {}
func (s *c13Stream[T]) Context() context.Context     { return s.ctx }
func (s *c13Stream[T]) SendMsg(any) error            { return nil }
func (s *c13Stream[T]) RecvMsg(any) error            { return fmt.Errorf("no client messages") }

// c13RPCLister: order = the oldest-first identifiers (needed to know when a listing bounded by until_id is complete)
func c13RPCLister[T any](order []cid.Cid, call func(since, until []byte, untilNow, reverse bool, st *c13Stream[T]) error, id func(*T) []byte) c13Lister {
	pos := func(b []byte) int {
		for i, c := range order {
			if string(c.Bytes()) == string(b) {
				return i
			}
		}
		return -1
	}
	return func(since, until []byte, reverse bool) ([]string, error) {
		ctx, cancel := context.WithCancel(vCtx)
		defer cancel()
		st := &c13Stream[T]{ctx: ctx, cancel: cancel}
		if until != nil {
			lo, hi := 0, pos(until)
			if since != nil {
				lo = pos(since)
			}
			if lo >= 0 && hi >= lo {
				st.stopAt = hi - lo + 1
			}
		}
		done := make(chan error, 1)
		go func() { done <- call(since, until, until == nil, reverse, st) }()
		var err error
		select {
		case err = <-done:
		case <-time.After(30 * time.Second):
			cancel()
			<-done
			return nil, fmt.Errorf("%w: the RPC neither failed nor ended within 30s (%d events received, %d expected)", errC13Harness, len(st.got), st.stopAt)
		}
		if err != nil {
			return nil, err
		}
		var out []string
		for _, e := range st.got {
			_, c, err := cid.CidFromBytes(id(e))
			if err != nil {
				return nil, fmt.Errorf("%w: bad event id", errC13Harness)
			}
			out = append(out, c.String())
		}
		return out, nil
	}
}

func TestVerif_C13_RPC(t *testing.T) {
	acct := vacct.Get("C13")
	vacct.RapidCheck(t, vacct.N(5, 600), func(rt *rapid.T) {
		tp, cleanup := NewTestingProtocol(vCtx, t, nil, nil)
		defer cleanup()
		svc := tp.Service.(*service)
		rep, err := svc.MultiMemberGroupCreate(vCtx, &protocoltypes.MultiMemberGroupCreate_Request{})
		if err != nil {
			rt.Fatalf("harness: %v", err)
		}
		gpk := rep.GroupPk
		if _, err := svc.ActivateGroup(vCtx, &protocoltypes.ActivateGroup_Request{GroupPk: gpk}); err != nil {
			rt.Fatalf("harness: %v", err)
		}
		n := rapid.IntRange(0, 6).Draw(rt, "n")
		var sentMsg, sentMeta []string
		for i := 0; i < n; i++ {
			r, err := svc.AppMessageSend(vCtx, &protocoltypes.AppMessageSend_Request{GroupPk: gpk, Payload: []byte(fmt.Sprintf("m%d", i))})
			if err != nil {
				rt.Fatalf("harness: %v", err)
			}
			_, c, _ := cid.CidFromBytes(r.Cid)
			sentMsg = append(sentMsg, c.String())
			r2, err := svc.AppMetadataSend(vCtx, &protocoltypes.AppMetadataSend_Request{GroupPk: gpk, Payload: []byte(fmt.Sprintf("d%d", i))})
			if err != nil {
				rt.Fatalf("harness: %v", err)
			}
			_, c2, _ := cid.CidFromBytes(r2.Cid)
			sentMeta = append(sentMeta, c2.String())
		}
		cg, err := svc.GetContextGroupForID(gpk)
		if err != nil {
			rt.Fatalf("harness: %v", err)
		}
		// in three quarters of the cases another member's concurrent branch reaches this node (entries fetched, heads exchanged)
		// and nothing is written on top of it: both logs have two heads while they are listed
		forked := false
		if n > 0 && rapid.IntRange(0, 3).Draw(rt, "foreign-branch") != 0 {
			w2 := vNewReplica(t, "W2", nil)
			defer w2.close()
			gc2 := w2.open(t, cg.Group())
			defer gc2.Close()
			var lastMeta, lastMsg ipfslog.Entry
			for i := 0; i < rapid.IntRange(1, 3).Draw(rt, "foreign-entries"); i++ {
				op, err := gc2.MetadataStore().SendAppMetadata(vCtx, []byte(fmt.Sprintf("other member %d", i)))
				if err != nil {
					rt.Fatalf("harness: %v", err)
				}
				lastMeta = op.GetEntry()
				op2, err := gc2.MessageStore().AddMessage(vCtx, []byte(fmt.Sprintf("other member %d", i)))
				if err != nil {
					rt.Fatalf("harness: %v", err)
				}
				lastMsg = op2.GetEntry()
			}
			for _, l := range []ipfslog.Log{gc2.MetadataStore().OpLog(), gc2.MessageStore().OpLog()} {
				for _, e := range l.GetEntries().Slice() {
					nd, err := vSharedNode(t).API().Dag().Get(vCtx, e.GetHash())
					if err != nil {
						rt.Fatalf("harness: %v", err)
					}
					if err := svc.ipfsCoreAPI.Dag().Add(vCtx, nd); err != nil {
						rt.Fatalf("harness: %v", err)
					}
				}
			}
			if err := vSync(cg.metadataStore, lastMeta); err != nil {
				rt.Fatalf("harness: %v", err)
			}
			if err := vSync(cg.messageStore, lastMsg); err != nil {
				rt.Fatalf("harness: %v", err)
			}
			forked = cg.metadataStore.OpLog().Heads().Len() >= 2
		}
		// wait until the metadata log is quiet (activation appends its own entries asynchronously)
		last, since := -1, time.Now()
		for deadline := time.Now().Add(10 * time.Second); time.Now().Before(deadline); time.Sleep(20 * time.Millisecond) {
			if l := cg.MetadataStore().OpLog().Len(); l != last {
				last, since = l, time.Now()
			} else if time.Since(since) > 800*time.Millisecond {
				break
			}
		}
		// reference order: the store listing (itself checked against the write order by TestVerif_C13_Listings);
		// the entries written here must appear in it in write order
		toCids := func(l c13Lister, mine []string, what string) []cid.Cid {
			all, err := l(nil, nil, false)
			if err != nil {
				rt.Fatalf("harness: store listing failed: %v", err)
			}
			var out []cid.Cid
			k := 0
			for _, s := range all {
				c, _ := cid.Decode(s)
				out = append(out, c)
				if k < len(mine) && mine[k] == s {
					k++
				}
			}
			if k != len(mine) {
				acct.Violation("wrong-listing/rpc-reference", "TestVerif_C13_RPC", map[string]any{"msg": what + ": the entries written through the RPCs are not listed in write order by the store"})
				rt.Fatalf("C13: %s: entries written through the RPCs are not listed in write order", what)
			}
			return out
		}
		metaOrder := toCids(c13MetaLister(cg), sentMeta, "metadata")
		msgOrder := toCids(c13MsgLister(cg), sentMsg, "messages")
		count := func(nt bool, key string) {
			acct.Case(nt, fmt.Sprintf("rpc|%d|%s", n, key), func() any { return map[string]any{"kind": "listing-rpc", "entries_written": n, "query": key} }, "rpc-listing", lbl07(nt, "rpc-listing/both-bounds-n>=3"), lbl07(forked, "rpc-listing/log-with-two-heads"))
		}
		metaRPC := c13RPCLister(metaOrder, func(s, u []byte, untilNow, rev bool, st *c13Stream[protocoltypes.GroupMetadataEvent]) error {
			return svc.GroupMetadataList(&protocoltypes.GroupMetadataList_Request{GroupPk: gpk, SinceId: s, UntilId: u, UntilNow: untilNow, ReverseOrder: rev}, st)
		}, func(e *protocoltypes.GroupMetadataEvent) []byte { return e.GetEventContext().GetId() })
		msgRPC := c13RPCLister(msgOrder, func(s, u []byte, untilNow, rev bool, st *c13Stream[protocoltypes.GroupMessageEvent]) error {
			return svc.GroupMessageList(&protocoltypes.GroupMessageList_Request{GroupPk: gpk, SinceId: s, UntilId: u, UntilNow: untilNow, ReverseOrder: rev}, st)
		}, func(e *protocoltypes.GroupMessageEvent) []byte { return e.GetEventContext().GetId() })
		logLens := func() int { return cg.MetadataStore().OpLog().Len() + cg.MessageStore().OpLog().Len() }
		len0 := logLens()
		for _, c := range []struct {
			what string
			l    c13Lister
			ord  []cid.Cid
		}{{"metadata/rpc", metaRPC, metaOrder}, {"messages/rpc", msgRPC, msgOrder}} {
			id, msg := c13CheckCube(c.l, c.ord, c.what, count)
			if id == "harness" {
				rt.Fatalf("harness: %s", msg)
			}
			if id != "" && logLens() != len0 {
				// the service appended an entry of its own while the cube ran: the reference order is out of date
				rt.Fatalf("harness: the log grew during the listing cube (%d -> %d entries): %s", len0, logLens(), msg)
			}
			if id != "" {
				acct.Violation(id+"/"+c.what, "TestVerif_C13_RPC", map[string]any{"entries_written": n, "msg": msg})
				rt.Fatalf("C13 %s: %s", id, msg)
			}
		}
	})
}
