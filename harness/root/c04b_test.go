//go:build verif

package weshnet

import (
	"encoding/json"
	"fmt"
	"strings"
	"testing"

	"github.com/libp2p/go-libp2p/core/crypto"
	"pgregory.net/rapid"

	"berty.tech/weshnet/v2/internal/vacct"
	"berty.tech/weshnet/v2/pkg/protocoltypes"
)

// C04 for multi-member and contact groups: device announcements, ownership claim,
// secrets, alias keys, app metadata written by several devices, compared across
// replicas, re-indexing and reopen.

type c04gOp struct {
	W    int    `json:"w"`
	Kind string `json:"kind"` // adddevice claim secret meta alias aliasproof xsync
	To   int    `json:"to,omitempty"`
}

func (o c04gOp) String() string {
	if o.Kind == "secret" {
		return fmt.Sprintf("w%d:secret(->w%d)", o.W, o.To)
	}
	return fmt.Sprintf("w%d:%s", o.W, o.Kind)
}

func c04gRun(t *testing.T, contact bool, nWriters int, sameAccount bool, ops []c04gOp, reindex int) *c04Result {
	res := &c04Result{labels: map[string]bool{}}
	var reps []*vReplica
	defer func() {
		for _, r := range reps {
			r.close()
		}
	}()
	a := vNewReplica(t, "A", nil)
	reps = append(reps, a)
	var g *protocoltypes.Group
	var gsk crypto.PrivKey
	writers := []*vReplica{a}
	if contact {
		b := vNewReplica(t, "B", nil)
		reps = append(reps, b)
		bsk, err := b.ss.GetAccountPrivateKey()
		if err != nil {
			res.harnessFail("%v", err)
			return res
		}
		g, err = a.ss.GetGroupForContact(bsk.GetPublic())
		if err != nil {
			res.harnessFail("%v", err)
			return res
		}
		writers = append(writers, b)
		if sameAccount {
			// a second device of A writes in the one-to-one group too
			a2 := vNewReplica(t, "A2", a)
			reps = append(reps, a2)
			writers = append(writers, a2)
			res.labels["g/contact-group-second-device-writes"] = true
		}
		nWriters = len(writers)
	} else {
		var err error
		g, gsk, err = NewGroupMultiMember()
		if err != nil {
			res.harnessFail("%v", err)
			return res
		}
		for i := 1; i < nWriters; i++ {
			var from *vReplica
			if sameAccount && i == 1 {
				from = a
			}
			r := vNewReplica(t, fmt.Sprintf("W%d", i), from)
			reps = append(reps, r)
			writers = append(writers, r)
		}
	}
	gcs := make([]*GroupContext, len(writers))
	for i, w := range writers {
		gcs[i] = w.open(t, g)
	}
	syncAll := func() bool {
		for round := 0; round < 2; round++ {
			for i := range gcs {
				for j := range gcs {
					if i == j {
						continue
					}
					for _, h := range gcs[i].MetadataStore().OpLog().Heads().Slice() {
						if err := vDeliverMeta(gcs[j], gcs[i], h); err != nil {
							res.harnessFail("sync: %v", err)
							return false
						}
					}
				}
			}
		}
		return true
	}
	for _, op := range ops {
		if op.W >= len(gcs) {
			op.W %= len(gcs)
		}
		m := gcs[op.W].MetadataStore()
		before := m.OpLog().Len()
		var err error
		switch op.Kind {
		case "xsync":
			if !syncAll() {
				return res
			}
			res.trace = append(res.trace, "xsync")
			continue
		case "adddevice":
			_, err = m.AddDeviceToGroup(vCtx)
		case "claim":
			if gsk != nil {
				_, err = m.ClaimGroupOwnership(vCtx, gsk)
			}
		case "secret":
			_, err = m.SendSecret(vCtx, gcs[op.To%len(gcs)].MemberPubKey())
		case "meta":
			_, err = m.SendAppMetadata(vCtx, []byte("app"))
		case "alias":
			// callers announce their device before anything else (ActivateGroupContext does);
			// an alias key of an unannounced device makes the index fail as a whole
			if _, err = m.AddDeviceToGroup(vCtx); err == nil {
				_, err = m.ContactSendAliasKey(vCtx)
			}
		case "aliasproof":
			_, err = m.SendAliasProof(vCtx)
		}
		res.trace = append(res.trace, fmt.Sprintf("%s -> appended=%v err=%v", op, m.OpLog().Len() > before, err != nil))
	}
	if !syncAll() {
		return res
	}
	set := vCIDSet(gcs[0].MetadataStore().OpLog())
	for i := range gcs {
		if vCIDSet(gcs[i].MetadataStore().OpLog()) != set {
			res.harnessFail("writers do not hold the same entries after the final exchange")
			return res
		}
	}
	n := gcs[0].MetadataStore().OpLog().Len()
	// what a replica reports that does not depend on whose replica it is
	common := func(gc *GroupContext) string {
		var keep []string
		for _, l := range strings.Split(vDumpGroupState(gc), "\n") {
			if strings.HasPrefix(l, "alias ") {
				continue // own/other alias is relative to the member
			}
			keep = append(keep, l)
		}
		return strings.Join(keep, "\n")
	}
	// what is relative to the member (alias keys: own sent / the other side's) is the same on all devices of one account
	aliasOf := func(gc *GroupContext) string {
		for _, l := range strings.Split(vDumpGroupState(gc), "\n") {
			if strings.HasPrefix(l, "alias ") {
				return l
			}
		}
		return ""
	}
	if contact && len(gcs) == 3 {
		if a1, a2 := aliasOf(gcs[0]), aliasOf(gcs[2]); a1 != a2 {
			res.fail("replicas-diverge/devices-of-one-account", "two devices of one account holding the same %d entries of their one-to-one group report different alias key state: %q vs %q", n, a1, a2)
			return res
		}
	}
	base := common(gcs[0])
	for i := 1; i < len(gcs); i++ {
		if d := common(gcs[i]); d != base {
			res.fail("replicas-diverge/group-writers", "two writers holding the same %d entries report different state:\n%s", n, c04Diff(base, d))
			return res
		}
	}
	if len(gcs) > 1 {
		res.labels["g/several-writers"] = true
	}
	// fresh replicas: one batch vs entry by entry
	mk := func(name string) (*vReplica, *GroupContext) {
		var from *vReplica
		if contact {
			from = a // only members can open a contact group: a second device of A
		}
		r := vNewReplica(t, name, from)
		reps = append(reps, r)
		return r, r.open(t, g)
	}
	_, r1 := mk("R1")
	for _, h := range gcs[0].MetadataStore().OpLog().Heads().Slice() {
		if err := vDeliverMeta(r1, gcs[0], h); err != nil {
			res.harnessFail("%v", err)
			return res
		}
	}
	_, r2 := mk("R2")
	for _, e := range vEntries(gcs[0].MetadataStore().OpLog()) {
		if err := vDeliverMeta(r2, gcs[0], e); err != nil {
			res.harnessFail("%v", err)
			return res
		}
	}
	if n >= 2 {
		res.labels["g/batch-vs-single"] = true
	}
	d1, d2 := common(r1), common(r2)
	if d1 != d2 {
		res.fail("replicas-diverge/batch-vs-single", "replica fed in one batch and replica fed entry by entry (%d entries) differ:\n%s", n, c04Diff(d1, d2))
		return res
	}
	if contact {
		// the fresh replicas are devices of A's account
		if a1, ar := aliasOf(gcs[0]), aliasOf(r1); a1 != ar {
			res.fail("replicas-diverge/devices-of-one-account", "a further device of the account holding the same %d entries of the one-to-one group reports another alias key state than the writing device: %q vs %q", n, ar, a1)
			return res
		}
	}
	if d1 != base {
		res.fail("replicas-diverge/replica-vs-writer", "fresh replica holding the writers' %d entries differs from them:\n%s", n, c04Diff(base, d1))
		return res
	}
	// idempotent re-index on a writer and on a replica
	for _, gc := range []*GroupContext{gcs[0], r1} {
		want := vDumpGroupState(gc)
		for k := 0; k < reindex; k++ {
			if err := gc.MetadataStore().Index().UpdateIndex(gc.MetadataStore().OpLog(), nil); err != nil {
				res.fail("reindex-error", "UpdateIndex: %v", err)
				return res
			}
			if d := vDumpGroupState(gc); d != want {
				res.fail("reindex-changes-state", "re-indexing the same log (%d entries) changed the state (pass %d):\n%s", n, k+1, c04Diff(want, d))
				return res
			}
		}
	}
	if reindex > 0 {
		res.labels["g/reindex"] = true
	}
	// restart of writer 0
	want := vDumpGroupState(gcs[0])
	_ = gcs[0].Close()
	writers[0].close()
	w0 := vReopenReplica(t, writers[0])
	reps = append(reps, w0)
	gc0 := w0.open(t, g)
	if d := vDumpGroupState(gc0); d != want {
		res.fail("restart-changes-state/group", "state differs after closing and reopening the group (%d entries):\n%s", n, c04Diff(want, d))
	}
	return res
}

func TestVerif_C04_GroupKinds(t *testing.T) {
	acct := vacct.Get("C04")
	vacct.RapidCheck(t, vacct.N(20, 4000), func(rt *rapid.T) {
		contact := rapid.IntRange(0, 2).Draw(rt, "contact") == 0
		nW := rapid.IntRange(1, 3).Draw(rt, "writers")
		same := rapid.Bool().Draw(rt, "sameAccount")
		var ops []c04gOp
		kinds := []string{"adddevice", "adddevice", "claim", "secret", "secret", "meta", "aliasproof", "xsync"}
		if contact {
			kinds = []string{"adddevice", "adddevice", "alias", "alias", "secret", "meta", "xsync"}
		}
		// what creating a group does: the creator announces its device, then claims the group
		created := !contact && rapid.Bool().Draw(rt, "created")
		if created {
			ops = append(ops, c04gOp{W: 0, Kind: "adddevice"}, c04gOp{W: 0, Kind: "claim"})
		}
		for i, n := 0, rapid.IntRange(2, 8).Draw(rt, "n"); i < n; i++ {
			ops = append(ops, c04gOp{W: rapid.IntRange(0, 2).Draw(rt, "w"), Kind: rapid.SampledFrom(kinds).Draw(rt, "kind"), To: rapid.IntRange(0, 2).Draw(rt, "to")})
		}
		reidx := rapid.IntRange(0, 2).Draw(rt, "reindex")
		res := c04gRun(t, contact, nW, same, ops, reidx)
		if res.harness != "" {
			rt.Fatalf("harness: %s", res.harness)
		}
		var labels []string
		for l := range res.labels {
			labels = append(labels, l)
		}
		b, _ := json.Marshal(ops)
		kind := "multimember-group"
		if contact {
			kind = "contact-group"
		}
		if created {
			labels = append(labels, "g/created-by-writer-0")
		}
		acct.Case(res.labels["g/batch-vs-single"], fmt.Sprintf("%v|%d|%v|%s", contact, nW, same, b), func() any {
			return map[string]any{"kind": kind, "writers": nW, "ops": res.trace}
		}, append(labels, kind)...)
		if res.violation != "" {
			acct.Violation(res.violation, "TestVerif_C04_GroupKinds", map[string]any{"contact_group": contact, "writers": nW, "same_account": same, "ops": ops, "extra_reindex": reidx, "trace": res.trace, "msg": res.msg})
			rt.Fatalf("C04 %s: %s\n%s", res.violation, res.msg, strings.Join(res.trace, "\n"))
		}
	})
}
