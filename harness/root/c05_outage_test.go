//go:build verif

package weshnet

import (
	"bytes"
	"fmt"
	"strings"
	"testing"
	"time"

	"google.golang.org/protobuf/proto"
	"pgregory.net/rapid"

	"berty.tech/weshnet/v2/internal/vacct"
	"berty.tech/weshnet/v2/pkg/protocoltypes"
)

// C05 with a storage outage on one device: while A cannot read its own chain-key record, the first device of member
// X is announced to it; A's attempt to publish its chain key for X fails. The storage recovers, and X's second device
// is announced: A publishes its key for X then (what the pinned code does), so that in the end both devices of X
// hold A's chain key and open A's messages.
func TestVerif_C05_OutageAtFirstAnnouncement(t *testing.T) {
	acct := vacct.Get("C05")
	vacct.RapidCheck(t, vacct.N(4, 120), func(rt *rapid.T) {
		a := vNewFaultyReplica(t, "A", nil)
		x1 := vNewReplica(t, "X1", nil)
		x2 := vNewReplica(t, "X2", x1)
		reps := []*vReplica{a, x1, x2}
		defer func() {
			for _, r := range reps {
				r.close()
			}
		}()
		g, _, _ := NewGroupMultiMember()
		gpk, _ := g.GetPubKey()
		devs := []*c05Dev{{r: a, member: 0}, {r: x1, member: 1}, {r: x2, member: 1}}
		for _, d := range devs {
			d.gc = d.r.open(t, g)
		}
		defer func() {
			for _, d := range devs {
				_ = d.gc.Close()
			}
		}()
		activate := func(d *c05Dev) {
			done := make(chan error, 1)
			go func() { done <- d.gc.ActivateGroupContext(nil) }()
			select {
			case err := <-done:
				if err != nil {
					rt.Fatalf("harness: activation of %s failed: %v", d.r.name, err)
				}
			case <-time.After(30 * time.Second):
				rt.Fatalf("harness: activation of %s did not return", d.r.name)
			}
			d.active = true
		}
		announcedTo := func(member int) int { // chain-key announcements of A's device in A's log
			n := 0
			ch, err := devs[0].gc.MetadataStore().ListEvents(vCtx, nil, nil, false)
			if err != nil {
				rt.Fatalf("harness: %v", err)
			}
			for ev := range ch {
				if ev.Metadata.EventType == protocoltypes.EventType_EventTypeGroupDeviceChainKeyAdded {
					ck := &protocoltypes.GroupDeviceChainKeyAdded{}
					if proto.Unmarshal(ev.Event, ck) == nil && bytes.Equal(ck.DevicePk, vRawPK(devs[0].gc.DevicePubKey())) && bytes.Equal(ck.DestMemberPk, vRawPK(devs[1].gc.MemberPubKey())) {
						n++
					}
				}
			}
			return n
		}
		activate(devs[0])
		own := announcedTo(1)
		// the outage: every read of a chain-key record fails on A
		a.failReads(func(key string) bool { return strings.Contains(key, "chainKeyForDeviceOnGroup") })
		activate(devs[1])
		if err := c05SyncPair(devs[1], devs[0]); err != nil {
			rt.Fatalf("harness: %v", err)
		}
		c05Settle(devs, g, 400*time.Millisecond, 5*time.Second)
		bitten := announcedTo(1) == own // A could not publish its key for X
		a.failReads(nil)
		syncsBetween := rapid.IntRange(0, 1).Draw(rt, "syncA-to-X1-before-X2")
		if syncsBetween == 1 {
			if err := c05SyncPair(devs[0], devs[1]); err != nil {
				rt.Fatalf("harness: %v", err)
			}
		}
		activate(devs[2])
		if err := c05SyncPair(devs[2], devs[0]); err != nil {
			rt.Fatalf("harness: %v", err)
		}
		c05Settle(devs, g, 400*time.Millisecond, 5*time.Second)
		for round := 0; round < 10; round++ {
			before := c05LogLens(devs)
			for i := range devs {
				for j := range devs {
					if i != j {
						if err := c05SyncPair(devs[i], devs[j]); err != nil {
							rt.Fatalf("harness: %v", err)
						}
					}
				}
			}
			c05Settle(devs, g, 200*time.Millisecond, 10*time.Second)
			if c05LogLens(devs) == before {
				break
			}
		}
		knows := func(d *c05Dev) bool { return d.r.ss.IsChainKeyKnownForDevice(vCtx, gpk, devs[0].gc.DevicePubKey()) }
		if !knows(devs[1]) || !knows(devs[2]) {
			c05Settle(devs, g, 3*time.Second, 20*time.Second)
		}
		desc := map[string]any{"first_publication_failed": bitten, "a_synced_to_x1_before_x2_joined": syncsBetween == 1, "known_matrix": c05Known(devs, g)}
		if !knows(devs[1]) || !knows(devs[2]) {
			msg := fmt.Sprintf("A's storage could not read its chain-key record while X's first device was announced (publication failed: %v); it recovered before X's second device was announced, all entries were exchanged, but X's devices do not hold A's chain key (matrix, row knows column, A X1 X2: %s); A's log holds %d chain-key announcements", bitten, c05Known(devs, g), announcedTo(1))
			acct.Violation("outage/incomplete-keys", "TestVerif_C05_OutageAtFirstAnnouncement", map[string]any{"case": desc, "msg": msg})
			rt.Fatalf("C05 outage/incomplete-keys: %s", msg)
		}
		acct.Case(bitten, fmt.Sprintf("outage|%v|%d", bitten, syncsBetween), func() any { return desc }, "outage", lbl07(bitten, "outage/first-publication-failed"))
	})
}
