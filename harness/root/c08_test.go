//go:build verif

package weshnet

import (
	"context"
	"fmt"
	"sort"
	"strings"
	"testing"

	"github.com/ipfs/go-cid"
	"github.com/libp2p/go-libp2p/core/crypto"
	"github.com/libp2p/go-libp2p/p2p/host/eventbus"
	mh "github.com/multiformats/go-multihash"
	"github.com/prometheus/client_golang/prometheus"
	"go.uber.org/zap"
	"google.golang.org/protobuf/proto"
	"pgregory.net/rapid"

	ipfslog "berty.tech/go-ipfs-log"
	"berty.tech/go-ipfs-log/entry"
	"berty.tech/go-orbit-db/stores/operation"
	"berty.tech/weshnet/v2/internal/vacct"
	"berty.tech/weshnet/v2/internal/vsched"
	"berty.tech/weshnet/v2/pkg/protocoltypes"
	"berty.tech/weshnet/v2/pkg/secretstore"
)

// C08: every decryptable message in the log is delivered, none stays parked.
//
// The message pipeline of a real MessageStore (queues, device caches, process loop, secret store, event bus) runs under a
// harness-owned schedule; the OrbitDB fan-out that feeds it is replaced by arrival goroutines calling addToMessageQueue.

type c08Sender struct {
	Messages   int `json:"messages"`   // messages sealed by this sender
	AnnounceAt int `json:"announce_at"` // the announcement is taken after this many messages (they stay undecryptable)
}

type c08Scenario struct {
	Senders  []c08Sender `json:"senders"`
	Batches  [][][2]int  `json:"batches"`   // arrival goroutines: list of (sender, message index) in arrival order
	RegFirst bool        `json:"reg_first"` // registrations are started before the arrivals (still scheduled freely)
	Cancel   bool        `json:"cancel"`
	Window   int         `json:"window,omitempty"` // receiver's number of precomputed message keys (0 = default 100)
}

type c08Msg struct {
	e       ipfslog.Entry
	payload []byte
	counter uint64
}

func c08Entry(env []byte) ipfslog.Entry {
	op := operation.NewOperation(nil, "ADD", env)
	payload, err := op.Marshal()
	if err != nil {
		panic(err)
	}
	h, _ := mh.Sum(payload, mh.SHA2_256, -1)
	return &entry.Entry{Payload: payload, Hash: cid.NewCidV1(cid.DagCBOR, h), Next: []cid.Cid{}, Refs: []cid.Cid{}}
}

func c08Run(t *testing.T, sc c08Scenario, choices []int) vsched.Outcome {
	var out vsched.Outcome
	g, _, _ := NewGroupMultiMember()
	gpk, _ := g.GetPubKey()
	// receiver
	var rssOpts *secretstore.NewSecretStoreOptions
	W := 100
	if sc.Window > 0 {
		W = sc.Window
		rssOpts = &secretstore.NewSecretStoreOptions{PreComputedKeysCount: sc.Window}
	}
	rss, _ := secretstore.NewInMemSecretStore(rssOpts)
	_ = rss.PutGroup(vCtx, g)
	rmd, _ := rss.GetOwnMemberDeviceForGroup(g)
	type sender struct {
		ss   secretstore.SecretStore
		dev  crypto.PubKey
		raw  []byte
		ann  []byte
		msgs []c08Msg
	}
	var senders []*sender
	for si, s := range sc.Senders {
		ss, _ := secretstore.NewInMemSecretStore(nil)
		_ = ss.PutGroup(vCtx, g)
		md, _ := ss.GetOwnMemberDeviceForGroup(g)
		sd := &sender{ss: ss, dev: md.Device(), raw: vRawPK(md.Device())}
		for i := 0; i < s.Messages; i++ {
			if i == s.AnnounceAt {
				sd.ann, _ = ss.GetShareableChainKey(vCtx, g, rmd.Member())
			}
			p := []byte(fmt.Sprintf("s%d-m%d", si, i))
			pl, _ := proto.Marshal(&protocoltypes.EncryptedMessage{Plaintext: p})
			env, err := ss.SealEnvelope(vCtx, g, pl)
			if err != nil {
				panic(err)
			}
			sd.msgs = append(sd.msgs, c08Msg{e: c08Entry(env), payload: p, counter: uint64(i + 1)})
		}
		if sd.ann == nil {
			sd.ann, _ = ss.GetShareableChainKey(vCtx, g, rmd.Member())
		}
		senders = append(senders, sd)
	}
	var store *MessageStore
	var events []*protocoltypes.GroupMessageEvent
	arrivals := map[string]int{}
	var regErrs []string
	cancelled := false
	out.Res = vsched.Run(t, vsched.Options{Choices: choices, MaxSteps: 6000}, func(s *vsched.Sched) {
		ctx, cancel := context.WithCancel(context.Background())
		tracer := newMessageMetricsTracer(prometheus.NewRegistry())
		store = &MessageStore{
			eventBus:                  eventbus.NewBus(),
			secretStore:               rss,
			messagesQueue:             newMessageQueue("cache", tracer),
			group:                     g,
			groupPublicKey:            gpk,
			logger:                    zap.NewNop(),
			deviceCaches:              make(map[string]*groupCache),
			currentDevicePublicKey:    rmd.Device(),
			currentDevicePublicKeyRaw: vRawPK(rmd.Device()),
		}
		store.ctx, store.cancel = ctx, cancel
		store.emitters.groupMessage, _ = store.eventBus.Emitter(new(*protocoltypes.GroupMessageEvent))
		store.emitters.groupCacheMessage, _ = store.eventBus.Emitter(new(messageItem))
		sub, _ := store.eventBus.Subscribe(new(*protocoltypes.GroupMessageEvent), eventbus.BufSize(4096))
		s.Go("consumer", func() { store.processMessageLoop(ctx, tracer) })
		regs := func() {
			for si, sd := range senders {
				s.Go(fmt.Sprintf("register%d", si), func() {
					// what GroupContext.handleGroupMetadataEvent does for a chain-key announcement
					if err := rss.RegisterChainKey(ctx, g, sd.dev, sd.ann); err != nil {
						regErrs = append(regErrs, err.Error())
						return
					}
					vsched.Yield("h:registered")
					store.ProcessMessageQueueForDevicePK(ctx, sd.raw)
				})
			}
		}
		if sc.RegFirst {
			regs()
		}
		for bi, b := range sc.Batches {
			s.Go(fmt.Sprintf("arrival%d", bi), func() {
				for _, ref := range b {
					m := senders[ref[0]].msgs[ref[1]]
					arrivals[m.e.GetHash().String()]++
					vsched.Yield("h:arrival")
					_ = store.addToMessageQueue(ctx, m.e)
				}
			})
		}
		if !sc.RegFirst {
			regs()
		}
		if sc.Cancel {
			s.Go("canceller", func() {
				vsched.Yield("h:cancel")
				cancelled = true
				cancel()
			})
		}
		s.OnTerminal = func(*vsched.Result) {
			for {
				select {
				case e := <-sub.Out():
					events = append(events, e.(*protocoltypes.GroupMessageEvent))
					continue
				default:
				}
				break
			}
		}
		s.Cleanup = func() { cancel(); _ = sub.Close() }
	})
	out.Standard()
	if len(regErrs) > 0 {
		out.Fail("harness-register", "registration failed: %v", regErrs)
	}
	for _, st := range out.Res.Terminal {
		if st.Name != "consumer" && st.State != "done" && out.Violation == "" {
			out.Fail("driver-stuck", "%s did not finish: %+v", st.Name, st)
		}
	}
	if cancelled {
		// with cancellation only termination without panic or deadlock is asserted
		if st := out.Res.Status("consumer"); st != nil && st.State != "done" {
			out.Fail("cancel-ignored", "the process loop did not stop after its context was cancelled: %+v", *st)
		}
		out.Labels = append(out.Labels, "pipeline/with-cancel")
		return out
	}
	// expected deliveries
	got := map[string]int{}
	for _, e := range events {
		_, c, _ := cid.CidFromBytes(e.EventContext.Id)
		got[c.String()]++
	}
	stranded := false
	beyond := false
	for si, sd := range senders {
		// which arrived messages become openable (C02): counter k opens once c < k <= c + W + opened; the pipeline
		// retries a device's parked messages after every open, so the least fixed point must be delivered
		c := sc.Senders[si].AnnounceAt
		openable := map[int]bool{}
		for changed := true; changed; {
			changed = false
			for i, m := range sd.msgs {
				if openable[i] || arrivals[m.e.GetHash().String()] == 0 {
					continue
				}
				if k := i + 1; k > c && k <= c+W+len(openable) {
					openable[i], changed = true, true
				}
			}
		}
		parkedWant := 0
		for i, m := range sd.msgs {
			id := m.e.GetHash().String()
			arr := arrivals[id]
			if arr > 0 && i+1 > c+W {
				beyond = true
			}
			if !openable[i] {
				parkedWant += arr
				if got[id] != 0 {
					if i < c {
						out.Fail("undecryptable-delivered", "sender %d message %d was sealed before the announcement but was delivered", si, i)
					} else {
						out.Fail("harness-model", "sender %d message %d delivered although the ratchet model says it is beyond the window", si, i)
					}
				}
				continue
			}
			if got[id] < 1 {
				stranded = true
				out.Fail("decryptable-not-delivered", "sender %d message #%d (announcement after %d, window %d) arrived %d time(s), its chain key is registered and it is within the window of what was opened, but it was never delivered (process loop idle, queue empty)", si, i, c, W, arr)
			}
			if got[id] > arr {
				out.Fail("delivered-too-often", "sender %d message %d arrived %d time(s) but was delivered %d times", si, i, arr, got[id])
			}
		}
		if size, _ := store.CacheSizeForDevicePK(sd.raw); size != parkedWant && !stranded {
			out.Fail("decryptable-left-parked", "sender %d: %d message(s) parked in the device queue, only %d arrivals are undecryptable", si, size, parkedWant)
		}
	}
	for _, e := range events {
		_, c, _ := cid.CidFromBytes(e.EventContext.Id)
		for si, sd := range senders {
			for i, m := range sd.msgs {
				if m.e.GetHash().Equals(c) {
					if string(e.Message) != string(m.payload) || string(e.Headers.DevicePk) != string(sd.raw) || e.Headers.Counter != m.counter {
						out.Fail("delivered-altered", "sender %d message %d delivered with other payload / sender / counter", si, i)
					}
				}
			}
		}
	}
	// non-trivial: a registration's queue processing ran between the consumer's cache lookup and its park,
	// or the lowest parked counter is undecryptable while a higher one is decryptable
	window := false
	lastLookup := -1
	for i, st := range out.Res.Trace {
		if st.G == "consumer" && strings.HasSuffix(st.Point, ":after-call") {
			lastLookup = i
		}
		if st.G == "consumer" && lastLookup >= 0 && i > lastLookup && !strings.HasSuffix(st.Point, ":after-call") {
			for j := lastLookup; j < i; j++ {
				if strings.HasPrefix(out.Res.Trace[j].G, "register") {
					window = true
				}
			}
			lastLookup = -1
		}
	}
	mixed := false
	for si := range senders {
		if sc.Senders[si].AnnounceAt > 0 && sc.Senders[si].AnnounceAt < sc.Senders[si].Messages {
			mixed = true
		}
	}
	out.NonTrivial = window || mixed || beyond
	if beyond {
		out.Labels = append(out.Labels, "pipeline/arrival-beyond-key-window")
	}
	if window {
		out.Labels = append(out.Labels, "pipeline/registration-between-lookup-and-park")
	}
	if mixed {
		out.Labels = append(out.Labels, "pipeline/undecryptable-below-decryptable")
	}
	return out
}

func c08Scenarios() []c08Scenario {
	scs := []c08Scenario{
		{Senders: []c08Sender{{1, 0}}, Batches: [][][2]int{{{0, 0}}}},
		{Senders: []c08Sender{{2, 0}}, Batches: [][][2]int{{{0, 1}, {0, 0}}}, RegFirst: true},
		{Senders: []c08Sender{{3, 2}}, Batches: [][][2]int{{{0, 0}, {0, 1}, {0, 2}}}},
		{Senders: []c08Sender{{2, 0}}, Batches: [][][2]int{{{0, 0}}, {{0, 1}, {0, 0}}}},
		{Senders: []c08Sender{{1, 0}, {1, 0}}, Batches: [][][2]int{{{0, 0}, {1, 0}}}},
		{Senders: []c08Sender{{1, 0}}, Batches: [][][2]int{{{0, 0}}}, Cancel: true},
		{Senders: []c08Sender{{4, 0}}, Batches: [][][2]int{{{0, 3}, {0, 0}, {0, 1}, {0, 2}}}, RegFirst: true, Window: 2},
		{Senders: []c08Sender{{3, 0}}, Batches: [][][2]int{{{0, 2}}, {{0, 1}, {0, 0}}}, Window: 1},
	}
	if vacct.Thorough() {
		scs = append(scs,
			c08Scenario{Senders: []c08Sender{{3, 1}}, Batches: [][][2]int{{{0, 2}, {0, 0}}, {{0, 1}}}},
			c08Scenario{Senders: []c08Sender{{2, 1}, {2, 0}}, Batches: [][][2]int{{{0, 0}, {1, 1}}, {{0, 1}, {1, 0}}}, RegFirst: true},
			c08Scenario{Senders: []c08Sender{{3, 0}}, Batches: [][][2]int{{{0, 2}, {0, 1}, {0, 0}, {0, 1}}}},
		)
	}
	return scs
}

func TestVerif_C08_DFS(t *testing.T) {
	e := &vsched.Explorer[c08Scenario]{PID: "C08", Prefix: "pipeline", Test: "TestVerif_C08_DFS", Run: c08Run}
	if p := vacct.ReplayPath(); p != "" {
		e.Replay(t, p)
		return
	}
	maxRuns, maxPre := 700, 2
	if vacct.Thorough() {
		maxRuns, maxPre = 40000, 3
	}
	shard, nshards := vacct.Shard()
	for i, sc := range c08Scenarios() {
		if i%nshards == shard {
			e.DFS(t, sc, maxPre, maxRuns)
		}
	}
}

func TestVerif_C08_Random(t *testing.T) {
	e := &vsched.Explorer[c08Scenario]{PID: "C08", Prefix: "pipeline", Test: "TestVerif_C08_Random", Run: c08Run}
	if p := vacct.ReplayPath(); p != "" {
		e.Replay(t, p)
		return
	}
	e.Random(t, vacct.N(250, 20000), func(rt *rapid.T) c08Scenario {
		sc := c08Scenario{RegFirst: rapid.Bool().Draw(rt, "regfirst"), Cancel: rapid.IntRange(0, 9).Draw(rt, "cancel") == 0,
			Window: rapid.SampledFrom([]int{0, 0, 1, 2, 3}).Draw(rt, "window")}
		ns := rapid.IntRange(1, 2).Draw(rt, "senders")
		var all [][2]int
		for si := 0; si < ns; si++ {
			n := rapid.IntRange(1, 6).Draw(rt, "n")
			a := rapid.IntRange(0, n).Draw(rt, "announce")
			if a == n && n > 0 {
				a = n - 1
			}
			sc.Senders = append(sc.Senders, c08Sender{n, a})
			for i := 0; i < n; i++ {
				all = append(all, [2]int{si, i})
			}
		}
		// arrival order: a permutation with duplicates, cut into 1-3 batches
		order := rapid.Permutation(all).Draw(rt, "order")
		for i := 0; i < rapid.IntRange(0, 2).Draw(rt, "dups"); i++ {
			order = append(order, all[rapid.IntRange(0, len(all)-1).Draw(rt, "dup")])
		}
		nb := rapid.IntRange(1, 3).Draw(rt, "batches")
		sc.Batches = make([][][2]int, nb)
		for i, ref := range order {
			b := i * nb / len(order)
			sc.Batches[b] = append(sc.Batches[b], ref)
		}
		return sc
	}, 600)
}

var _ = sort.Strings
