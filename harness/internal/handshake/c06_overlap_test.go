//go:build verif

package handshake

import (
	"fmt"
	"testing"

	p2pcrypto "github.com/libp2p/go-libp2p/core/crypto"
	"pgregory.net/rapid"

	"berty.tech/weshnet/v2/internal/vacct"
)

// C06, honest clause with several sessions alive in one process: two or three honest handshakes between three
// accounts (crossing requests and two requesters towards one responder included) whose frames are delivered one at
// a time in a generated interleaving. Every session must complete on both sides, each responder learning the key of
// its own requester.

type c06OvSession struct {
	Req int `json:"requester"`
	Res int `json:"responder"`
}

func TestVerif_C06_OverlappingSessions(t *testing.T) {
	acct := vacct.Get("C06")
	vacct.RapidCheck(t, vacct.N(60, 6000), func(rt *rapid.T) {
		k := c06NewKeys()
		parties := []p2pcrypto.PrivKey{k.A, k.B, k.M}
		n := rapid.IntRange(2, 3).Draw(rt, "sessions")
		var ss []c06OvSession
		for i := 0; i < n; i++ {
			req := rapid.IntRange(0, 2).Draw(rt, "req")
			res := (req + rapid.IntRange(1, 2).Draw(rt, "res")) % 3
			ss = append(ss, c06OvSession{req, res})
		}
		type live struct {
			relayReq, relayRes *c06Conn // the relay's ends
			dreq, dres         <-chan c06Result
			sent               int // frames forwarded so far (0..5)
		}
		var ls []*live
		for _, s := range ss {
			creq, r1 := c06Pipe()
			cres, r2 := c06Pipe()
			l := &live{relayReq: r1, relayRes: r2}
			l.dreq = c06RunRequester(creq, parties[s.Req], parties[s.Res].GetPublic())
			l.dres = c06RunResponder(cres, parties[s.Res])
			ls = append(ls, l)
		}
		defer func() {
			for _, l := range ls {
				_ = l.relayReq.c.Close()
				_ = l.relayRes.c.Close()
			}
		}()
		var order []int
		forward := func(i int) error {
			l := ls[i]
			if l.sent >= 5 {
				return nil
			}
			src, dst := l.relayReq, l.relayRes // frames 1, 3, 5 go from the requester to the responder
			if l.sent%2 == 1 {
				src, dst = dst, src
			}
			raw, err := c06ReadRawFrame(src)
			if err != nil {
				return fmt.Errorf("frame %d of session %d was not produced: %v", l.sent+1, i, err)
			}
			if err := c06WriteRawFrame(dst, raw); err != nil {
				return fmt.Errorf("frame %d of session %d was not taken: %v", l.sent+1, i, err)
			}
			l.sent++
			order = append(order, i)
			return nil
		}
		var ferr error
		for _, i := range rapid.SliceOfN(rapid.IntRange(0, n-1), 0, 5*n).Draw(rt, "interleaving") {
			if ferr == nil {
				ferr = forward(i)
			}
		}
		for i := 0; i < n && ferr == nil; i++ {
			for ls[i].sent < 5 && ferr == nil {
				ferr = forward(i)
			}
		}
		overlapped := false
		first := map[int]int{}
		last := map[int]int{}
		for p, i := range order {
			if _, ok := first[i]; !ok {
				first[i] = p
			}
			last[i] = p
		}
		for i := range ls {
			for j := range ls {
				if i != j && first[j] > first[i] && first[j] < last[i] {
					overlapped = true
				}
			}
		}
		desc := map[string]any{"sessions": ss, "frame_delivery_order_by_session": order}
		fail := func(id, f string, a ...any) {
			msg := fmt.Sprintf(f, a...)
			acct.Violation(id, "TestVerif_C06_OverlappingSessions", map[string]any{"case": desc, "msg": msg})
			rt.Fatalf("C06 %s: %s (%v)", id, msg, desc)
		}
		for i, l := range ls {
			ra, rb := <-l.dreq, <-l.dres
			if ra.panicked || rb.panicked {
				fail("honest-party-crashed/overlapping-sessions", "session %d: requester=%v responder=%v", i, ra.err, rb.err)
			}
			if ra.err != nil || rb.err != nil {
				fail("honest-handshake-fails/overlapping-sessions", "honest session %d (%d -> %d) fails while other honest sessions run in the same process: requester=%v responder=%v (relay: %v)", i, ss[i].Req, ss[i].Res, ra.err, rb.err, ferr)
			}
			if !rb.pk.Equals(parties[ss[i].Req].GetPublic()) {
				fail("honest-wrong-identity/overlapping-sessions", "responder of session %d learnt another key than its requester's", i)
			}
		}
		if ferr != nil {
			rt.Fatalf("harness: %v", ferr)
		}
		acct.Case(overlapped, fmt.Sprintf("ov|%v|%v", ss, order), func() any { return desc }, "honest", lbl(overlapped, "honest/overlapping-sessions"))
	})
}
