//go:build verif

package handshake

import (
	"crypto/ed25519"
	cryptopb "github.com/libp2p/go-libp2p/core/crypto/pb"
	"context"
	crand "crypto/rand"
	"crypto/ecdsa"
	"crypto/elliptic"
	"crypto/sha256"
	"encoding/hex"
	"fmt"
	"net"
	"os"
	"testing"
	"time"

	p2pcrypto "github.com/libp2p/go-libp2p/core/crypto"
	"go.uber.org/zap"
	"golang.org/x/crypto/nacl/box"
	"google.golang.org/protobuf/proto"
	"pgregory.net/rapid"

	"berty.tech/weshnet/v2/internal/vacct"
	"berty.tech/weshnet/v2/pkg/cryptoutil"
	"berty.tech/weshnet/v2/pkg/protoio"
)

func TestMain(m *testing.M) { os.Exit(vacct.Main(m)) }

// C06: the contact-request handshake authenticates both parties against any peer behaviour.
//
// Honest parties run the real Request/ResponseUsingReaderWriter over an in-memory pipe with the
// framing the contact request manager uses (delimited, 2048 bytes). The adversary seat is scripted with
// primitives written from the protocol description (nacl box, sha256), never with the code under test.

const c06Limit = 2048

// known low-order / non-canonical X25519 public values
var c06LowOrderHex = []string{
	"0000000000000000000000000000000000000000000000000000000000000000",
	"0100000000000000000000000000000000000000000000000000000000000000",
	"e0eb7a7c3b41b8ae1656e3faf19fc46ada098deb9c32b1fd866205165f49b800",
	"5f9c95bca3508c24b1d0b1559c83ef5b04445cc4581c8e86d8224eddd09f1157",
	"ecffffffffffffffffffffffffffffffffffffffffffffffffffffffffffff7f",
	"edffffffffffffffffffffffffffffffffffffffffffffffffffffffffffff7f",
	"eeffffffffffffffffffffffffffffffffffffffffffffffffffffffffffff7f",
}

func c06LowOrder() [][32]byte {
	var out [][32]byte
	for _, h := range c06LowOrderHex {
		b, _ := hex.DecodeString(h)
		var p [32]byte
		copy(p[:], b)
		out = append(out, p)
		p[31] |= 0x80 // the same value with the (ignored) top bit set
		out = append(out, p)
	}
	return out
}

type c06Conn struct {
	c net.Conn
	r protoio.ReadCloser
	w protoio.WriteCloser
}

// the points of small order on edwards25519 in canonical encoding: neutral element (order 1), order 2, two of order 4,
// four of order 8
func c06SmallOrderEd25519() [][32]byte {
	hexes := []string{
		"0100000000000000000000000000000000000000000000000000000000000000",
		"ecffffffffffffffffffffffffffffffffffffffffffffffffffffffffffff7f",
		"0000000000000000000000000000000000000000000000000000000000000000",
		"0000000000000000000000000000000000000000000000000000000000000080",
		"26e8958fc2b227b045c3f489f2ef98f0d5dfac05d3c63339b13802886d53fc05",
		"26e8958fc2b227b045c3f489f2ef98f0d5dfac05d3c63339b13802886d53fc85",
		"c7176a703d4dd84fba3c0b760d10670f2a2053fa2c39ccc64ec7fd7792ac037a",
		"c7176a703d4dd84fba3c0b760d10670f2a2053fa2c39ccc64ec7fd7792ac03fa",
	}
	var out [][32]byte
	for _, h := range hexes {
		b, _ := hex.DecodeString(h)
		var a [32]byte
		copy(a[:], b)
		out = append(out, a)
	}
	return out
}

// c06ForgeSmallOrderSig looks for a signature (R of small order, S = 0) that verifies over msg under the small-order
// key pk: no private key is involved, the attacker only tries the eight candidates for R
func c06ForgeSmallOrderSig(pk [32]byte, msg []byte) []byte {
	for _, r := range c06SmallOrderEd25519() {
		sig := make([]byte, 64)
		copy(sig, r[:])
		if ed25519.Verify(ed25519.PublicKey(pk[:]), msg, sig) {
			return sig
		}
	}
	sig := make([]byte, 64)
	copy(sig, c06SmallOrderEd25519()[0][:])
	return sig
}

func c06Pipe() (*c06Conn, *c06Conn) {
	a, b := net.Pipe()
	mk := func(c net.Conn) *c06Conn {
		return &c06Conn{c: c, r: protoio.NewDelimitedReader(c, c06Limit), w: protoio.NewDelimitedWriter(c)}
	}
	return mk(a), mk(b)
}

type c06Result struct {
	err      error
	pk       p2pcrypto.PubKey
	panicked bool
}

// honest parties in goroutines; the pipe is closed when the peer script ends so that nobody hangs
func c06RunResponder(conn *c06Conn, sk p2pcrypto.PrivKey) <-chan c06Result {
	ch := make(chan c06Result, 1)
	go func() {
		_ = conn.c.SetDeadline(time.Now().Add(10 * time.Second))
		defer func() {
			if p := recover(); p != nil {
				ch <- c06Result{err: fmt.Errorf("PANIC: %v", p), panicked: true}
				_ = conn.c.Close()
			}
		}()
		pk, err := ResponseUsingReaderWriter(context.Background(), zap.NewNop(), conn.r, conn.w, sk)
		ch <- c06Result{err: err, pk: pk}
		_ = conn.c.Close()
	}()
	return ch
}

func c06RunRequester(conn *c06Conn, sk p2pcrypto.PrivKey, target p2pcrypto.PubKey) <-chan c06Result {
	ch := make(chan c06Result, 1)
	go func() {
		_ = conn.c.SetDeadline(time.Now().Add(10 * time.Second))
		defer func() {
			if p := recover(); p != nil {
				ch <- c06Result{err: fmt.Errorf("PANIC: %v", p), panicked: true}
				_ = conn.c.Close()
			}
		}()
		err := RequestUsingReaderWriter(context.Background(), zap.NewNop(), conn.r, conn.w, sk, target)
		ch <- c06Result{err: err}
		_ = conn.c.Close()
	}()
	return ch
}

// ---- adversary primitives (independent of the code under test)

func c06Mont(sk p2pcrypto.PrivKey) *[32]byte {
	k, err := cryptoutil.EdwardsToMontgomeryPriv(sk)
	if err != nil {
		panic(err)
	}
	return k
}

func c06MontPub(pk p2pcrypto.PubKey) *[32]byte {
	k, err := cryptoutil.EdwardsToMontgomeryPub(pk)
	if err != nil {
		panic(err)
	}
	return k
}

func c06Shared(pub, priv *[32]byte) *[32]byte {
	var k [32]byte
	box.Precompute(&k, pub, priv)
	return &k
}

func c06BoxKey(parts ...*[32]byte) *[32]byte {
	h := sha256.New()
	for _, p := range parts {
		h.Write(p[:])
	}
	var k [32]byte
	copy(k[:], h.Sum(nil))
	return &k
}

var (
	c06NonceAuth   = [24]byte{1}
	c06NonceAccept = [24]byte{2}
)

func (c *c06Conn) sendHello(pub *[32]byte) error {
	return c.w.WriteMsg(&HelloPayload{EphemeralPubKey: pub[:]})
}

func (c *c06Conn) readHello() (*[32]byte, error) {
	var h HelloPayload
	if err := c.r.ReadMsg(&h); err != nil {
		return nil, err
	}
	if len(h.EphemeralPubKey) != 32 {
		return nil, fmt.Errorf("bad hello")
	}
	var k [32]byte
	copy(k[:], h.EphemeralPubKey)
	return &k, nil
}

func (c *c06Conn) sendBox(key *[32]byte, nonce *[24]byte, m proto.Message) error {
	b, _ := proto.Marshal(m)
	return c.w.WriteMsg(&BoxEnvelope{Box: box.SealAfterPrecomputation(nil, b, nonce, key)})
}

func (c *c06Conn) readBoxRaw() ([]byte, error) {
	var e BoxEnvelope
	if err := c.r.ReadMsg(&e); err != nil {
		return nil, err
	}
	return e.Box, nil
}

func c06Open(boxed []byte, key *[32]byte, nonce *[24]byte, into proto.Message) bool {
	b, ok := box.OpenAfterPrecomputation(nil, boxed, nonce, key)
	if !ok {
		return false
	}
	return proto.Unmarshal(b, into) == nil
}

func c06PubBytes(pk p2pcrypto.PubKey) []byte {
	b, err := p2pcrypto.MarshalPublicKey(pk)
	if err != nil {
		panic(err)
	}
	return b
}

type c06Keys struct {
	A, B, M p2pcrypto.PrivKey
}

func c06NewKeys() *c06Keys {
	k := &c06Keys{}
	k.A, _, _ = p2pcrypto.GenerateEd25519Key(crand.Reader)
	k.B, _, _ = p2pcrypto.GenerateEd25519Key(crand.Reader)
	k.M, _, _ = p2pcrypto.GenerateEd25519Key(crand.Reader)
	return k
}

type c06Outcome struct {
	label        string
	passedBox    bool // the adversary got past the box-opening step of the honest party (so only the proof stands)
	violation    string
	msg          string
}

// the honest responder reported `got`: fine only if the adversary holds its private half in this session
func c06JudgeResponder(o *c06Outcome, res c06Result, k *c06Keys, holds ...p2pcrypto.PrivKey) {
	if res.panicked {
		o.violation = "honest-party-crashed"
		o.msg = fmt.Sprintf("attack %q: the responder did not reach a verdict, it panicked: %v", o.label, res.err)
		return
	}
	if res.err != nil {
		return
	}
	for _, h := range holds {
		if h.GetPublic().Equals(res.pk) {
			return
		}
	}
	who := "an unknown key"
	if k.A.GetPublic().Equals(res.pk) {
		who = "the victim's account key"
	}
	o.violation = "responder-authenticated-absent-party"
	o.msg = fmt.Sprintf("attack %q: the responder reports %s although its peer never proved possession of it in this session", o.label, who)
}

// ---- attacks with the adversary in the requester seat (honest responder B)

// harvest: M is a legitimate responder for A (A targets M's account). M answers with the ephemeral `b` and learns
// whatever A puts into its authenticate frame.
func c06Harvest(k *c06Keys, b *[32]byte, bPriv *[32]byte) (auth *RequesterAuthenticatePayload, sharedAB *[32]byte, frames [][]byte) {
	ca, cm := c06Pipe()
	done := c06RunRequester(ca, k.A, k.M.GetPublic())
	defer func() { _ = cm.c.Close(); <-done }()
	_ = cm.c.SetDeadline(time.Now().Add(5 * time.Second))
	a, err := cm.readHello()
	if err != nil {
		return nil, nil, nil
	}
	if err := cm.sendHello(b); err != nil {
		return nil, nil, nil
	}
	raw, err := cm.readBoxRaw()
	if err != nil {
		return nil, nil, nil
	}
	frames = append(frames, raw)
	// a.b: with a degenerate b the requester's shared secret is the constant for the zero point; with an honest b M owns bPriv
	if bPriv != nil {
		sharedAB = c06Shared(a, bPriv)
	} else {
		var any [32]byte
		_, _ = crand.Read(any[:])
		sharedAB = c06Shared(b, &any)
	}
	aM := c06Shared(a, c06Mont(k.M))
	p := &RequesterAuthenticatePayload{}
	if !c06Open(raw, c06BoxKey(sharedAB, aM), &c06NonceAuth, p) {
		return nil, sharedAB, frames
	}
	return p, sharedAB, frames
}

func c06AttackResponder(k *c06Keys, label string, script func(cm *c06Conn, o *c06Outcome)) c06Outcome {
	o := c06Outcome{label: label}
	cb, cm := c06Pipe()
	done := c06RunResponder(cb, k.B)
	_ = cm.c.SetDeadline(time.Now().Add(5 * time.Second))
	script(cm, &o)
	_ = cm.c.Close()
	res := <-done
	c06JudgeResponder(&o, res, k, k.M)
	return o
}

func c06AttackRequester(k *c06Keys, label string, script func(cm *c06Conn, o *c06Outcome)) c06Outcome {
	o := c06Outcome{label: label}
	ca, cm := c06Pipe()
	done := c06RunRequester(ca, k.A, k.B.GetPublic())
	_ = cm.c.SetDeadline(time.Now().Add(5 * time.Second))
	script(cm, &o)
	_ = cm.c.Close()
	res := <-done
	if res.panicked {
		o.violation = "honest-party-crashed"
		o.msg = fmt.Sprintf("attack %q: the requester did not reach a verdict, it panicked: %v", label, res.err)
	} else if res.err == nil {
		o.violation = "requester-accepted-impostor"
		o.msg = fmt.Sprintf("attack %q: the requester completed the handshake with a peer that does not hold the targeted account key", label)
	}
	return o
}

func c06Catalogue(k *c06Keys, rt *rapid.T) []c06Outcome {
	var out []c06Outcome
	lows := c06LowOrder()
	var someScalar [32]byte
	_, _ = crand.Read(someScalar[:])
	// the constant every party derives when an ephemeral is a low-order point
	zeroShared := c06Shared(&lows[0], &someScalar)
	honestPub, honestPriv, _ := box.GenerateKey(crand.Reader)

	// 1. straightforward impersonation attempts with an honest ephemeral
	for _, variant := range []string{"own-sig", "random-sig", "empty-sig", "sig-over-other-data"} {
		out = append(out, c06AttackResponder(k, "claim-victim-id/"+variant, func(cm *c06Conn, o *c06Outcome) {
			if cm.sendHello(honestPub) != nil {
				return
			}
			b, err := cm.readHello()
			if err != nil {
				return
			}
			ab := c06Shared(b, honestPriv)
			aB := c06Shared(c06MontPub(k.B.GetPublic()), honestPriv)
			var sig []byte
			switch variant {
			case "own-sig":
				sig, _ = k.M.Sign(ab[:])
			case "random-sig":
				sig = make([]byte, 64)
				_, _ = crand.Read(sig)
			case "sig-over-other-data":
				sig, _ = k.M.Sign([]byte("x"))
			}
			o.passedBox = true
			if cm.sendBox(c06BoxKey(ab, aB), &c06NonceAuth, &RequesterAuthenticatePayload{RequesterAccountId: c06PubBytes(k.A.GetPublic()), RequesterAccountSig: sig}) != nil {
				return
			}
			if _, err := cm.readBoxRaw(); err != nil {
				return
			}
			_ = cm.w.WriteMsg(&RequesterAcknowledgePayload{Success: true})
		}))
	}
	// 2. the adversary authenticates honestly as itself: allowed, the responder must report M (sanity of the oracle)
	out = append(out, c06AttackResponder(k, "adversary-as-itself", func(cm *c06Conn, o *c06Outcome) {
		if cm.sendHello(honestPub) != nil {
			return
		}
		b, err := cm.readHello()
		if err != nil {
			return
		}
		ab := c06Shared(b, honestPriv)
		aB := c06Shared(c06MontPub(k.B.GetPublic()), honestPriv)
		sig, _ := k.M.Sign(ab[:])
		if cm.sendBox(c06BoxKey(ab, aB), &c06NonceAuth, &RequesterAuthenticatePayload{RequesterAccountId: c06PubBytes(k.M.GetPublic()), RequesterAccountSig: sig}) != nil {
			return
		}
		if _, err := cm.readBoxRaw(); err != nil {
			return
		}
		_ = cm.w.WriteMsg(&RequesterAcknowledgePayload{Success: true})
	}))
	// 3. degenerate ephemerals: material harvested while M was a legitimate responder for A, replayed towards B
	for li, lowHarvest := range lows {
		lowHarvest := lowHarvest
		auth, _, _ := c06Harvest(k, &lowHarvest, nil)
		for lj, lowAttack := range lows {
			if (li+lj)%3 != 0 && li != lj { // a third of the pairs, all diagonal ones
				continue
			}
			lowAttack := lowAttack
			out = append(out, c06AttackResponder(k, fmt.Sprintf("low-order-replay/harvest=%d/attack=%d", li, lj), func(cm *c06Conn, o *c06Outcome) {
				if cm.sendHello(&lowAttack) != nil {
					return
				}
				if _, err := cm.readHello(); err != nil {
					return
				}
				if auth == nil {
					// nothing harvested (the victim refused the degenerate ephemeral): try with a made-up proof
					auth = &RequesterAuthenticatePayload{RequesterAccountId: c06PubBytes(k.A.GetPublic()), RequesterAccountSig: make([]byte, 64)}
				}
				o.passedBox = true
				// a.b and a.B are both the constant of the zero point for the responder
				if cm.sendBox(c06BoxKey(zeroShared, zeroShared), &c06NonceAuth, auth) != nil {
					return
				}
				if _, err := cm.readBoxRaw(); err != nil {
					return
				}
				_ = cm.w.WriteMsg(&RequesterAcknowledgePayload{Success: true})
			}))
		}
	}
	// 4. honest-ephemeral harvest replayed (session binding): must fail because a.b differs
	{
		auth, _, frames := c06Harvest(k, honestPub, honestPriv)
		out = append(out, c06AttackResponder(k, "replay-proof-from-session-with-adversary", func(cm *c06Conn, o *c06Outcome) {
			p2, s2, _ := box.GenerateKey(crand.Reader)
			if cm.sendHello(p2) != nil {
				return
			}
			b, err := cm.readHello()
			if err != nil || auth == nil {
				return
			}
			ab := c06Shared(b, s2)
			aB := c06Shared(c06MontPub(k.B.GetPublic()), s2)
			o.passedBox = true
			if cm.sendBox(c06BoxKey(ab, aB), &c06NonceAuth, auth) != nil {
				return
			}
			if _, err := cm.readBoxRaw(); err != nil {
				return
			}
			_ = cm.w.WriteMsg(&RequesterAcknowledgePayload{Success: true})
		}))
		out = append(out, c06AttackResponder(k, "replay-recorded-authenticate-frame", func(cm *c06Conn, o *c06Outcome) {
			if cm.sendHello(honestPub) != nil {
				return
			}
			if _, err := cm.readHello(); err != nil || len(frames) == 0 {
				return
			}
			if cm.w.WriteMsg(&BoxEnvelope{Box: frames[0]}) != nil {
				return
			}
			if _, err := cm.readBoxRaw(); err != nil {
				return
			}
			_ = cm.w.WriteMsg(&RequesterAcknowledgePayload{Success: true})
		}))
	}
	// 2b. identity keys without a private half: the eight points of small order on the Ed25519 curve are valid
	// encodings of a public key, and for them signatures can be made by anybody (for the neutral element the pair
	// R = neutral element, S = 0 verifies over every message). A responder that reports such a key reports a key whose
	// private half nobody proved to hold.
	for pi, pt := range c06SmallOrderEd25519() {
		pt := pt
		out = append(out, c06AttackResponder(k, fmt.Sprintf("small-order-identity-key/%d", pi), func(cm *c06Conn, o *c06Outcome) {
			if cm.sendHello(honestPub) != nil {
				return
			}
			b, err := cm.readHello()
			if err != nil {
				return
			}
			ab := c06Shared(b, honestPriv)
			aB := c06Shared(c06MontPub(k.B.GetPublic()), honestPriv)
			pkBytes, err := proto.Marshal(&cryptopb.PublicKey{Type: cryptopb.KeyType_Ed25519.Enum(), Data: pt[:]})
			if err != nil {
				return
			}
			// S = 0 and R of small order: [0]B = R + [h]A holds whenever R + [h]A is neutral; the attacker knows the
			// signed message (a.b) and tries the eight candidates for R
			sig := c06ForgeSmallOrderSig(pt, ab[:])
			o.passedBox = true
			if cm.sendBox(c06BoxKey(ab, aB), &c06NonceAuth, &RequesterAuthenticatePayload{RequesterAccountId: pkBytes, RequesterAccountSig: sig}) != nil {
				return
			}
			if _, err := cm.readBoxRaw(); err != nil {
				return
			}
			_ = cm.w.WriteMsg(&RequesterAcknowledgePayload{Success: true})
		}))
	}
	// 2c. the same keys as the account the requester wants to reach (e.g. taken from a contact link made by the
	// adversary): nobody holds their private half, so the requester must not succeed
	for pi, pt := range c06SmallOrderEd25519() {
		pt := pt
		target, err := p2pcrypto.UnmarshalEd25519PublicKey(pt[:])
		if err != nil {
			continue
		}
		o := c06Outcome{label: fmt.Sprintf("small-order-target-key/%d", pi)}
		ca, cm := c06Pipe()
		done := c06RunRequester(ca, k.A, target)
		_ = cm.c.SetDeadline(time.Now().Add(5 * time.Second))
		func() {
			a, err := cm.readHello()
			if err != nil || cm.sendHello(honestPub) != nil {
				return
			}
			if _, err := cm.readBoxRaw(); err != nil {
				return
			}
			o.passedBox = true
			ab := c06Shared(a, honestPriv)
			// A.B is the constant of the zero point: the target's curve25519 form has small order
			sig := c06ForgeSmallOrderSig(pt, ab[:])
			_ = cm.sendBox(c06BoxKey(ab, zeroShared), &c06NonceAccept, &ResponderAcceptPayload{ResponderAccountSig: sig})
			var ack RequesterAcknowledgePayload
			_ = cm.r.ReadMsg(&ack)
		}()
		_ = cm.c.Close()
		if res := <-done; res.err == nil {
			o.violation = "requester-accepted-impostor"
			o.msg = fmt.Sprintf("attack %q: the requester completed the handshake with a peer holding no private key (the targeted account key has small order)", o.label)
		}
		out = append(out, o)
	}
	// 4b. live relay between two concurrent sessions: honest A sends a request to M (targets M's account); M, holding
	// no key of A, opens a session to B and copies A's frames into it. B's peer never proves possession of A's key
	// (the proof A made is bound to the account it targeted), so B must not report A.
	for _, ack := range []string{"forged-ack", "no-ack"} {
		out = append(out, c06AttackResponder(k, "relay-request-addressed-to-adversary/"+ack, func(cm *c06Conn, o *c06Outcome) {
			ca, cma := c06Pipe()
			doneA := c06RunRequester(ca, k.A, k.M.GetPublic())
			defer func() { _ = cma.c.Close(); <-doneA }()
			_ = cma.c.SetDeadline(time.Now().Add(5 * time.Second))
			a, err := cma.readHello()
			if err != nil || cm.sendHello(a) != nil {
				return
			}
			b, err := cm.readHello()
			if err != nil || cma.sendHello(b) != nil {
				return
			}
			raw, err := cma.readBoxRaw()
			if err != nil {
				return
			}
			o.passedBox = true // a genuine proof of A over this very a.b: only the binding to the targeted account stands
			if cm.w.WriteMsg(&BoxEnvelope{Box: raw}) != nil {
				return
			}
			if _, err := cm.readBoxRaw(); err != nil {
				return
			}
			if ack == "forged-ack" {
				_ = cm.w.WriteMsg(&RequesterAcknowledgePayload{Success: true})
			}
		}))
	}
	// 4c. replay of an interrupted session: an honest session A -> B (A targets B) is relayed and recorded; it is cut
	// at a chosen frame, so that B's handshake fails. Then a party holding no key replays A's recorded frames to B in a
	// new session. A takes no part in that session: B must not report A.
	for _, cutAfter := range []int{1, 2, 3, 4} { // frames relayed before the cut: A hello, B hello, A authenticate, B accept
		cutAfter := cutAfter
		var fromA [][]byte
		func() {
			ca, cma := c06Pipe()
			cb, cmb := c06Pipe()
			doneA := c06RunRequester(ca, k.A, k.B.GetPublic())
			doneB := c06RunResponder(cb, k.B)
			_ = cma.c.SetDeadline(time.Now().Add(5 * time.Second))
			_ = cmb.c.SetDeadline(time.Now().Add(5 * time.Second))
			defer func() { _ = cma.c.Close(); _ = cmb.c.Close(); <-doneA; <-doneB }()
			for i := 0; i < cutAfter; i++ {
				src, dst := cma, cmb
				if i%2 == 1 {
					src, dst = cmb, cma
				}
				raw, err := c06ReadRawFrame(src)
				if err != nil {
					return
				}
				if i%2 == 0 {
					fromA = append(fromA, raw)
				}
				if c06WriteRawFrame(dst, raw) != nil {
					return
				}
			}
		}()
		out = append(out, c06AttackResponder(k, fmt.Sprintf("replay-of-interrupted-session/cut-after-%d-frames", cutAfter), func(cm *c06Conn, o *c06Outcome) {
			for i, raw := range fromA {
				if c06WriteRawFrame(cm, raw) != nil {
					return
				}
				if i == 1 {
					o.passedBox = true // a genuine proof of A, recorded in the interrupted session
				}
				if _, err := c06ReadRawFrame(cm); err != nil {
					return
				}
			}
			_ = cm.w.WriteMsg(&RequesterAcknowledgePayload{Success: true})
		}))
	}
	// 4d. the same towards the requester: what B sent in an honest (complete or interrupted) session A -> B is
	// recorded; when A asks for B again, a party holding no key answers with the recorded frames
	for _, relayed := range []int{2, 4, 5} { // frames relayed in the recorded session (5 = complete)
		relayed := relayed
		var fromB [][]byte
		func() {
			ca, cma := c06Pipe()
			cb, cmb := c06Pipe()
			doneA := c06RunRequester(ca, k.A, k.B.GetPublic())
			doneB := c06RunResponder(cb, k.B)
			_ = cma.c.SetDeadline(time.Now().Add(5 * time.Second))
			_ = cmb.c.SetDeadline(time.Now().Add(5 * time.Second))
			defer func() { _ = cma.c.Close(); _ = cmb.c.Close(); <-doneA; <-doneB }()
			for i := 0; i < relayed; i++ {
				src, dst := cma, cmb
				if i%2 == 1 {
					src, dst = cmb, cma
				}
				raw, err := c06ReadRawFrame(src)
				if err != nil {
					return
				}
				if i%2 == 1 {
					fromB = append(fromB, raw)
				}
				if c06WriteRawFrame(dst, raw) != nil {
					return
				}
			}
		}()
		out = append(out, c06AttackRequester(k, fmt.Sprintf("replay-of-recorded-responder-frames/recorded-%d-frames", relayed), func(cm *c06Conn, o *c06Outcome) {
			for _, raw := range fromB {
				if _, err := c06ReadRawFrame(cm); err != nil { // A's hello, then A's authenticate
					return
				}
				if c06WriteRawFrame(cm, raw) != nil {
					return
				}
			}
			_, _ = c06ReadRawFrame(cm) // A's acknowledge, if it gets that far
		}))
	}
	// 5. reflection and re-ordering
	out = append(out, c06AttackResponder(k, "reflect-responder-hello-as-authenticate", func(cm *c06Conn, o *c06Outcome) {
		if cm.sendHello(honestPub) != nil {
			return
		}
		b, err := cm.readHello()
		if err != nil {
			return
		}
		_ = cm.w.WriteMsg(&BoxEnvelope{Box: b[:]})
		_, _ = cm.readBoxRaw()
		_ = cm.w.WriteMsg(&RequesterAcknowledgePayload{Success: true})
	}))
	out = append(out, c06AttackResponder(k, "acknowledge-before-authenticate", func(cm *c06Conn, o *c06Outcome) {
		if cm.sendHello(honestPub) != nil {
			return
		}
		if _, err := cm.readHello(); err != nil {
			return
		}
		_ = cm.w.WriteMsg(&RequesterAcknowledgePayload{Success: true})
		_ = cm.w.WriteMsg(&RequesterAcknowledgePayload{Success: true})
	}))
	out = append(out, c06AttackResponder(k, "short-ephemeral", func(cm *c06Conn, o *c06Outcome) {
		_ = cm.w.WriteMsg(&HelloPayload{EphemeralPubKey: honestPub[:31]})
		_, _ = cm.readHello()
	}))
	out = append(out, c06AttackResponder(k, "oversize-frame", func(cm *c06Conn, o *c06Outcome) {
		if cm.sendHello(honestPub) != nil {
			return
		}
		if _, err := cm.readHello(); err != nil {
			return
		}
		_ = cm.w.WriteMsg(&BoxEnvelope{Box: make([]byte, c06Limit+10)})
	}))
	// 5b. hostile length prefixes in place of the frame the honest party waits for (the largest lengths a varint can
	// carry, lengths around 2^31 / 2^32 / 2^63): an error, never a crash
	hostile := [][]byte{
		{0xff, 0xff, 0xff, 0xff, 0xff, 0xff, 0xff, 0xff, 0xff, 0x01}, // 2^64-1
		{0x80, 0x80, 0x80, 0x80, 0x80, 0x80, 0x80, 0x80, 0x80, 0x01}, // 2^63
		{0xff, 0xff, 0xff, 0xff, 0xff, 0xff, 0xff, 0xff, 0x7f},       // 2^63-1
		{0x80, 0x80, 0x80, 0x80, 0x10},                               // 2^32
		{0xff, 0xff, 0xff, 0xff, 0x07},                               // 2^31-1
	}
	for hi, h := range hostile {
		h := h
		for step := 0; step < 3; step++ { // towards the responder: instead of hello / authenticate / acknowledge
			step := step
			out = append(out, c06AttackResponder(k, fmt.Sprintf("hostile-length-prefix/%d/responder-step%d", hi, step), func(cm *c06Conn, o *c06Outcome) {
				if step >= 1 {
					if cm.sendHello(honestPub) != nil {
						return
					}
					b, err := cm.readHello()
					if err != nil {
						return
					}
					if step >= 2 {
						ab := c06Shared(b, honestPriv)
						aB := c06Shared(c06MontPub(k.B.GetPublic()), honestPriv)
						sig, _ := k.M.Sign(ab[:])
						if cm.sendBox(c06BoxKey(ab, aB), &c06NonceAuth, &RequesterAuthenticatePayload{RequesterAccountId: c06PubBytes(k.M.GetPublic()), RequesterAccountSig: sig}) != nil {
							return
						}
						if _, err := cm.readBoxRaw(); err != nil {
							return
						}
					}
				}
				_, _ = cm.c.Write(h)
			}))
		}
		for step := 0; step < 2; step++ { // towards the requester: instead of hello / accept
			step := step
			out = append(out, c06AttackRequester(k, fmt.Sprintf("hostile-length-prefix/%d/requester-step%d", hi, step), func(cm *c06Conn, o *c06Outcome) {
				if _, err := cm.readHello(); err != nil {
					return
				}
				if step >= 1 {
					if cm.sendHello(honestPub) != nil {
						return
					}
					if _, err := cm.readBoxRaw(); err != nil {
						return
					}
				}
				_, _ = cm.c.Write(h)
			}))
		}
	}
	// 6. foreign key types with a valid proof: recorded, the statement does not forbid a proven foreign key
	// (the responder either refuses or reports exactly the proven key)
	// 7. adversary in the responder seat (honest requester A targets B)
	for li, low := range lows {
		low := low
		out = append(out, c06AttackRequester(k, fmt.Sprintf("responder-low-order-ephemeral/%d", li), func(cm *c06Conn, o *c06Outcome) {
			a, err := cm.readHello()
			if err != nil || cm.sendHello(&low) != nil {
				return
			}
			if _, err := cm.readBoxRaw(); err != nil {
				return
			}
			// the accept box is keyed by a.b and A.B; the adversary knows a.b (constant) but not A.B: best effort with a.M
			sig, _ := k.M.Sign(zeroShared[:])
			_ = cm.sendBox(c06BoxKey(zeroShared, c06Shared(a, c06Mont(k.M))), &c06NonceAccept, &ResponderAcceptPayload{ResponderAccountSig: sig})
			var ack RequesterAcknowledgePayload
			_ = cm.r.ReadMsg(&ack)
		}))
	}
	out = append(out, c06AttackRequester(k, "responder-signs-with-own-key", func(cm *c06Conn, o *c06Outcome) {
		a, err := cm.readHello()
		if err != nil || cm.sendHello(honestPub) != nil {
			return
		}
		if _, err := cm.readBoxRaw(); err != nil {
			return
		}
		ab := c06Shared(a, honestPriv)
		sig, _ := k.M.Sign(ab[:])
		_ = cm.sendBox(c06BoxKey(ab, c06Shared(c06MontPub(k.A.GetPublic()), c06Mont(k.M))), &c06NonceAccept, &ResponderAcceptPayload{ResponderAccountSig: sig})
		var ack RequesterAcknowledgePayload
		_ = cm.r.ReadMsg(&ack)
	}))
	out = append(out, c06AttackRequester(k, "responder-reflects-authenticate-frame", func(cm *c06Conn, o *c06Outcome) {
		if _, err := cm.readHello(); err != nil || cm.sendHello(honestPub) != nil {
			return
		}
		raw, err := cm.readBoxRaw()
		if err != nil {
			return
		}
		_ = cm.w.WriteMsg(&BoxEnvelope{Box: raw})
		var ack RequesterAcknowledgePayload
		_ = cm.r.ReadMsg(&ack)
	}))
	out = append(out, c06AttackRequester(k, "responder-reflects-requester-ephemeral", func(cm *c06Conn, o *c06Outcome) {
		a, err := cm.readHello()
		if err != nil || cm.sendHello(a) != nil {
			return
		}
		raw, err := cm.readBoxRaw()
		if err != nil {
			return
		}
		_ = cm.w.WriteMsg(&BoxEnvelope{Box: raw})
		var ack RequesterAcknowledgePayload
		_ = cm.r.ReadMsg(&ack)
	}))
	_ = rt
	return out
}

func TestVerif_C06_Catalogue(t *testing.T) {
	acct := vacct.Get("C06")
	vacct.RapidCheck(t, vacct.N(4, 400), func(rt *rapid.T) {
		k := c06NewKeys()
		// honest session first: both complete, the responder learns exactly A
		{
			ca, cb := c06Pipe()
			da := c06RunRequester(ca, k.A, k.B.GetPublic())
			db := c06RunResponder(cb, k.B)
			ra, rb := <-da, <-db
			if ra.err != nil || rb.err != nil {
				acct.Violation("honest-handshake-fails", "TestVerif_C06_Catalogue", map[string]any{"requester": fmt.Sprint(ra.err), "responder": fmt.Sprint(rb.err)})
				rt.Fatalf("honest handshake failed: requester=%v responder=%v", ra.err, rb.err)
			}
			if !rb.pk.Equals(k.A.GetPublic()) {
				acct.Violation("honest-wrong-identity", "TestVerif_C06_Catalogue", map[string]any{})
				rt.Fatalf("responder learnt another key than the requester's")
			}
			acct.Case(true, "honest", func() any { return map[string]any{"kind": "honest-session"} }, "honest")
		}
		// honest session over a transport that delivers the bytes in small segments (a stream may split any write)
		{
			seg := rapid.SampledFrom([]int{1, 2, 7, 16, 33}).Draw(rt, "segment")
			ca, ra0 := c06Pipe()
			cb, rb0 := c06Pipe()
			pump := func(src, dst *c06Conn) {
				buf := make([]byte, seg)
				for {
					n, err := src.c.Read(buf)
					if n > 0 {
						if _, werr := dst.c.Write(buf[:n]); werr != nil {
							return
						}
					}
					if err != nil {
						_ = dst.c.Close()
						return
					}
				}
			}
			go pump(ra0, rb0)
			go pump(rb0, ra0)
			da := c06RunRequester(ca, k.A, k.B.GetPublic())
			db := c06RunResponder(cb, k.B)
			ra, rb := <-da, <-db
			_ = ra0.c.Close()
			_ = rb0.c.Close()
			if ra.err != nil || rb.err != nil {
				acct.Violation("honest-handshake-fails/segmented-transport", "TestVerif_C06_Catalogue", map[string]any{"segment_bytes": seg, "requester": fmt.Sprint(ra.err), "responder": fmt.Sprint(rb.err)})
				rt.Fatalf("honest handshake over a transport delivering %d-byte segments failed: requester=%v responder=%v", seg, ra.err, rb.err)
			}
			if !rb.pk.Equals(k.A.GetPublic()) {
				acct.Violation("honest-wrong-identity", "TestVerif_C06_Catalogue", map[string]any{"segment_bytes": seg})
				rt.Fatalf("responder learnt another key than the requester's")
			}
			acct.Case(true, fmt.Sprintf("honest-seg%d", seg), func() any { return map[string]any{"kind": "honest-session", "segment_bytes": seg} }, "honest", "honest/segmented-transport")
		}
		// wrong target: A targets M's key while talking to B
		{
			ca, cb := c06Pipe()
			da := c06RunRequester(ca, k.A, k.M.GetPublic())
			db := c06RunResponder(cb, k.B)
			ra, rb := <-da, <-db
			if ra.err == nil {
				acct.Violation("requester-accepted-impostor/wrong-target", "TestVerif_C06_Catalogue", map[string]any{})
				rt.Fatalf("requester completed although the responder does not hold the targeted key")
			}
			if rb.err == nil && !rb.pk.Equals(k.A.GetPublic()) {
				acct.Violation("responder-authenticated-absent-party/wrong-target", "TestVerif_C06_Catalogue", map[string]any{})
				rt.Fatalf("responder reports a key nobody proved")
			}
			acct.Case(true, "wrong-target", func() any { return map[string]any{"kind": "wrong-target"} }, "wrong-target")
		}
		for _, o := range c06Catalogue(k, rt) {
			acct.Case(o.passedBox || o.violation != "", o.label, func() any { return map[string]any{"kind": "attack", "attack": o.label, "past_box_opening": o.passedBox} },
				"attack", lbl(o.passedBox, "attack/only-proof-stands"))
			if o.violation != "" {
				id := o.violation + "/" + labelClass(o.label)
				acct.Violation(id, "TestVerif_C06_Catalogue", map[string]any{"attack": o.label, "msg": o.msg})
				rt.Fatalf("C06 %s: %s", id, o.msg)
			}
		}
	})
}

func labelClass(l string) string {
	for i := 0; i < len(l); i++ {
		if l[i] == '/' {
			return l[:i]
		}
	}
	return l
}

func lbl(b bool, s string) string {
	if b {
		return s
	}
	return "-"
}

// tampering with an otherwise honest session: every single-bit flip / truncation of every frame
func TestVerif_C06_Tamper(t *testing.T) {
	acct := vacct.Get("C06")
	vacct.RapidCheck(t, vacct.N(150, 20000), func(rt *rapid.T) {
		k := c06NewKeys()
		// A <-> (tamper) <-> B
		ca, ma := c06Pipe() // A side, adversary end ma
		mb, cb := c06Pipe() // adversary end mb, B side
		da := c06RunRequester(ca, k.A, k.B.GetPublic())
		db := c06RunResponder(cb, k.B)
		frame := rapid.IntRange(0, 4).Draw(rt, "frame") // 0 hello a, 1 hello b, 2 authenticate, 3 accept, 4 acknowledge
		mode := rapid.SampledFrom([]string{"bit-flip", "truncate", "drop", "duplicate"}).Draw(rt, "mode")
		pos := rapid.IntRange(0, 4000).Draw(rt, "pos")
		// a tampered length prefix leaves both honest parties waiting for bytes that never come: the relay gives up
		// quickly and closes the connection (a session that ends that way is a rejection, never a violation)
		_ = ma.c.SetDeadline(time.Now().Add(400 * time.Millisecond))
		_ = mb.c.SetDeadline(time.Now().Add(400 * time.Millisecond))
		// frames alternate direction: A->B, B->A, A->B, B->A, A->B
		tampered := false
		for i := 0; i < 5; i++ {
			src, dst := ma, mb
			if i%2 == 1 {
				src, dst = mb, ma
			}
			raw, err := c06ReadRawFrame(src)
			if err != nil {
				break
			}
			if i == frame {
				tampered = true
				switch mode {
				case "bit-flip":
					if len(raw) > 0 {
						p := pos % (len(raw) * 8)
						raw[p/8] ^= 1 << uint(p%8)
					}
				case "truncate":
					if len(raw) > 0 {
						raw = raw[:pos%len(raw)]
					}
				case "drop":
					raw = nil
				case "duplicate":
					_ = c06WriteRawFrame(dst, raw)
				}
			}
			if len(raw) > 0 && c06WriteRawFrame(dst, raw) != nil {
				break
			}
			if i == frame && (mode == "drop" || mode == "truncate") {
				break // the stream cannot resynchronise: end of the connection
			}
		}
		_ = ma.c.Close()
		_ = mb.c.Close()
		ra, rb := <-da, <-db
		// whatever happened to the frames: a key is reported only if it is the requester's, who took part in this session
		if rb.err == nil && !rb.pk.Equals(k.A.GetPublic()) {
			acct.Violation("responder-authenticated-absent-party/tamper", "TestVerif_C06_Tamper", map[string]any{"frame": frame, "mode": mode, "pos": pos})
			rt.Fatalf("tampered session: responder reports a key that is not the requester's")
		}
		_ = ra
		acct.Case(tampered, fmt.Sprintf("%d|%s|%d", frame, mode, pos), func() any {
			return map[string]any{"kind": "tamper", "frame": frame, "mode": mode, "pos": pos, "requester_ok": ra.err == nil, "responder_ok": rb.err == nil}
		}, "tamper", "tamper/"+mode)
	})
}

// foreign key types in the identity field (valid and invalid proofs): outcomes recorded, nothing but "reports only a proven key" asserted
func TestVerif_C06_ForeignKeys(t *testing.T) {
	acct := vacct.Get("C06")
	k := c06NewKeys()
	rsa, _, _ := p2pcrypto.GenerateRSAKeyPair(2048, crand.Reader)
	secp, _, _ := p2pcrypto.GenerateSecp256k1Key(crand.Reader)
	ecd, _ := ecdsa.GenerateKey(elliptic.P256(), crand.Reader)
	ecdk, _, _ := p2pcrypto.ECDSAKeyPairFromKey(ecd)
	for name, fk := range map[string]p2pcrypto.PrivKey{"rsa": rsa, "secp256k1": secp, "ecdsa": ecdk} {
		for _, valid := range []bool{true, false} {
			honestPub, honestPriv, _ := box.GenerateKey(crand.Reader)
			o := c06Outcome{label: fmt.Sprintf("foreign-key-%s/valid-proof=%v", name, valid)}
			cb, cm := c06Pipe()
			done := c06RunResponder(cb, k.B)
			_ = cm.c.SetDeadline(time.Now().Add(5 * time.Second))
			func() {
				if cm.sendHello(honestPub) != nil {
					return
				}
				b, err := cm.readHello()
				if err != nil {
					return
				}
				ab := c06Shared(b, honestPriv)
				aB := c06Shared(c06MontPub(k.B.GetPublic()), honestPriv)
				sig, _ := fk.Sign(ab[:])
				if !valid {
					sig, _ = k.M.Sign(ab[:])
				}
				if cm.sendBox(c06BoxKey(ab, aB), &c06NonceAuth, &RequesterAuthenticatePayload{RequesterAccountId: c06PubBytes(fk.GetPublic()), RequesterAccountSig: sig}) != nil {
					return
				}
				if _, err := cm.readBoxRaw(); err != nil {
					return
				}
				_ = cm.w.WriteMsg(&RequesterAcknowledgePayload{Success: true})
			}()
			_ = cm.c.Close()
			res := <-done
			if valid {
				c06JudgeResponder(&o, res, k, k.M, fk)
			} else {
				c06JudgeResponder(&o, res, k, k.M)
			}
			acct.Case(true, o.label, func() any { return map[string]any{"kind": "foreign-key", "attack": o.label, "responder_accepted": res.err == nil} }, "foreign-key")
			if o.violation != "" {
				acct.Violation(o.violation+"/foreign-key", "TestVerif_C06_ForeignKeys", map[string]any{"attack": o.label, "msg": o.msg})
				t.Errorf("C06: %s", o.msg)
			}
		}
	}
}

func c06ReadRawFrame(c *c06Conn) ([]byte, error) {
	// varint length + body, as the delimited writer frames it
	var lenBuf []byte
	one := make([]byte, 1)
	for {
		if _, err := c.c.Read(one); err != nil {
			return nil, err
		}
		lenBuf = append(lenBuf, one[0])
		if one[0] < 0x80 {
			break
		}
		if len(lenBuf) > 10 {
			return nil, fmt.Errorf("bad varint")
		}
	}
	var n uint64
	for i, b := range lenBuf {
		n |= uint64(b&0x7f) << (7 * uint(i))
	}
	body := make([]byte, n)
	read := 0
	for read < int(n) {
		k, err := c.c.Read(body[read:])
		read += k
		if err != nil {
			return nil, err
		}
	}
	return append(lenBuf, body...), nil
}

func c06WriteRawFrame(c *c06Conn, raw []byte) error {
	_, err := c.c.Write(raw)
	return err
}
