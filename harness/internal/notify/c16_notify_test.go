//go:build verif

package notify

import (
	"context"
	"fmt"
	"os"
	"sync"
	"testing"

	"pgregory.net/rapid"

	"berty.tech/weshnet/v2/internal/vacct"
	"berty.tech/weshnet/v2/internal/vsched"
)

func TestMain(m *testing.M) { os.Exit(vacct.Main(m)) }

// C16, notify primitive alone: waiters sleep in Wait under an external mutex
// while an updater changes a value and broadcasts (the documented usage).

type c16NotifyScenario struct {
	Waiters       int  `json:"waiters"`
	Updates       int  `json:"updates"`
	CancelFirst   bool `json:"cancel_first"`   // a canceller cancels waiter 0
}

func c16NotifyRun(t *testing.T, sc c16NotifyScenario, choices []int) vsched.Outcome {
	var (
		mu        sync.Mutex
		value     int
		seen      = make([]int, sc.Waiters)
		returned  = make([]bool, sc.Waiters) // waiter left its loop (cancelled)
		cancelled bool
		n         *Notify
	)
	var out vsched.Outcome
	out.Res = vsched.Run(t, vsched.Options{Choices: choices, MaxSteps: 800}, func(s *vsched.Sched) {
		n = New(&mu)
		ctxs := make([]context.Context, sc.Waiters)
		cancels := make([]context.CancelFunc, sc.Waiters)
		for i := range ctxs {
			ctxs[i], cancels[i] = context.WithCancel(context.Background())
		}
		for i := 0; i < sc.Waiters; i++ {
			s.Go(fmt.Sprintf("waiter%d", i), func() {
				vsched.Lock(&mu, mu.Lock, mu.TryLock, "h:lock")
				for {
					for seen[i] == value {
						if ok := n.Wait(ctxs[i]); !ok {
							returned[i] = true
							vsched.Unlock(&mu, mu.Unlock, "h:unlock")
							return
						}
					}
					seen[i] = value
				}
			})
		}
		s.Go("updater", func() {
			for u := 0; u < sc.Updates; u++ {
				vsched.Lock(&mu, mu.Lock, mu.TryLock, "h:lock")
				value++
				n.Broadcast()
				vsched.Unlock(&mu, mu.Unlock, "h:unlock")
			}
		})
		if sc.CancelFirst {
			s.Go("canceller", func() {
				vsched.Yield("h:cancel")
				cancelled = true
				cancels[0]()
			})
		}
		s.Cleanup = func() {
			for _, c := range cancels {
				c()
			}
		}
	})
	out.Standard()
	if st := out.Res.Status("updater"); st != nil && st.State != "done" {
		out.Fail("updater-stuck", "updater did not finish: %+v", *st)
	}
	slept := false
	for i := 0; i < sc.Waiters; i++ {
		st := out.Res.Status(fmt.Sprintf("waiter%d", i))
		if st == nil {
			continue
		}
		if st.State == "blocked" {
			slept = true
			if seen[i] != value {
				out.Fail("missed-update", "waiter%d asleep at %s having seen %d while the value is %d", i, st.Point, seen[i], value)
			}
			if i == 0 && cancelled {
				out.Fail("cancel-ignored", "waiter0 still asleep at %s after its context was cancelled", st.Point)
			}
		}
	}
	// non-trivial: an update happened between a waiter's check and its sleep
	out.NonTrivial = slept && c16UpdateInWindow(out.Res)
	if out.NonTrivial {
		out.Labels = append(out.Labels, "notify/update-between-check-and-sleep")
	}
	if sc.CancelFirst {
		out.Labels = append(out.Labels, "notify/with-cancel")
	}
	return out
}

// an updater step lies between a waiter's acquisition of L and its select
func c16UpdateInWindow(r *vsched.Result) bool {
	lastW := map[string]int{}
	for i, st := range r.Trace {
		if len(st.G) >= 6 && st.G[:6] == "waiter" {
			if j, ok := lastW[st.G]; ok && hasSuffix(st.Point, ":select") {
				for k := j + 1; k < i; k++ {
					if r.Trace[k].G == "updater" {
						return true
					}
				}
			}
			lastW[st.G] = i
		}
	}
	return false
}

func hasSuffix(s, suf string) bool { return len(s) >= len(suf) && s[len(s)-len(suf):] == suf }

func TestVerif_C16_Notify(t *testing.T) {
	e := &vsched.Explorer[c16NotifyScenario]{PID: "C16", Prefix: "notify", Test: "TestVerif_C16_Notify", Run: c16NotifyRun}
	if p := vacct.ReplayPath(); p != "" {
		e.Replay(t, p)
		return
	}
	scs := []c16NotifyScenario{{Waiters: 1, Updates: 1}, {Waiters: 1, Updates: 2}, {Waiters: 2, Updates: 1}, {Waiters: 1, Updates: 1, CancelFirst: true}}
	maxRuns, maxPre := 8000, 4
	if vacct.Thorough() {
		scs = append(scs, c16NotifyScenario{Waiters: 1, Updates: 3}, c16NotifyScenario{Waiters: 2, Updates: 2}, c16NotifyScenario{Waiters: 2, Updates: 2, CancelFirst: true})
		maxRuns, maxPre = 300000, 8
	}
	shard, nshards := vacct.Shard()
	for i, sc := range scs {
		if i%nshards == shard {
			e.DFS(t, sc, maxPre, maxRuns)
		}
	}
}

func TestVerif_C16_NotifyRandom(t *testing.T) {
	e := &vsched.Explorer[c16NotifyScenario]{PID: "C16", Prefix: "notify", Test: "TestVerif_C16_NotifyRandom", Run: c16NotifyRun}
	if p := vacct.ReplayPath(); p != "" {
		e.Replay(t, p)
		return
	}
	e.Random(t, vacct.N(600, 60000), func(rt *rapid.T) c16NotifyScenario {
		return c16NotifyScenario{Waiters: rapid.IntRange(1, 3).Draw(rt, "w"), Updates: rapid.IntRange(1, 4).Draw(rt, "u"),
			CancelFirst: rapid.Bool().Draw(rt, "c")}
	}, 150)
}
