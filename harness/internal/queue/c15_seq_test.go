//go:build verif

package queue

import (
	"context"
	"fmt"
	"sort"
	"strings"
	"testing"

	"pgregory.net/rapid"

	"berty.tech/weshnet/v2/internal/vacct"
)

// C15, sequential half: SimpleQueue against a slice model, PriorityQueue against
// a sorted multiset model (DESIGN.md section 5, C15).

type c15Item struct {
	id int
	c  uint64
}

func (i *c15Item) Counter() uint64 { return i.c }

func TestVerif_C15_SeqSimple(t *testing.T) {
	acct := vacct.Get("C15")
	vacct.RapidCheck(t, vacct.N(1500, 200000), func(rt *rapid.T) {
		q := NewSimpleQueue[int]("v", &noopTracer[int]{})
		var model []int
		var ops []string
		next := 0
		cancelled, cancel := context.WithCancel(context.Background())
		cancel()
		popAfterAdd, waitCancelEmpty, waitNonEmpty := false, false, false
		fail := func(ident, msg string) {
			acct.Violation("seq-simple/"+ident, "TestVerif_C15_SeqSimple", map[string]any{"ops": ops, "msg": msg})
			rt.Fatalf("%s: %s (ops %v)", ident, msg, ops)
		}
		rt.Repeat(map[string]func(*rapid.T){
			"add": func(rt *rapid.T) {
				n := rapid.IntRange(1, 3).Draw(rt, "n")
				for i := 0; i < n; i++ {
					q.Add(next)
					model = append(model, next)
					ops = append(ops, fmt.Sprintf("add(%d)", next))
					next++
				}
			},
			"burst": func(rt *rapid.T) {
				k := rapid.IntRange(20, 300).Draw(rt, "k")
				ops = append(ops, fmt.Sprintf("add x%d from %d", k, next))
				for i := 0; i < k; i++ {
					q.Add(next)
					model = append(model, next)
					next++
				}
			},
			"popMany": func(rt *rapid.T) {
				if len(model) < 2 {
					rt.Skip("nearly empty")
				}
				j := rapid.IntRange(1, len(model)).Draw(rt, "j")
				ops = append(ops, fmt.Sprintf("pop x%d", j))
				for i := 0; i < j; i++ {
					v, ok := q.Pop()
					if !ok || v != model[0] {
						fail("pop-order", fmt.Sprintf("Pop = (%d,%v), model head %d", v, ok, model[0]))
					}
					model = model[1:]
				}
				popAfterAdd = true
			},
			"pop": func(rt *rapid.T) {
				v, ok := q.Pop()
				ops = append(ops, fmt.Sprintf("pop=%d,%v", v, ok))
				if len(model) == 0 {
					if ok {
						fail("pop-empty", fmt.Sprintf("Pop on empty queue returned (%d,true)", v))
					}
					return
				}
				popAfterAdd = true
				if !ok || v != model[0] {
					fail("pop-order", fmt.Sprintf("Pop = (%d,%v), model head %d", v, ok, model[0]))
				}
				model = model[1:]
			},
			"wait": func(rt *rapid.T) {
				if len(model) == 0 {
					rt.Skip("would block")
				}
				waitNonEmpty = true
				v, ok := q.WaitForItem(context.Background())
				ops = append(ops, fmt.Sprintf("wait=%d,%v", v, ok))
				if !ok || v != model[0] {
					fail("wait-order", fmt.Sprintf("WaitForItem = (%d,%v), model head %d", v, ok, model[0]))
				}
				model = model[1:]
			},
			"waitCancelled": func(rt *rapid.T) {
				// a cancelled wait returns "no item" and takes nothing
				v, ok := q.WaitForItem(cancelled)
				ops = append(ops, fmt.Sprintf("waitCancelled=%d,%v", v, ok))
				if len(model) == 0 {
					waitCancelEmpty = true
				}
				if ok {
					// the statement says a cancelled wait returns 'no item'
					fail("wait-cancelled-returns-item", fmt.Sprintf("WaitForItem(cancelled ctx) = (%d,true)", v))
				}
			},
			"": func(rt *rapid.T) {
				if q.list.Len() != len(model) {
					fail("len", fmt.Sprintf("queue holds %d items, model %d", q.list.Len(), len(model)))
				}
			},
		})
		// drain: everything left comes out in order, exactly once
		for len(model) > 0 {
			v, ok := q.Pop()
			if !ok || v != model[0] {
				fail("drain", fmt.Sprintf("drain Pop = (%d,%v), model head %d", v, ok, model[0]))
			}
			model = model[1:]
		}
		if v, ok := q.Pop(); ok {
			fail("drain-extra", fmt.Sprintf("extra item %d after drain", v))
		}
		nt := popAfterAdd && waitNonEmpty && next >= 3
		acct.Case(nt, "simple:"+strings.Join(ops, ","), func() any { return map[string]any{"kind": "seq-simple", "ops": ops} },
			"seq-simple", lbl(waitCancelEmpty, "seq-simple/wait-cancelled-on-empty"), lbl(waitNonEmpty, "seq-simple/wait-nonempty"))
	})
}

func lbl(b bool, s string) string {
	if b {
		return s
	}
	return "-"
}

func TestVerif_C15_SeqPriority(t *testing.T) {
	acct := vacct.Get("C15")
	vacct.RapidCheck(t, vacct.N(1500, 200000), func(rt *rapid.T) {
		pq := NewPriorityQueue[*c15Item]("v", &noopTracer[*c15Item]{})
		var model []*c15Item // kept sorted by counter (stable)
		var ops []string
		next := 0
		ties, nextAllUsed, nextAllErr, bursts := false, false, false, false
		fail := func(ident, msg string) {
			acct.Violation("seq-priority/"+ident, "TestVerif_C15_SeqPriority", map[string]any{"ops": ops, "msg": msg})
			rt.Fatalf("%s: %s (ops %v)", ident, msg, ops)
		}
		minCounter := func() uint64 {
			m := model[0].c
			for _, it := range model {
				if it.c < m {
					m = it.c
				}
			}
			return m
		}
		remove := func(it *c15Item) bool {
			for i, m := range model {
				if m == it {
					model = append(model[:i:i], model[i+1:]...)
					return true
				}
			}
			return false
		}
		cmax := rapid.SampledFrom([]uint64{2, 5, 50, 1 << 40, ^uint64(0)}).Draw(rt, "cmax") // the counter comes from the sender's header: any uint64
		rt.Repeat(map[string]func(*rapid.T){
			"add": func(rt *rapid.T) {
				c := rapid.Uint64Range(0, cmax).Draw(rt, "c")
				it := &c15Item{id: next, c: c}
				next++
				for _, m := range model {
					if m.c == c {
						ties = true
					}
				}
				pq.Add(it)
				model = append(model, it)
				ops = append(ops, fmt.Sprintf("add(#%d,c=%d)", it.id, c))
			},
			"burst": func(rt *rapid.T) {
				// many messages of a device parked at once (its key has not arrived yet)
				k := rapid.IntRange(20, 300).Draw(rt, "k")
				mul := rapid.Uint64Range(1, 1<<20).Draw(rt, "mul")
				for i := 0; i < k; i++ {
					c := (uint64(i+1) * mul * 0x9E3779B97F4A7C15) % (cmax/2 + 1)
					it := &c15Item{id: next, c: c}
					next++
					pq.Add(it)
					model = append(model, it)
				}
				bursts = true
				ops = append(ops, fmt.Sprintf("burst(k=%d,mul=%d)", k, mul))
			},
			"nextMany": func(rt *rapid.T) {
				if len(model) < 2 {
					rt.Skip("nearly empty")
				}
				j := rapid.IntRange(1, len(model)).Draw(rt, "j")
				ops = append(ops, fmt.Sprintf("next x%d", j))
				for i := 0; i < j; i++ {
					it := pq.Next()
					if it == nil {
						fail("next-lost", fmt.Sprintf("Next returned nothing with %d pending", len(model)))
					}
					if it.c != minCounter() {
						fail("next-not-min", fmt.Sprintf("Next gave counter %d, smallest pending %d", it.c, minCounter()))
					}
					if !remove(it) {
						fail("next-dup", fmt.Sprintf("Next gave item #%d which is not pending (duplicate or invented)", it.id))
					}
				}
			},
			"next": func(rt *rapid.T) {
				it := pq.Next()
				if len(model) == 0 {
					ops = append(ops, "next=nil")
					if it != nil {
						fail("next-empty", "Next on empty queue returned an item")
					}
					return
				}
				if it == nil {
					ops = append(ops, "next=nil")
					fail("next-lost", fmt.Sprintf("Next returned nothing with %d pending", len(model)))
				}
				ops = append(ops, fmt.Sprintf("next=#%d,c=%d", it.id, it.c))
				if it.c != minCounter() {
					fail("next-not-min", fmt.Sprintf("Next gave counter %d, smallest pending %d", it.c, minCounter()))
				}
				if !remove(it) {
					fail("next-dup", fmt.Sprintf("Next gave item #%d which is not pending (duplicate or invented)", it.id))
				}
			},
			"nextAll": func(rt *rapid.T) {
				if len(model) == 0 {
					rt.Skip("empty")
				}
				nextAllUsed = true
				stopAt := rapid.IntRange(-1, len(model)-1).Draw(rt, "stopAt")
				var got []*c15Item
				err := pq.NextAll(func(it *c15Item) error {
					got = append(got, it)
					if len(got)-1 == stopAt {
						return fmt.Errorf("stop")
					}
					return nil
				})
				ops = append(ops, fmt.Sprintf("nextAll(stopAt=%d)->%d", stopAt, len(got)))
				if stopAt >= 0 {
					nextAllErr = true
					if err == nil {
						fail("nextall-err", "NextAll swallowed the callback error")
					}
				} else if err != nil {
					fail("nextall-err", "NextAll returned an error the callback did not produce")
				}
				last := uint64(0)
				for i, it := range got {
					if it == nil {
						fail("nextall-nil", "NextAll handed a nil item")
					}
					if i > 0 && it.c < last {
						fail("nextall-order", fmt.Sprintf("NextAll not ascending: %d after %d", it.c, last))
					}
					if it.c != minCounter() {
						fail("nextall-not-min", fmt.Sprintf("NextAll gave counter %d, smallest pending %d", it.c, minCounter()))
					}
					last = it.c
					if !remove(it) {
						fail("nextall-dup", fmt.Sprintf("NextAll gave item #%d which is not pending", it.id))
					}
				}
				if stopAt < 0 && len(model) != 0 {
					fail("nextall-left", fmt.Sprintf("NextAll left %d items", len(model)))
				}
			},
			"": func(rt *rapid.T) {
				if pq.Size() != len(model) {
					fail("size", fmt.Sprintf("Size()=%d, model %d", pq.Size(), len(model)))
				}
			},
		})
		// drain and compare as multisets
		var rest []int
		for pq.Size() > 0 {
			it := pq.Next()
			if it == nil || it.c != minCounter() || !remove(it) {
				fail("drain", "drain mismatch")
			}
			rest = append(rest, it.id)
		}
		sort.Ints(rest)
		if len(model) != 0 {
			fail("drain-lost", fmt.Sprintf("%d items lost", len(model)))
		}
		nt := ties && next >= 3
		acct.Case(nt, "prio:"+strings.Join(ops, ","), func() any { return map[string]any{"kind": "seq-priority", "ops": ops} },
			"seq-priority", lbl(ties, "seq-priority/ties"), lbl(nextAllUsed, "seq-priority/nextall"), lbl(nextAllErr, "seq-priority/nextall-callback-error"), lbl(bursts, "seq-priority/burst-of-parked-items"))
	})
}

// bounded-exhaustive tier for the priority queue: every order of adding n distinct counters, every split "add the
// first k, take j, add the rest", drained with Next or NextAll; each item handed out must be the smallest pending one.
func TestVerif_C15_PriorityPermutations(t *testing.T) {
	acct := vacct.Get("C15")
	maxN := 6
	if vacct.Thorough() {
		maxN = 8
	}
	shard, nshards := vacct.Shard()
	cases := 0
	var perm func(a []int, k int, f func([]int) bool) bool
	perm = func(a []int, k int, f func([]int) bool) bool {
		if k == len(a) {
			return f(a)
		}
		for i := k; i < len(a); i++ {
			a[k], a[i] = a[i], a[k]
			ok := perm(a, k+1, f)
			a[k], a[i] = a[i], a[k]
			if !ok {
				return false
			}
		}
		return true
	}
	for n := 1; n <= maxN; n++ {
		base := make([]int, n)
		for i := range base {
			base[i] = i + 1
		}
		pi := 0
		ok := perm(base, 0, func(order []int) bool {
			pi++
			if pi%nshards != shard {
				return true
			}
			for k := 1; k <= n; k++ {
				for j := 0; j <= k; j++ {
					if k == n && j > 0 {
						continue // same as draining
					}
					for _, useAll := range []bool{false, true} {
						pq := NewPriorityQueue[*c15Item]("v", &noopTracer[*c15Item]{})
						pending := map[int]bool{}
						var got []int
						min := func() int {
							m := 1 << 30
							for c := range pending {
								if c < m {
									m = c
								}
							}
							return m
						}
						bad := ""
						take := func(it *c15Item) {
							if it == nil {
								bad = fmt.Sprintf("nothing handed out with %d pending", len(pending))
								return
							}
							got = append(got, int(it.c))
							if !pending[int(it.c)] {
								bad = fmt.Sprintf("counter %d handed out but not pending", it.c)
							} else if int(it.c) != min() {
								bad = fmt.Sprintf("counter %d handed out while %d is pending", it.c, min())
							}
							delete(pending, int(it.c))
						}
						for i := 0; i < k; i++ {
							pq.Add(&c15Item{id: order[i], c: uint64(order[i])})
							pending[order[i]] = true
						}
						for i := 0; i < j && bad == ""; i++ {
							take(pq.Next())
						}
						for i := k; i < n; i++ {
							pq.Add(&c15Item{id: order[i], c: uint64(order[i])})
							pending[order[i]] = true
						}
						if useAll {
							_ = pq.NextAll(func(it *c15Item) error {
								if bad == "" {
									take(it)
								}
								return nil
							})
						} else {
							for len(pending) > 0 && bad == "" {
								take(pq.Next())
							}
						}
						if bad == "" && (len(pending) != 0 || pq.Size() != 0) {
							bad = fmt.Sprintf("%d items never handed out (Size %d)", len(pending), pq.Size())
						}
						cases++
						if bad != "" {
							detail := map[string]any{"add_order": append([]int(nil), order...), "added_before_taking": k, "taken_in_between": j, "drained_with_NextAll": useAll, "handed_out": got, "msg": bad}
							acct.Violation("perm-priority/not-min", "TestVerif_C15_PriorityPermutations", detail)
							t.Errorf("C15 priority queue: add order %v (first %d, then %d Next, then the rest; NextAll=%v) handed out %v: %s", order, k, j, useAll, got, bad)
							return false
						}
					}
				}
			}
			if pi%97 == 0 || n <= 3 {
				o := append([]int(nil), order...)
				acct.Case(n >= 4, fmt.Sprintf("perm|%v", o), func() any { return map[string]any{"kind": "perm-priority", "add_order": o} }, "perm-priority")
			}
			return true
		})
		if !ok {
			return
		}
	}
	acct.LabelN("perm-priority/sequences", int64(cases))
	acct.Note("perm-priority", map[string]any{"max_n": maxN, "sequences_in_this_shard": cases, "exhaustive_for": "all add orders of n distinct counters, n<=max_n, all (k,j) splits, Next and NextAll drains"})
}
