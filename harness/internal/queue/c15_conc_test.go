//go:build verif

package queue

import (
	"context"
	"encoding/json"
	"fmt"
	"os"
	"strings"
	"sync"
	"testing"

	"pgregory.net/rapid"

	"berty.tech/weshnet/v2/internal/vacct"
	"berty.tech/weshnet/v2/internal/vsched"
)

// C15, concurrent half: producers, one consumer and an optional canceller run
// on the real SimpleQueue (instrumented copy) under a harness-owned schedule.

type c15Scenario struct {
	Producers []int `json:"producers"` // items added by each producer
	Cancel    bool  `json:"cancel"`    // a canceller goroutine cancels the consumer's context
	PopMix    bool  `json:"pop_mix"`   // the consumer alternates WaitForItem with Pop
}

func (sc c15Scenario) total() int {
	n := 0
	for _, p := range sc.Producers {
		n += p
	}
	return n
}

type orderTracer struct {
	mu    sync.Mutex
	order []int
}

func (o *orderTracer) ItemQueued(_ string, item int) {
	vsched.Yield("h:metrics") // the tracer is outside code: other tasks may run while it is called
	o.mu.Lock()
	o.order = append(o.order, item)
	o.mu.Unlock()
}
func (o *orderTracer) ItemPop(string, int) {}

type c15Outcome struct {
	violation string // identity suffix, "" if none
	msg       string
	window    bool // an Add completed between the consumer's unlock and its select
	res       *vsched.Result
}

func c15RunSchedule(t *testing.T, sc c15Scenario, choices []int) c15Outcome {
	var out c15Outcome
	tracer := &orderTracer{}
	var got []int
	var consumerDone, cancelled bool
	var q *SimpleQueue[int]
	var leftover []int
	res := vsched.Run(t, vsched.Options{Choices: choices, MaxSteps: 600}, func(s *vsched.Sched) {
		q = NewSimpleQueue[int]("v", tracer)
		ctx, cancel := context.WithCancel(context.Background())
		n := sc.total()
		s.Go("consumer", func() {
			for i := 0; i < n; i++ {
				if sc.PopMix && i%2 == 1 {
					if v, ok := q.Pop(); ok {
						got = append(got, v)
						continue
					}
				}
				v, ok := q.WaitForItem(ctx)
				if !ok {
					break
				}
				got = append(got, v)
			}
			consumerDone = true
		})
		id := 0
		for pi, cnt := range sc.Producers {
			items := make([]int, cnt)
			for k := range items {
				items[k] = id
				id++
			}
			s.Go(fmt.Sprintf("producer%d", pi), func() {
				for _, it := range items {
					q.Add(it)
				}
			})
		}
		if sc.Cancel {
			s.Go("canceller", func() {
				vsched.Yield("harness:cancel")
				cancelled = true
				cancel()
			})
		}
		s.OnTerminal = func(r *vsched.Result) {
			// read the queue content at the terminal state (no goroutine is running)
			for e := q.list.Front(); e != nil; e = e.Next() {
				leftover = append(leftover, e.Value.(int))
			}
		}
		s.Cleanup = cancel
	})
	out.res = res
	fail := func(id, msg string) {
		if out.violation == "" {
			out.violation, out.msg = id, msg
		}
	}
	if len(res.Panics) > 0 {
		fail("panic", res.Panics[0])
	}
	if res.StepLimit {
		fail("step-limit", "schedule did not terminate within the step bound (livelock?)")
	}
	if res.Deadlock {
		fail("deadlock", fmt.Sprintf("deadlock: %+v", res.Terminal))
	}
	cs := res.Status("consumer")
	for _, st := range res.Terminal {
		if strings.HasPrefix(st.Name, "producer") && st.State != "done" {
			fail("producer-stuck", fmt.Sprintf("producer did not finish: %+v", st))
		}
	}
	// window label from the trace
	lastConsumer := -1
	for i, st := range res.Trace {
		if st.G != "consumer" {
			continue
		}
		if strings.HasSuffix(st.Point, ":select") && lastConsumer >= 0 {
			for j := lastConsumer + 1; j < i; j++ {
				if strings.HasPrefix(res.Trace[j].G, "producer") && strings.HasSuffix(res.Trace[j].Point, ":select-nb") {
					out.window = true
				}
			}
		}
		lastConsumer = i
	}
	order := tracer.order
	// exactly-once + FIFO: got must be a prefix-subsequence: the k-th received item is the k-th added
	for i, v := range got {
		if i >= len(order) || order[i] != v {
			fail("fifo", fmt.Sprintf("received %v but items were added in order %v", got, order))
			break
		}
	}
	// what is left in the queue is exactly the rest of the insertion order
	if out.violation == "" {
		rest := order[len(got):]
		if fmt.Sprint(rest) != fmt.Sprint(leftover) && !(len(rest) == 0 && len(leftover) == 0) {
			fail("lost-or-dup", fmt.Sprintf("added %v, received %v, left in queue %v", order, got, leftover))
		}
	}
	if cs != nil && cs.State == "blocked" && len(leftover) > 0 && !cancelled {
		fail("lost-wakeup", fmt.Sprintf("consumer blocked at %s with %d item(s) queued and a live context", cs.Point, len(leftover)))
	}
	if !sc.Cancel {
		if out.violation == "" && (!consumerDone || len(got) != sc.total()) {
			fail("not-delivered", fmt.Sprintf("consumer done=%v received %d of %d; terminal %+v", consumerDone, len(got), sc.total(), res.Terminal))
		}
	} else if cancelled && cs != nil && cs.State != "done" {
		fail("cancel-ignored", fmt.Sprintf("context cancelled but consumer still %s at %s", cs.State, cs.Point))
	}
	return out
}

func c15Report(acct *vacct.Acct, test string, sc c15Scenario, o c15Outcome) {
	acct.Violation("conc/"+o.violation, test, map[string]any{
		"scenario": sc, "choices": o.res.Choices, "msg": o.msg, "trace": o.res.Trace, "terminal": o.res.Terminal,
	})
}

func c15Scenarios() []c15Scenario {
	sc := []c15Scenario{
		{Producers: []int{1}}, {Producers: []int{2}}, {Producers: []int{1, 1}}, {Producers: []int{1}, Cancel: true},
		{Producers: []int{2}, PopMix: true},
	}
	if vacct.Thorough() {
		sc = append(sc, c15Scenario{Producers: []int{3}}, c15Scenario{Producers: []int{2, 1}}, c15Scenario{Producers: []int{1, 1}, Cancel: true},
			c15Scenario{Producers: []int{2}, Cancel: true}, c15Scenario{Producers: []int{1, 2}, PopMix: true}, c15Scenario{Producers: []int{3}, Cancel: true, PopMix: true})
	}
	return sc
}

func TestVerif_C15_ConcDFS(t *testing.T) {
	acct := vacct.Get("C15")
	if p := vacct.ReplayPath(); p != "" {
		c15Replay(t, p)
		return
	}
	shard, nshards := vacct.Shard()
	maxRuns, maxPre := 20000, 8
	if vacct.Thorough() {
		maxRuns, maxPre = 1000000, 100
	}
	allComplete := true
	for i, sc := range c15Scenarios() {
		if i%nshards != shard {
			continue
		}
		failed := false
		runs, complete := vsched.DFS(maxPre, maxRuns, func(ch []int) *vsched.Result {
			o := c15RunSchedule(t, sc, ch)
			scj, _ := json.Marshal(sc)
			acct.Case(o.window, string(scj)+vsched.TraceKey(o.res), func() any {
				return map[string]any{"kind": "conc-dfs", "scenario": sc, "choices": o.res.Choices, "trace": o.res.Trace}
			}, "conc/schedules", lbl(o.window, "conc/add-between-unlock-and-select"), lbl(sc.Cancel, "conc/with-cancel"))
			if o.violation != "" && !failed {
				failed = true
				c15Report(acct, "TestVerif_C15_ConcDFS", sc, o)
				t.Errorf("C15 %s: %s (scenario %s choices %v)", o.violation, o.msg, scj, o.res.Choices)
			}
			return o.res
		}, func(_ []int, _ *vsched.Result) bool { return !failed })
		if !complete {
			allComplete = false
		}
		acct.Note(fmt.Sprintf("dfs/%v/cancel=%v/popmix=%v", sc.Producers, sc.Cancel, sc.PopMix), map[string]any{"schedules": runs, "complete_within_preemption_bound": complete, "max_preemptions": maxPre})
	}
	_ = allComplete
}

func TestVerif_C15_ConcRandom(t *testing.T) {
	acct := vacct.Get("C15")
	if p := vacct.ReplayPath(); p != "" {
		c15Replay(t, p)
		return
	}
	vacct.RapidCheck(t, vacct.N(1500, 100000), func(rt *rapid.T) {
		np := rapid.IntRange(1, 3).Draw(rt, "producers")
		sc := c15Scenario{Cancel: rapid.Bool().Draw(rt, "cancel"), PopMix: rapid.Bool().Draw(rt, "popmix")}
		for i := 0; i < np; i++ {
			sc.Producers = append(sc.Producers, rapid.IntRange(1, 4).Draw(rt, "items"))
		}
		choices := rapid.SliceOfN(rapid.IntRange(0, 3), 0, 120).Draw(rt, "choices")
		o := c15RunSchedule(t, sc, choices)
		scj, _ := json.Marshal(sc)
		acct.Case(o.window, string(scj)+vsched.TraceKey(o.res), func() any {
			return map[string]any{"kind": "conc-random", "scenario": sc, "choices": o.res.Choices}
		}, "conc/random-schedules", lbl(o.window, "conc/add-between-unlock-and-select"))
		if o.violation != "" {
			c15Report(acct, "TestVerif_C15_ConcRandom", sc, o)
			rt.Fatalf("C15 %s: %s (scenario %s choices %v)", o.violation, o.msg, scj, o.res.Choices)
		}
	})
}

func c15Replay(t *testing.T, path string) {
	b, err := os.ReadFile(path)
	if err != nil {
		t.Fatal(err)
	}
	var doc struct {
		Detail struct {
			Scenario c15Scenario `json:"scenario"`
			Choices  []int       `json:"choices"`
		} `json:"detail"`
	}
	if err := json.Unmarshal(b, &doc); err != nil {
		t.Fatal(err)
	}
	o := c15RunSchedule(t, doc.Detail.Scenario, doc.Detail.Choices)
	if o.violation != "" {
		c15Report(vacct.Get("C15"), "TestVerif_C15_ConcDFS", doc.Detail.Scenario, o)
		t.Errorf("replayed: C15 %s: %s", o.violation, o.msg)
		for _, s := range o.res.Trace {
			t.Logf("  %s @ %s", s.G, s.Point)
		}
	}
}
