//go:build verif

package queue

import (
	"os"
	"testing"

	"berty.tech/weshnet/v2/internal/vacct"
)

func TestMain(m *testing.M) { os.Exit(vacct.Main(m)) }
