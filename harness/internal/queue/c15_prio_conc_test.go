//go:build verif

package queue

import (
	"fmt"
	"sort"
	"testing"

	"pgregory.net/rapid"

	"berty.tech/weshnet/v2/internal/vacct"
	"berty.tech/weshnet/v2/internal/vsched"
)

// C15, concurrent half for the priority queue: producers add while a consumer flushes with NextAll (its callback is
// itself a schedule point) or takes items with Next; at the end the queue is drained. Whatever the interleaving, every
// item added is handed out exactly once, and what a single flush hands out is ascending.

type c15pScenario struct {
	Parked    []int   `json:"parked"`    // counters in the queue before the tasks start
	Producers [][]int `json:"producers"` // counters added by each producer task
	Flushes   int     `json:"flushes"`   // NextAll calls of the consumer
	Nexts     int     `json:"nexts"`     // Next calls of the consumer between the flushes
}

func c15pRun(t *testing.T, sc c15pScenario, choices []int) vsched.Outcome {
	var out vsched.Outcome
	var pq *PriorityQueue[*c15Item]
	handed := map[int]int{}
	added := map[int]int{}
	var flushes [][]int
	var nilItems int
	id := 0
	mk := func(c int) *c15Item { id++; added[c]++; return &c15Item{id: id, c: uint64(c)} }
	out.Res = vsched.Run(t, vsched.Options{Choices: choices, MaxSteps: 1500}, func(s *vsched.Sched) {
		pq = NewPriorityQueue[*c15Item]("v", &noopTracer[*c15Item]{})
		for _, c := range sc.Parked {
			pq.Add(mk(c))
		}
		items := make([][]*c15Item, len(sc.Producers))
		for i, p := range sc.Producers {
			for _, c := range p {
				items[i] = append(items[i], mk(c))
			}
		}
		for i := range sc.Producers {
			s.Go(fmt.Sprintf("producer%d", i), func() {
				for _, it := range items[i] {
					pq.Add(it)
				}
			})
		}
		s.Go("consumer", func() {
			for f := 0; f < sc.Flushes; f++ {
				var cur []int
				_ = pq.NextAll(func(it *c15Item) error {
					vsched.Yield("h:callback")
					if it == nil {
						nilItems++
						return nil
					}
					cur = append(cur, int(it.c))
					handed[int(it.c)]++
					return nil
				})
				flushes = append(flushes, cur)
				for k := 0; k < sc.Nexts; k++ {
					if it := pq.Next(); it != nil {
						handed[int(it.c)]++
					}
				}
			}
		})
	})
	out.Standard()
	for _, st := range out.Res.Terminal {
		if st.State != "done" && out.Violation == "" {
			out.Fail("task-stuck", "task did not finish: %+v", st)
		}
	}
	if out.Violation != "" {
		return out
	}
	var drained []int
	for pq.Size() > 0 {
		it := pq.Next()
		if it == nil {
			out.Fail("lost", "Size() is %d but Next hands out nothing", pq.Size())
			return out
		}
		drained = append(drained, int(it.c))
		handed[int(it.c)]++
	}
	if nilItems > 0 {
		out.Fail("nil-item", "NextAll handed %d nil item(s) to its callback", nilItems)
		return out
	}
	var cs []int
	for c := range added {
		cs = append(cs, c)
	}
	sort.Ints(cs)
	for _, c := range cs {
		if handed[c] < added[c] {
			out.Fail("lost", "counter %d was added %d time(s) but handed out %d time(s) (flushes %v, drained afterwards %v)", c, added[c], handed[c], flushes, drained)
			return out
		}
		if handed[c] > added[c] {
			out.Fail("duplicated", "counter %d was added %d time(s) but handed out %d time(s) (flushes %v, drained afterwards %v)", c, added[c], handed[c], flushes, drained)
			return out
		}
	}
	for c, n := range handed {
		if added[c] == 0 {
			out.Fail("invented", "counter %d handed out %d time(s) but never added", c, n)
			return out
		}
	}
	if !sort.IntsAreSorted(drained) {
		out.Fail("drain-order", "the final drain is not ascending: %v", drained)
		return out
	}
	// an Add ran while a flush was between two callbacks
	inFlush := false
	for _, st := range out.Res.Trace {
		if st.G == "consumer" && st.Point == "h:callback" {
			inFlush = true
		} else if inFlush && st.G != "consumer" {
			out.NonTrivial = true
		}
	}
	if out.NonTrivial {
		out.Labels = append(out.Labels, "prio-conc/add-during-flush")
	}
	return out
}

func TestVerif_C15_ConcPriority(t *testing.T) {
	e := &vsched.Explorer[c15pScenario]{PID: "C15", Prefix: "prio-conc", Test: "TestVerif_C15_ConcPriority", Run: c15pRun}
	if p := vacct.ReplayPath(); p != "" {
		if e.Replay(t, p) {
			return
		}
		return
	}
	scs := []c15pScenario{
		{Parked: []int{1, 2, 3}, Producers: [][]int{{10, 11}}, Flushes: 1},
		{Parked: []int{2, 4}, Producers: [][]int{{1}, {3}}, Flushes: 1, Nexts: 1},
		{Parked: []int{5}, Producers: [][]int{{1, 9}}, Flushes: 2},
	}
	maxRuns, maxPre := 1500, 2
	if vacct.Thorough() {
		scs = append(scs, c15pScenario{Parked: []int{1, 2, 3, 4}, Producers: [][]int{{7, 5}, {6}}, Flushes: 2, Nexts: 1}, c15pScenario{Parked: []int{3, 3, 1}, Producers: [][]int{{3, 2}}, Flushes: 1})
		maxRuns, maxPre = 60000, 3
	}
	shard, nshards := vacct.Shard()
	for i, sc := range scs {
		if i%nshards == shard {
			e.DFS(t, sc, maxPre, maxRuns)
		}
	}
}

func TestVerif_C15_ConcPriorityRandom(t *testing.T) {
	e := &vsched.Explorer[c15pScenario]{PID: "C15", Prefix: "prio-conc", Test: "TestVerif_C15_ConcPriorityRandom", Run: c15pRun}
	if p := vacct.ReplayPath(); p != "" {
		e.Replay(t, p)
		return
	}
	e.Random(t, vacct.N(400, 40000), func(rt *rapid.T) c15pScenario {
		sc := c15pScenario{Parked: rapid.SliceOfN(rapid.IntRange(1, 9), 0, 5).Draw(rt, "parked"), Flushes: rapid.IntRange(1, 2).Draw(rt, "flushes"), Nexts: rapid.IntRange(0, 2).Draw(rt, "nexts")}
		for i, n := 0, rapid.IntRange(1, 2).Draw(rt, "producers"); i < n; i++ {
			sc.Producers = append(sc.Producers, rapid.SliceOfN(rapid.IntRange(1, 12), 1, 3).Draw(rt, "adds"))
		}
		return sc
	}, 200)
}
