// Package vsched is the controlled scheduler used by the schedule-exploration
// checks (DESIGN.md section 4). It is not part of berty/weshnet: the build
// overlay maps it to internal/vsched and rewritten copies of a few sources call
// it at every lock / unlock / channel operation.
//
// When no controlled run is active every function degenerates to the plain
// operation, so instrumented and original code behave identically.
package vsched

import (
	"fmt"
	"reflect"
	"runtime"
	"sort"
	"strconv"
	"sync"
	"sync/atomic"
	"testing"
	"testing/synctest"
	"unsafe"
)

const (
	gParked int32 = iota
	gRunning
	gDone
)

type G struct {
	ID    int
	Name  string
	grant chan struct{}
	state atomic.Int32
	point atomic.Value // string: where it is parked / the last point it passed
	// lock waiting
	waitLock  atomic.Bool
	lockEpoch uint64
	waitKey   unsafe.Pointer
	held      map[lockKey]int
	unwinding bool
	panicked  any
	stack     string
}

type lockKey struct {
	p unsafe.Pointer
	r bool
}

func (g *G) Point() string {
	if s, ok := g.point.Load().(string); ok {
		return s
	}
	return ""
}

type Step struct {
	G     string `json:"g"`
	Point string `json:"p"`
}

// GStatus describes a managed goroutine at the terminal state.
type GStatus struct {
	Name  string `json:"name"`
	State string `json:"state"` // done | blocked | lockwait | parked
	Point string `json:"point"`
}

type Result struct {
	Trace     []Step      `json:"trace"`
	Sizes     []int       `json:"-"` // size of the eligible set at every step
	Preempt   []bool      `json:"-"` // whether choosing a non-zero index at step i is a preemption
	Terminal  []GStatus   `json:"terminal"`
	Deadlock  bool        `json:"deadlock"`   // nobody eligible, somebody waits for a lock
	StepLimit bool        `json:"step_limit"` // schedule cut at MaxSteps
	Panics    []string    `json:"panics"`     // non-sentinel panics of managed goroutines
	LockPairs [][2]string `json:"-"`          // (held -> acquired) label pairs seen
	Choices   []int       `json:"choices"`    // the choices actually used (normalised)
}

// Blocked reports whether the named goroutine ended durably blocked in a real
// operation (channel receive / select) rather than finished.
func (r *Result) Status(name string) *GStatus {
	for i := range r.Terminal {
		if r.Terminal[i].Name == name {
			return &r.Terminal[i]
		}
	}
	return nil
}

type Sched struct {
	mu             sync.Mutex
	gs             []*G
	byGoid         map[uint64]*G
	choices        []int
	maxSteps       int
	unlockEpoch    atomic.Uint64
	aborting       atomic.Bool
	res            *Result
	last           *G
	lockPairs      map[[2]string]struct{}
	writersWaiting map[unsafe.Pointer]int
	OnTerminal     func(r *Result) // called inside the bubble at the terminal state, before cleanup
	Cleanup        func()          // cancels contexts etc. so that blocked goroutines can unwind
}

var active atomic.Pointer[Sched]

type abortSentinel struct{}

func goid() uint64 {
	var buf [64]byte
	n := runtime.Stack(buf[:], false)
	// "goroutine 123 ["
	b := buf[len("goroutine "):n]
	i := 0
	for i < len(b) && b[i] >= '0' && b[i] <= '9' {
		i++
	}
	id, _ := strconv.ParseUint(string(b[:i]), 10, 64)
	return id
}

func current() (*Sched, *G) {
	s := active.Load()
	if s == nil {
		return nil, nil
	}
	id := goid()
	s.mu.Lock()
	g := s.byGoid[id]
	s.mu.Unlock()
	return s, g
}

// ---------------------------------------------------------------- instrumented API

// Yield is a scheduling point.
func Yield(label string) {
	s, g := current()
	if g == nil {
		return
	}
	s.park(g, label)
}

func (s *Sched) park(g *G, label string) {
	if s.aborting.Load() {
		g.unwinding = true
		panic(abortSentinel{})
	}
	g.point.Store(label)
	g.state.Store(gParked)
	<-g.grant
	if s.aborting.Load() {
		g.unwinding = true
		panic(abortSentinel{})
	}
}

func keyOf(p any) unsafe.Pointer {
	rv := reflect.ValueOf(p) // p = &X
	if rv.Kind() != reflect.Ptr || rv.IsNil() {
		return nil
	}
	e := rv.Elem()
	for e.Kind() == reflect.Interface && !e.IsNil() {
		e = e.Elem()
	}
	if e.Kind() == reflect.Ptr {
		return e.UnsafePointer()
	}
	return rv.UnsafePointer()
}

// Lock replaces X.Lock(): ref is &X, lock/try are the method values.
func Lock(ref any, lock func(), try func() bool, label string) {
	lockImpl(ref, false, lock, try, label)
}

// RLock replaces X.RLock().
func RLock(ref any, lock func(), try func() bool, label string) {
	lockImpl(ref, true, lock, try, label)
}

func lockImpl(ref any, r bool, lock func(), try func() bool, label string) {
	s, g := current()
	if g == nil {
		lock()
		return
	}
	k := lockKey{keyOf(ref), r}
	s.park(g, label)
	// sync.RWMutex semantics: once a writer waits for the lock, readers arriving later wait behind it (a second RLock
	// by a goroutine that already holds a read lock then deadlocks against that writer)
	announced := false
	attempt := func() bool {
		if r {
			s.mu.Lock()
			pending := s.writersWaiting[k.p] > 0
			s.mu.Unlock()
			if pending {
				return false
			}
		}
		return try()
	}
	for !attempt() {
		if !r && !announced {
			announced = true
			s.mu.Lock()
			s.writersWaiting[k.p]++
			s.mu.Unlock()
		}
		g.lockEpoch = s.unlockEpoch.Load()
		g.waitKey = k.p
		g.waitLock.Store(true)
		s.park(g, label+"/wait")
		g.waitLock.Store(false)
	}
	if announced {
		s.mu.Lock()
		s.writersWaiting[k.p]--
		s.mu.Unlock()
		s.unlockEpoch.Add(1) // readers held back by this writer may look again (they will now find the lock taken)
	}
	// record lock-order pairs (held -> acquired)
	s.mu.Lock()
	for h, n := range g.held {
		if n > 0 && h.p != k.p {
			s.lockPairs[[2]string{s.lockName(h.p), s.lockName(k.p)}] = struct{}{}
		}
	}
	s.mu.Unlock()
	g.held[k]++
}

var (
	lockNamesMu sync.Mutex
	lockNames   = map[unsafe.Pointer]string{}
)

// NameLock gives a lock a readable name in lock-order reports.
func NameLock(ref any, name string) {
	lockNamesMu.Lock()
	lockNames[keyOf(ref)] = name
	lockNamesMu.Unlock()
}

func (s *Sched) lockName(p unsafe.Pointer) string {
	lockNamesMu.Lock()
	defer lockNamesMu.Unlock()
	if n, ok := lockNames[p]; ok {
		return n
	}
	return fmt.Sprintf("%p", p)
}

// Unlock replaces X.Unlock() (also under defer).
func Unlock(ref any, unlock func(), label string) { unlockImpl(ref, false, unlock) }

// RUnlock replaces X.RUnlock().
func RUnlock(ref any, unlock func(), label string) { unlockImpl(ref, true, unlock) }

func unlockImpl(ref any, r bool, unlock func()) {
	s, g := current()
	if g == nil {
		unlock()
		return
	}
	k := lockKey{keyOf(ref), r}
	if g.unwinding {
		// unwinding after an abort: release only what this goroutine holds
		if g.held[k] > 0 {
			g.held[k]--
			unlock()
			s.unlockEpoch.Add(1)
		}
		return
	}
	if g.held[k] > 0 {
		g.held[k]--
	}
	unlock()
	s.unlockEpoch.Add(1)
}

type tryLocker interface{ TryLock() bool }

// LockLocker replaces X.Lock() where X is a sync.Locker interface value.
func LockLocker(ref any, l sync.Locker, label string) {
	if tl, ok := l.(tryLocker); ok {
		lockImpl(ref, false, l.Lock, tl.TryLock, label)
		return
	}
	_, g := current()
	if g != nil {
		panic("vsched: sync.Locker without TryLock under controlled run: " + label)
	}
	l.Lock()
}

// UnlockLocker replaces X.Unlock() where X is a sync.Locker interface value.
func UnlockLocker(ref any, l sync.Locker, label string) { unlockImpl(ref, false, l.Unlock) }

// Go replaces a go statement.
func Go(fn func(), label string) {
	s, g := current()
	if g == nil {
		go fn()
		return
	}
	s.spawn(label, fn)
}

// ---------------------------------------------------------------- harness API

// Go starts a managed goroutine of the harness (a driver).
func (s *Sched) Go(name string, fn func()) { s.spawn(name, fn) }

func (s *Sched) spawn(name string, fn func()) {
	s.mu.Lock()
	g := &G{ID: len(s.gs), grant: make(chan struct{}, 1), held: map[lockKey]int{}}
	g.Name = name
	for _, o := range s.gs {
		if o.Name == g.Name {
			g.Name = fmt.Sprintf("%s#%d", name, g.ID)
			break
		}
	}
	g.point.Store("start")
	g.state.Store(gRunning) // becomes parked once it has registered itself
	s.gs = append(s.gs, g)
	s.mu.Unlock()
	go func() {
		id := goid()
		s.mu.Lock()
		s.byGoid[id] = g
		s.mu.Unlock()
		defer func() {
			if r := recover(); r != nil {
				if _, ok := r.(abortSentinel); !ok {
					buf := make([]byte, 8192)
					n := runtime.Stack(buf, false)
					g.panicked = r
					g.stack = string(buf[:n])
				}
			}
			s.mu.Lock()
			delete(s.byGoid, id)
			s.mu.Unlock()
			g.state.Store(gDone)
		}()
		s.park(g, "start")
		fn()
	}()
}

// Options of a controlled run.
type Options struct {
	Choices  []int
	MaxSteps int
}

// Run executes one schedule: setup creates the objects under test and starts
// managed goroutines with s.Go; the scheduler then steps them according to the
// choice vector. It returns the trace and the terminal state.
func Run(t *testing.T, opt Options, setup func(s *Sched)) *Result {
	res := &Result{}
	synctest.Test(t, func(t *testing.T) {
		s := &Sched{byGoid: map[uint64]*G{}, choices: opt.Choices, maxSteps: opt.MaxSteps, res: res, lockPairs: map[[2]string]struct{}{}, writersWaiting: map[unsafe.Pointer]int{}}
		if s.maxSteps <= 0 {
			s.maxSteps = 4000
		}
		if !active.CompareAndSwap(nil, s) {
			panic("vsched: nested controlled run")
		}
		defer active.Store(nil)
		setup(s)
		s.loop()
		s.terminal()
		if s.OnTerminal != nil {
			s.OnTerminal(res)
		}
		s.abort()
	})
	return res
}

func (s *Sched) eligible() []*G {
	var el []*G
	epoch := s.unlockEpoch.Load()
	s.mu.Lock()
	gs := append([]*G(nil), s.gs...)
	s.mu.Unlock()
	for _, g := range gs {
		if g.state.Load() != gParked {
			continue
		}
		if g.waitLock.Load() && g.lockEpoch == epoch {
			continue
		}
		el = append(el, g)
	}
	sort.Slice(el, func(i, j int) bool { return el[i].ID < el[j].ID })
	// keep the goroutine that ran last in front: choice 0 = no context switch
	if s.last != nil {
		for i, g := range el {
			if g == s.last {
				copy(el[1:i+1], el[:i])
				el[0] = g
				break
			}
		}
	}
	return el
}

func (s *Sched) loop() {
	for step := 0; ; step++ {
		synctest.Wait()
		el := s.eligible()
		if len(el) == 0 {
			return
		}
		if step >= s.maxSteps {
			s.res.StepLimit = true
			return
		}
		c := 0
		if step < len(s.choices) {
			c = s.choices[step] % len(el)
			if c < 0 {
				c = -c
			}
		}
		g := el[c]
		s.res.Sizes = append(s.res.Sizes, len(el))
		s.res.Preempt = append(s.res.Preempt, s.last != nil && el[0] == s.last)
		s.res.Choices = append(s.res.Choices, c)
		s.res.Trace = append(s.res.Trace, Step{G: g.Name, Point: g.Point()})
		s.last = g
		g.state.Store(gRunning)
		g.grant <- struct{}{}
	}
}

func (s *Sched) terminal() {
	s.mu.Lock()
	gs := append([]*G(nil), s.gs...)
	s.mu.Unlock()
	anyLockWait := false
	for _, g := range gs {
		st := GStatus{Name: g.Name, Point: g.Point()}
		switch g.state.Load() {
		case gDone:
			st.State = "done"
		case gRunning:
			st.State = "blocked" // durably blocked in a real operation after its last point
		case gParked:
			if g.waitLock.Load() {
				st.State = "lockwait"
				anyLockWait = true
			} else {
				st.State = "parked"
			}
		}
		if g.panicked != nil {
			s.res.Panics = append(s.res.Panics, fmt.Sprintf("%s: %v\n%s", g.Name, g.panicked, g.stack))
		}
		s.res.Terminal = append(s.res.Terminal, st)
	}
	if anyLockWait && !s.res.StepLimit {
		s.res.Deadlock = true
	}
	for p := range s.lockPairs {
		s.res.LockPairs = append(s.res.LockPairs, p)
	}
}

func (s *Sched) abort() {
	s.aborting.Store(true)
	if s.Cleanup != nil {
		s.Cleanup()
	}
	for i := 0; i < 1000; i++ {
		synctest.Wait()
		s.mu.Lock()
		gs := append([]*G(nil), s.gs...)
		s.mu.Unlock()
		alive := 0
		for _, g := range gs {
			switch g.state.Load() {
			case gParked:
				alive++
				g.state.Store(gRunning)
				g.grant <- struct{}{}
			case gRunning:
				alive++
			}
		}
		if alive == 0 {
			break
		}
	}
	// late panics (during unwinding) are harness-relevant too
	s.mu.Lock()
	for _, g := range s.gs {
		if g.panicked != nil {
			msg := fmt.Sprintf("%s: %v\n%s", g.Name, g.panicked, g.stack)
			found := false
			for _, p := range s.res.Panics {
				if p == msg {
					found = true
				}
			}
			if !found {
				s.res.Panics = append(s.res.Panics, msg)
			}
		}
	}
	s.mu.Unlock()
}

// ---------------------------------------------------------------- exploration

// DFS enumerates schedules depth-first with at most maxPreempt preemptions per
// schedule (a preemption = switching away from a goroutine that could continue)
// and at most maxRuns schedules. run executes one schedule for a choice vector
// and returns its Result; visit is called for every executed schedule and may
// return false to stop. DFS reports the number of schedules and whether the
// bounded tree was exhausted.
func DFS(maxPreempt, maxRuns int, run func(choices []int) *Result, visit func(choices []int, r *Result) bool) (runs int, complete bool) {
	type node struct {
		prefix  []int
		preempt int
	}
	stack := []node{{}}
	for len(stack) > 0 {
		if runs >= maxRuns {
			return runs, false
		}
		n := stack[len(stack)-1]
		stack = stack[:len(stack)-1]
		r := run(n.prefix)
		runs++
		if !visit(r.Choices, r) {
			return runs, false
		}
		// children: at every step beyond the prefix, every alternative choice
		pre := n.preempt
		for i := len(n.prefix); i < len(r.Sizes); i++ {
			for alt := r.Sizes[i] - 1; alt >= 1; alt-- {
				np := pre
				if r.Preempt[i] {
					np++
				}
				if np > maxPreempt {
					continue
				}
				p := make([]int, i+1)
				copy(p, r.Choices[:i])
				p[i] = alt
				stack = append(stack, node{prefix: p, preempt: np})
			}
		}
	}
	return runs, true
}

// TraceKey is a compact rendering of a trace for distinct-case accounting.
func TraceKey(r *Result) string {
	b := make([]byte, 0, len(r.Trace)*12)
	for _, s := range r.Trace {
		b = append(b, s.G...)
		b = append(b, '@')
		b = append(b, s.Point...)
		b = append(b, ';')
	}
	return string(b)
}
