package vsched

import (
	"strings"
	"encoding/json"
	"fmt"
	"os"
	"testing"

	"pgregory.net/rapid"

	"berty.tech/weshnet/v2/internal/vacct"
)

// Outcome of one schedule as judged by a property's oracle.
type Outcome struct {
	Violation  string   // identity suffix, "" when the schedule is fine
	Msg        string
	NonTrivial bool
	Labels     []string
	Res        *Result
}

func (o *Outcome) Fail(id, format string, a ...any) {
	if o.Violation == "" {
		o.Violation, o.Msg = id, fmt.Sprintf(format, a...)
	}
}

// Standard folds the generic terminal facts into an outcome.
func (o *Outcome) Standard() {
	r := o.Res
	if len(r.Panics) > 0 {
		o.Fail("panic", "%s", r.Panics[0])
	}
	if r.StepLimit {
		o.Fail("step-limit", "schedule did not terminate within the step bound (livelock?)")
	}
	if r.Deadlock {
		o.Fail("deadlock", "deadlock, terminal state %+v", r.Terminal)
	}
}

// Explorer runs scenarios of type S under DFS, random and replayed schedules.
type Explorer[S any] struct {
	PID    string // property id
	Prefix string // violation identity prefix, e.g. "tracker"
	Test   string // name of the calling test (for replay)
	Run    func(t *testing.T, sc S, choices []int) Outcome
}

func (e *Explorer[S]) acct() *vacct.Acct { return vacct.Get(e.PID) }

func (e *Explorer[S]) record(kind string, sc S, o Outcome) {
	scj, _ := json.Marshal(sc)
	labels := append([]string{e.Prefix + "/" + kind}, o.Labels...)
	e.acct().Case(o.NonTrivial, e.Prefix+string(scj)+TraceKey(o.Res), func() any {
		return map[string]any{"kind": e.Prefix + "/" + kind, "scenario": sc, "choices": o.Res.Choices, "trace": o.Res.Trace}
	}, labels...)
}

func (e *Explorer[S]) report(sc S, o Outcome) {
	if strings.HasPrefix(o.Violation, "harness-") {
		return // a problem of the harness or its model: the test fails without a recorded violation (driver exit 2)
	}
	e.acct().Violation(e.Prefix+"/"+o.Violation, e.Test, map[string]any{
		"prefix": e.Prefix, "scenario": sc, "choices": o.Res.Choices, "msg": o.Msg, "trace": o.Res.Trace, "terminal": o.Res.Terminal,
	})
}

// DFS explores one scenario; returns false if a violation was found.
func (e *Explorer[S]) DFS(t *testing.T, sc S, maxPreempt, maxRuns int) bool {
	failed := false
	runs, complete := DFS(maxPreempt, maxRuns, func(ch []int) *Result {
		o := e.Run(t, sc, ch)
		e.record("dfs-schedules", sc, o)
		if o.Violation != "" && !failed {
			failed = true
			e.report(sc, o)
			scj, _ := json.Marshal(sc)
			t.Errorf("%s %s/%s: %s (scenario %s choices %v)", e.PID, e.Prefix, o.Violation, o.Msg, scj, o.Res.Choices)
		}
		return o.Res
	}, func([]int, *Result) bool { return !failed })
	scj, _ := json.Marshal(sc)
	e.acct().Note("dfs/"+e.Prefix+"/"+string(scj), map[string]any{"schedules": runs, "tree_exhausted_within_preemption_bound": complete, "max_preemptions": maxPreempt})
	if !complete && !failed {
		e.acct().SetExhaustive(false)
	}
	return !failed
}

// Random runs rapid-generated (scenario, choices) pairs.
func (e *Explorer[S]) Random(t *testing.T, checks int, gen func(rt *rapid.T) S, maxLen int) {
	vacct.RapidCheck(t, checks, func(rt *rapid.T) {
		sc := gen(rt)
		choices := rapid.SliceOfN(rapid.IntRange(0, 3), 0, maxLen).Draw(rt, "choices")
		o := e.Run(t, sc, choices)
		e.record("random-schedules", sc, o)
		if o.Violation != "" {
			e.report(sc, o)
			scj, _ := json.Marshal(sc)
			rt.Fatalf("%s %s/%s: %s (scenario %s choices %v)", e.PID, e.Prefix, o.Violation, o.Msg, scj, o.Res.Choices)
		}
	})
}

// Replay re-executes the schedule stored in a replay file written by the
// driver. It returns false when the file belongs to another explorer.
func (e *Explorer[S]) Replay(t *testing.T, path string) bool {
	b, err := os.ReadFile(path)
	if err != nil {
		t.Fatal(err)
	}
	var doc struct {
		Detail struct {
			Prefix   string          `json:"prefix"`
			Scenario json.RawMessage `json:"scenario"`
			Choices  []int           `json:"choices"`
		} `json:"detail"`
	}
	if err := json.Unmarshal(b, &doc); err != nil {
		t.Fatal(err)
	}
	if doc.Detail.Prefix != e.Prefix {
		return false
	}
	var sc S
	if err := json.Unmarshal(doc.Detail.Scenario, &sc); err != nil {
		t.Fatal(err)
	}
	o := e.Run(t, sc, doc.Detail.Choices)
	if o.Violation != "" {
		e.report(sc, o)
		t.Errorf("replayed: %s %s/%s: %s", e.PID, e.Prefix, o.Violation, o.Msg)
		for _, s := range o.Res.Trace {
			t.Logf("  %s @ %s", s.G, s.Point)
		}
	} else {
		t.Logf("replayed: no violation")
	}
	return true
}
