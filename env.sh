# source me: toolchain + offline settings used by every check
export GOTOOLCHAIN=local
export PATH=/root/go/pkg/mod/golang.org/toolchain@v0.0.1-go1.26.4.linux-amd64/bin:$PATH
export GOFLAGS=-mod=mod
export GOPROXY=off
export GONOSUMDB=*
export GONOSUMCHECK=1
export GOFLAGS=-mod=mod
